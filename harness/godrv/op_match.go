package main

import (
	"strings"

	"ti/base"
	me "ti/eval/method_evaluator"
)

func atomT(s string) *base.T {
	switch {
	case s == "I":
		return base.MakeAnyInt()
	case s == "S":
		return base.MakeAnyString()
	case s == "F":
		return base.MakeAnyFloat()
	case s == "Y":
		return base.MakeAnySymbol()
	case s == "B":
		return base.MakeBool()
	case s == "N":
		return base.MakeNil()
	case s == "A":
		return base.MakeAnyArray()
	case s == "H":
		return base.MakeAnyHash()
	case s == "U":
		return base.MakeUntyped()
	case s == "K":
		return base.MakeUnknown()
	case s == "L":
		return base.MakeBlock()
	case s == "R":
		return base.MakeRange()
	case strings.HasPrefix(s, "O:"):
		return base.MakeObject(s[2:])
	case strings.HasPrefix(s, "C:"):
		return base.MakeClass(s[2:])
	case strings.HasPrefix(s, "v<") && strings.HasSuffix(s, ">"):
		var vs []base.T
		if inner := s[2 : len(s)-1]; inner != "" {
			for _, x := range strings.Split(inner, ";") {
				vs = append(vs, *atomT(x))
			}
		}
		return base.MakeUnion(vs)
	}
	panic("bad atom " + s)
}

// u[a,b,...] or an atom
func recipeT(s string) *base.T {
	if strings.HasPrefix(s, "u[") && strings.HasSuffix(s, "]") {
		var vs []base.T
		if inner := s[2 : len(s)-1]; inner != "" {
			for _, x := range strings.Split(inner, ",") {
				vs = append(vs, *atomT(x))
			}
		}
		return base.MakeUnion(vs)
	}
	return atomT(s)
}

// match <declared> | <argument>  ->  IsMatchType, IsMatchUnionType (declared as receiver), checkArgType accepted
func opMatch(args string) string {
	ds, as, _ := strings.Cut(args, " | ")
	d, a := recipeT(strings.TrimSpace(ds)), recipeT(strings.TrimSpace(as))
	return b01(d.IsMatchType(a)) + b01(d.IsMatchUnionType(a)) + b01(me.VerifCheckArgType(d, a))
}

func init() {
	ops["match"] = opMatch
}

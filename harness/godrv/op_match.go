package main

import (
	"strings"

	"ti/base"
	me "ti/eval/method_evaluator"
	"ti/lexer"
	"ti/lexer/reader"
	"ti/parser"
)

func atomT(s string) *base.T {
	switch {
	case s == "I":
		return base.MakeAnyInt()
	case s == "S":
		return base.MakeAnyString()
	case s == "F":
		return base.MakeAnyFloat()
	case s == "Y":
		return base.MakeAnySymbol()
	case s == "B":
		return base.MakeBool()
	case s == "N":
		return base.MakeNil()
	case s == "A":
		return base.MakeAnyArray()
	case s == "H":
		return base.MakeAnyHash()
	case s == "U":
		return base.MakeUntyped()
	case s == "K":
		return base.MakeUnknown()
	case s == "L":
		return base.MakeBlock()
	case s == "R":
		return base.MakeRange()
	case s == "SELF":
		return base.MakeSelf()
	case s == "UNIFY":
		return base.MakeUnify()
	case s == "OPTU":
		return base.MakeOptionalUnify()
	case s == "SELFARR":
		return base.MakeSelfArray()
	case s == "ARG":
		return base.MakeArgument()
	case s == "KVARR":
		return base.MakeKeyValueArray()
	case strings.HasPrefix(s, "NS:"):
		return base.MakeIdentifier(s[3:])
	case strings.HasPrefix(s, "O:"):
		return base.MakeObject(s[2:])
	case strings.HasPrefix(s, "C:"):
		return base.MakeClass(s[2:])
	case strings.HasPrefix(s, "v<") && strings.HasSuffix(s, ">"):
		var vs []base.T
		if inner := s[2 : len(s)-1]; inner != "" {
			for _, x := range strings.Split(inner, ";") {
				vs = append(vs, *atomT(x))
			}
		}
		return base.MakeUnion(vs)
	}
	panic("bad atom " + s)
}

// u[a,b,...] or an atom
func recipeT(s string) *base.T {
	if strings.HasPrefix(s, "u[") && strings.HasSuffix(s, "]") {
		var vs []base.T
		if inner := s[2 : len(s)-1]; inner != "" {
			for _, x := range strings.Split(inner, ",") {
				vs = append(vs, *atomT(x))
			}
		}
		return base.MakeUnion(vs)
	}
	return atomT(s)
}

// match <declared> | <argument>  ->  IsMatchType, IsMatchUnionType (declared as receiver), checkArgType accepted
func opMatch(args string) string {
	ds, as, _ := strings.Cut(args, " | ")
	d, a := recipeT(strings.TrimSpace(ds)), recipeT(strings.TrimSpace(as))
	return b01(d.IsMatchType(a)) + b01(d.IsMatchUnionType(a)) + b01(me.VerifCheckArgType(d, a))
}

func init() {
	ops["match"] = opMatch
}

// ---- nested recipes: I S F Y B N U K R L, O:Name, A( ... ), U( ... ), H( key= value ... )

func parseNested(toks []string, pos int) (*base.T, int) {
	tok := toks[pos]
	switch tok {
	case "A(", "U(":
		var vs []base.T
		pos++
		for toks[pos] != ")" {
			var t *base.T
			t, pos = parseNested(toks, pos)
			vs = append(vs, *t)
		}
		if tok == "A(" {
			return base.MakeArray(vs), pos + 1
		}
		return base.MakeUnion(vs), pos + 1
	case "H(":
		h := base.MakeAnyHash()
		pos++
		for toks[pos] != ")" {
			key := strings.TrimSuffix(toks[pos], "=")
			var t *base.T
			t, pos = parseNested(toks, pos+1)
			h.AppendHashVariant(*base.MakeKeyValue(key, t))
		}
		return h, pos + 1
	}
	if tok == "U" {
		return base.MakeUntyped(), pos + 1
	}
	return atomT(tok), pos + 1
}

func nestedT(s string) *base.T {
	t, _ := parseNested(strings.Fields(s), 0)
	return t
}

// appendv <t> | <v>   -> t.AppendVariant(v): encoding and rendering of t afterwards
func opAppendV(args string) string {
	ts, vs, _ := strings.Cut(args, " | ")
	t, v := nestedT(ts), nestedT(vs)
	t.AppendVariant(*v)
	return base.VerifEncodeT(t) + " " + base.TypeToString(t)
}

// unify <t>   -> t.UnifyVariants()
func opUnify(args string) string {
	t := nestedT(args)
	u := t.UnifyVariants()
	return base.VerifEncodeT(u) + " " + base.TypeToString(u)
}

// render <t>
func opRender(args string) string {
	return base.TypeToString(nestedT(args))
}

func init() {
	ops["appendv"] = opAppendV
	ops["unify"] = opUnify
	ops["render"] = opRender
}

// ret <declared return> | <receiver> | <arg> ; <arg> ...   -> calculateExecutionType: result, rendering, receiver afterwards
func opRet(args string) string {
	parts := strings.Split(args, " | ")
	m := base.MakeMethod("Builtin", "m", *nestedT(parts[0]), []string{})
	recv := nestedT(parts[1])
	var as []*base.T
	for _, a := range strings.Split(parts[2], ";") {
		if strings.TrimSpace(a) != "" {
			as = append(as, nestedT(a))
		}
	}
	p := parser.New(lexer.New(reader.VerifNew(nil)), "f.rb")
	r := me.VerifCalculateExecutionType(&p, m, recv, as)
	return base.VerifEncodeT(r) + " " + base.TypeToString(r) + " | " + base.VerifEncodeT(recv)
}

func init() {
	ops["ret"] = opRet
}

package main

import (
	"encoding/json"
	"strings"

	"ti/base"
	"ti/builtin"
)

func specJSON(spec string) (any, bool) {
	switch {
	case spec == "-":
		return nil, false
	case strings.HasPrefix(spec, "s:"):
		return spec[2:], true
	case strings.HasPrefix(spec, "a:"):
		if spec == "a:" {
			return []string{}, true
		}
		return strings.Split(spec[2:], ","), true
	}
	panic("bad spec " + spec)
}

// ptype <type string>
func opPType(args string) string {
	t := builtin.VerifParseTypeString(args)
	return base.VerifEncodeT(&t)
}

// pret <cdo flags> <spec>
func opPRet(args string) string {
	fl, spec, _ := strings.Cut(args, " ")
	m := map[string]any{}
	if v, ok := specJSON(spec); ok {
		m["type"] = v
	}
	m["is_conditional"] = fl[0] == '1'
	m["is_destructive"] = fl[1] == '1'
	m["is_capture_owner"] = fl[2] == '1'
	js, _ := json.Marshal(m)
	t, err := builtin.VerifParseReturnType(js)
	if err != nil {
		return "ERR " + err.Error()
	}
	return base.VerifEncodeT(&t)
}

// pargs <spec>~<key>~<A>~<D> ;; ...
func opPArgs(args string) string {
	var list []map[string]any
	if strings.TrimSpace(args) != "" {
		for _, a := range strings.Split(args, " ;; ") {
			f := strings.Split(a, "~")
			m := map[string]any{}
			if v, ok := specJSON(f[0]); ok {
				m["type"] = v
			}
			if f[1] != "" {
				m["key"] = f[1]
			}
			if f[2] == "1" {
				m["is_asterisk"] = true
			}
			if f[3] == "1" {
				m["is_default"] = true
			}
			list = append(list, m)
		}
	}
	js, _ := json.Marshal(list)
	ts, err := builtin.VerifParseArguments(js)
	if err != nil {
		return "ERR " + err.Error()
	}
	parts := make([]string, len(ts))
	for i := range ts {
		parts[i] = base.VerifEncodeT(&ts[i])
	}
	return strings.Join(parts, " | ")
}

func opBuiltin(args string) string {
	t := builtin.ConvertToBuiltinT(args)
	return base.VerifEncodeT(&t)
}

func init() {
	ops["ptype"] = opPType
	ops["pret"] = opPRet
	ops["pargs"] = opPArgs
	ops["builtin"] = opBuiltin
}

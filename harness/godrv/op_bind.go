package main

import (
	"encoding/json"
	"strconv"
	"strings"

	"ti/base"
	"ti/builtin"
	me "ti/eval/method_evaluator"
)

var bindSeq int

var typeNames = map[string]string{"I": "Int", "S": "String", "F": "Float", "Y": "Symbol", "N": "NilClass", "U": "Untyped", "B": "Bool", "A": "Array", "H": "Hash"}

func specName(s string) string {
	var parts []string
	for _, x := range strings.Split(s, "+") {
		if strings.HasPrefix(x, "O:") {
			parts = append(parts, x[2:])
		} else {
			parts = append(parts, typeNames[x])
		}
	}
	return strings.Join(parts, "|")
}

// bind <params> | <args> | <untyped return 0/1>
// params: p:<type>[?]  s:<type> (rest)  k:<name>:<type>[?]      type = I S F Y N U B A H O:Name, unions with +
// args:   <T recipe> or <name>=<T recipe> (keyword), separated by ;
// answer: ok | tooFew | tooMany | mismatch | missingKey | extraArg | notDefined | kwExpected | other:<text>
func opBind(args string) string {
	parts := strings.Split(args, " | ")
	bindSeq++
	cls := "Bd" + strconv.Itoa(bindSeq)
	if e := declare(cls, parts[0], strings.TrimSpace(parts[2]) == "1"); e != "" {
		return e
	}
	methodT := base.GetMethodT("Builtin", cls, "m", false)
	return classifyBindError(me.VerifCheckAndPropagateArgs(cls, methodT, parseBindArgs(parts[1])))
}

// bindu <decl> ;; <decl> ... || <decl> ;; ... | <args>
// a receiver that is a union of classes (separated by ||); each class declares method m once or several times (;;: the
// later declarations are overloads). Answer as for bind: the first class none of whose declarations accepts the call decides.
func opBindU(args string) string {
	parts := strings.Split(args, " | ")
	var classes []string
	var methodTs []*base.T
	for _, cdecl := range strings.Split(parts[0], " || ") {
		bindSeq++
		cls := "Bu" + strconv.Itoa(bindSeq)
		for _, d := range strings.Split(cdecl, " ;; ") {
			if e := declare(cls, d, false); e != "" {
				return e
			}
		}
		classes = append(classes, cls)
		methodTs = append(methodTs, base.GetMethodT("Builtin", cls, "m", false))
	}
	return classifyBindError(me.VerifCheckUnion(classes, methodTs, parseBindArgs(parts[1])))
}

// declare defines instance method m of a configured class from a parameter spec (a second call adds an overload)
func declare(cls, spec string, untyped bool) string {
	var jargs []map[string]any
	for _, p := range strings.Fields(strings.ReplaceAll(spec, "-", " ")) {
		f := strings.Split(p, ":")
		switch f[0] {
		case "p", "s":
			t := strings.Join(f[1:], ":")
			dflt := strings.HasSuffix(t, "?")
			t = strings.TrimSuffix(t, "?")
			a := map[string]any{"type": specName(t)}
			if dflt {
				a["is_default"] = true
			}
			if f[0] == "s" {
				a["is_asterisk"] = true
			}
			jargs = append(jargs, a)
		case "k":
			t := strings.Join(f[2:], ":")
			dflt := strings.HasSuffix(t, "?")
			t = strings.TrimSuffix(t, "?")
			a := map[string]any{"type": specName(t), "key": f[1] + ":"}
			if dflt {
				a["is_default"] = true
			}
			jargs = append(jargs, a)
		}
	}
	if jargs == nil {
		jargs = []map[string]any{}
	}
	ja, _ := json.Marshal(jargs)
	ret := `{"type": "Int"}`
	if untyped {
		ret = `{"type": "Untyped"}`
	}
	if err := builtin.VerifDefineInstanceMethod(cls, "m", ja, []byte(ret)); err != nil {
		return "other:" + err.Error()
	}
	return ""
}

func parseBindArgs(spec string) []*base.T {
	var as []*base.T
	for _, a := range strings.Split(spec, ";") {
		a = strings.TrimSpace(a)
		if a == "" || a == "-" {
			continue
		}
		if i := strings.Index(a, "="); i > 0 && !strings.Contains(a[:i], " ") && !strings.Contains(a[:i], "(") {
			as = append(as, base.MakeKeyValue(a[:i]+":", nestedT(a[i+1:])))
		} else {
			as = append(as, nestedT(a))
		}
	}
	return as
}

func classifyBindError(e string) string {
	switch {
	case e == "":
		return "ok"
	case strings.HasPrefix(e, "too few"):
		return "tooFew"
	case strings.HasPrefix(e, "too many"):
		return "tooMany"
	case strings.HasPrefix(e, "type mismatch"):
		return "mismatch"
	case strings.Contains(e, ": is not defined expected"):
		return "missingKey"
	case strings.HasSuffix(e, "is extra argument"):
		return "extraArg"
	case strings.Contains(e, " is not defined expected"):
		return "notDefined"
	case strings.HasPrefix(e, "expected keyvalue"):
		return "kwExpected"
	}
	return "other:" + e
}

func init() {
	ops["bind"] = opBind
	ops["bindu"] = opBindU
}

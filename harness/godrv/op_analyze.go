package main

import (
	"bufio"
	"fmt"
	"sort"
	"strings"

	"ti/base"
	"ti/context"
	"ti/eval"
	"ti/lexer"
	"ti/lexer/reader"
	"ti/parser"
)

var builtinBaseline map[string]string

func unescapeText(s string) string {
	s = strings.ReplaceAll(s, "\\n", "\n")
	s = strings.ReplaceAll(s, "\\\\", "\\")
	return s
}

// the four rounds of main.go on a program text, in this process (no output modes)
func analyzeText(text string) []string {
	var diags []string
	for _, round := range context.GetRounds() {
		br := bufio.NewReader(strings.NewReader(text))
		p := parser.New(lexer.New(reader.New(*br)), "f.rb")
		for key, value := range base.TFrame {
			if value.IsIdentifierType() && key.Variable() == value.ToString() {
				delete(base.TFrame, key)
			}
		}
		ctx := context.NewContext("", "", round)
		evaluator := eval.Evaluator{}
		p.Errors = []error{}
		func() {
			defer func() {
				if r := recover(); r != nil {
					if r != parser.ErrUnexpectedEOF {
						panic(r)
					}
					p.Fatal(ctx, parser.ErrUnexpectedEOF)
				}
			}()
			for {
				t, err := p.Read()
				if err != nil {
					p.Fatal(ctx, err)
				}
				err = evaluator.Eval(&p, ctx, t)
				if err != nil {
					p.Fatal(ctx, err)
				}
				if t != nil {
					continue
				}
				break
			}
		}()
		if round == "check" {
			for _, e := range p.Errors {
				diags = append(diags, e.Error())
			}
		}
	}
	return diags
}

// analyze <program text with \n escaped>
// answer: number of Builtin-frame entries that existed when the process started and whose rendering changed or that
// disappeared, then up to three of them (key => before => after); the comparison is against the process's first snapshot,
// so a corruption stays visible in every later answer
func opAnalyze(args string) string {
	if builtinBaseline == nil {
		builtinBaseline = base.VerifBuiltinSnapshot()
	}
	diags := analyzeText(unescapeText(args))
	after := base.VerifBuiltinSnapshot()
	var changed []string
	for k, v := range builtinBaseline {
		if a, ok := after[k]; !ok {
			changed = append(changed, k+" => "+v+" => <deleted>")
		} else if a != v {
			changed = append(changed, k+" => "+v+" => "+a)
		}
	}
	sort.Strings(changed)
	n := len(changed)
	if n > 3 {
		changed = changed[:3]
	}
	return fmt.Sprintf("changed=%d diags=%d %s", n, len(diags), strings.Join(changed, " ;; "))
}

func init() {
	ops["analyze"] = opAnalyze
}

package main

import (
	"fmt"
	"strings"

	"ti/base"
	_ "ti/builtin"
	"ti/lexer"
	"ti/lexer/reader"
	"ti/parser"
)

func tokOut(b *strings.Builder, p *parser.Parser, t *base.T, err error) {
	if err != nil {
		b.WriteString("X;")
		return
	}
	if t == nil {
		fmt.Fprintf(b, "E,%d,%d;", p.Row, p.ErrorRow)
		return
	}
	sp := 0
	if t.IsBeforeSpace {
		sp = 1
	}
	name := ""
	switch t.GetType() {
	case base.UNKNOWN, base.CLASS, base.CONST, base.SYMBOL, base.STRING:
		name = runesCSV([]rune(t.ToString()))
	}
	fmt.Fprintf(b, "%d,%d,%d,%d,%s;", t.GetType(), sp, p.Row, p.ErrorRow, strings.ReplaceAll(name, ",", "."))
}

// tok <builtin classes (ignored here)> | <runes> | <calls R U S A>
func opTok(args string) string {
	parts := strings.Split(args, "|")
	if len(parts) != 3 {
		return "BAD-ARGS"
	}
	p := parser.New(lexer.New(reader.VerifNew(parseRunes(parts[1]))), "f.rb")
	var b strings.Builder
	for _, c := range strings.Fields(parts[2]) {
		switch c {
		case "R":
			t, err := p.Read()
			tokOut(&b, &p, t, err)
		case "A":
			t, err := p.ReadAhead()
			tokOut(&b, &p, t, err)
		case "U":
			p.Unget()
		case "S":
			p.Skip()
		}
	}
	return b.String()
}

func opBuiltinClasses(args string) string {
	return strings.Join(base.BuiltinClasses, ",")
}

func init() {
	ops["tok"] = opTok
	ops["bclasses"] = opBuiltinClasses
}

// namepred <builtin classes (ignored here)> | <runes>  -> the name predicates of base/t_predicate.go on an identifier token
func opNamePred(args string) string {
	parts := strings.Split(args, "|")
	if len(parts) != 2 {
		return "BAD-ARGS"
	}
	t := base.MakeIdentifier(string(parseRunes(parts[1])))
	return b01(t.IsVariableIdentifier()) + b01(t.IsClassIdentifier()) + b01(t.IsConstIdentifier()) + b01(t.IsSymbolIdentifier())
}

func init() {
	ops["namepred"] = opNamePred
}

package main

import (
	"fmt"
	"strconv"
	"strings"

	"ti/base"
)

func renderSigs(sigs []base.Sig) string {
	parts := make([]string, len(sigs))
	for i, s := range sigs {
		st := "0"
		if s.IsStatic {
			st = "1"
		}
		parts[i] = strings.Join([]string{s.Method, s.Detail, s.Frame, s.Class, st, s.FileName, strconv.Itoa(s.Row)}, "~")
	}
	return strings.Join(parts, " ;; ")
}

// sortsig <fn> | method~detail~frame~class~static~file~row ;; ...
func opSortSig(args string) string {
	fn, rest, _ := strings.Cut(args, " | ")
	for k := range base.TSignatures {
		delete(base.TSignatures, k)
	}
	if strings.TrimSpace(rest) != "" {
		for i, s := range strings.Split(rest, " ;; ") {
			f := strings.Split(s, "~")
			row, _ := strconv.Atoi(f[6])
			base.TSignatures[fmt.Sprintf("k%d", i)] = base.Sig{Method: f[0], Detail: f[1], Frame: f[2], Class: f[3], IsStatic: f[4] == "1", FileName: f[5], Row: row}
		}
	}
	first := ""
	for i := 0; i < 4; i++ {
		var out []base.Sig
		if fn == "GetSortedTSignatures" {
			out = base.GetSortedTSignatures()
		} else {
			out = base.GetSortedTSignaturesByClass()
		}
		r := renderSigs(out)
		if i == 0 {
			first = r
		} else if r != first {
			return "NONDET " + first + " <> " + r
		}
	}
	return first
}

func init() {
	ops["sortsig"] = opSortSig
}

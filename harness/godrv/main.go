// godrv: in-process driver over the real ruby-ti packages (built with -tags verif from
// /repo's working tree). Reads one op per line on stdin, answers one line per op.
// A panic inside an op is answered as "PANIC <msg>"; an op that exceeds its deadline is
// answered as "HANG" and the process exits with status 3 (the orchestrator restarts after it).
package main

import (
	"bufio"
	"fmt"
	"os"
	"strconv"
	"strings"
	"time"
)

type opFunc func(args string) string

var ops = map[string]opFunc{}

func runOp(f opFunc, args string) (res string) {
	defer func() {
		if r := recover(); r != nil {
			res = fmt.Sprintf("PANIC %v", r)
			res = strings.ReplaceAll(res, "\n", " ")
		}
	}()
	return f(args)
}

func main() {
	in := bufio.NewReaderSize(os.Stdin, 1<<20)
	out := bufio.NewWriterSize(os.Stdout, 1<<16)
	defer out.Flush()
	deadline := 1500 * time.Millisecond
	if ms, err := strconv.Atoi(os.Getenv("GODRV_DEADLINE_MS")); err == nil && ms > 0 {
		deadline = time.Duration(ms) * time.Millisecond
	}
	for {
		line, err := in.ReadString('\n')
		if len(line) == 0 && err != nil {
			break
		}
		line = strings.TrimRight(line, "\n")
		if line == "" {
			fmt.Fprintln(out, "")
			continue
		}
		name, args, _ := strings.Cut(line, " ")
		f, ok := ops[name]
		if !ok {
			fmt.Fprintln(out, "BAD-OP "+name)
			out.Flush()
			continue
		}
		ch := make(chan string, 1)
		go func() { ch <- runOp(f, args) }()
		select {
		case r := <-ch:
			fmt.Fprintln(out, r)
		case <-time.After(deadline):
			fmt.Fprintln(out, "HANG")
			out.Flush()
			os.Exit(3)
		}
		out.Flush()
	}
}

package main

import (
	"strings"

	"ti/base"
	"ti/eval/method_evaluator"
)

// prio k:<key> p:<name> ... -> the prioritized order
func opPrio(args string) string {
	var ts []*base.T
	for _, f := range strings.Fields(args) {
		kind, name, _ := strings.Cut(f, ":")
		if kind == "k" {
			ts = append(ts, base.MakeKeyValue(name+":", base.MakeString(name)))
		} else {
			ts = append(ts, base.MakeString(name))
		}
	}
	out := method_evaluator.VerifPrioritizeArgTs(ts)
	parts := make([]string, len(out))
	for i, t := range out {
		if t.IsKeyValueType() {
			parts[i] = "k:" + strings.TrimSuffix(t.GetKey(), ":")
		} else {
			parts[i] = "p:" + t.ToString()
		}
	}
	// the model is a pure function: the result must not share storage with the caller's slice
	// (the binder unwraps keyword arguments in place in what prioritizeArgTs returned)
	alias := " | fresh"
	if len(out) > 0 && len(ts) > 0 && &out[0] == &ts[0] {
		alias = " | ALIASES-THE-CALLERS-SLICE"
	}
	return strings.Join(parts, " ") + alias
}

// pdef name name: ... -> prioritizeDefineArgNames
func opPDef(args string) string {
	return strings.Join(method_evaluator.VerifPrioritizeDefineArgNames(strings.Fields(args)), " ")
}

func init() {
	ops["prio"] = opPrio
	ops["pdef"] = opPDef
}

package main

import (
	"sort"
	"strconv"
	"strings"

	"ti/base"
	"ti/eval"
	me "ti/eval/method_evaluator"
)

// narrow <if|unless> | x=<T>;y=<T> | c x Integer 0 0;e;s;...
// steps: c <var> <class> <isExclamation> <skipNarrow> = one tested atom; e = else; s = elsif
// answer: after each step the rendered types of all variables, steps separated by " / "
func opNarrow(args string) string {
	parts := strings.Split(args, " | ")
	var names []string
	for _, d := range strings.Split(parts[1], ";") {
		name, rec, _ := strings.Cut(strings.TrimSpace(d), "=")
		names = append(names, name)
		base.SetValueT("", "", "", name, nestedT(rec), false)
	}
	sort.Strings(names)
	v := eval.VerifNewNarrow(strings.TrimSpace(parts[0]))
	var out []string
	for _, st := range strings.Split(parts[2], ";") {
		f := strings.Fields(st)
		if len(f) == 0 {
			continue
		}
		switch f[0] {
		case "c":
			if err := v.Cond(f[2], f[1], f[3] == "1", f[4] == "1"); err != nil {
				out = append(out, "ERR")
				continue
			}
		case "e":
			v.Else()
		case "s":
			v.Elsif()
		}
		var vs []string
		for _, n := range names {
			vs = append(vs, n+"="+base.TypeToString(base.GetValueT("", "", "", n, false)))
		}
		out = append(out, strings.Join(vs, ","))
	}
	return strings.Join(out, " / ")
}

func init() {
	ops["narrow"] = opNarrow
}

var propSeq int

// prop <init> | round:T ; round:T ; ...     init = "-" (no slot), "V:<T>" (a value), "D:<T>" (a value with a default, `def m(p = lit)`)
// answer per step: <returned><hasDefault><inferred>:<round tag>:<rendered slot>
func opProp(args string) string {
	parts := strings.Split(args, " | ")
	propSeq++
	cls, method, param := "", "pm"+strconv.Itoa(propSeq), "p"
	init := strings.TrimSpace(parts[0])
	if init != "-" {
		t := nestedT(init[2:])
		if init[0] == 'D' {
			t.SetHasDefault(true)
		}
		base.SetValueT("", cls, method, param, t, false)
	}
	var out []string
	for _, st := range strings.Split(parts[1], ";") {
		st = strings.TrimSpace(st)
		if st == "" {
			continue
		}
		round, rec, _ := strings.Cut(st, ":")
		ret := me.VerifPropagate(round, cls, method, param, nestedT(rec))
		slot := base.GetValueT("", cls, method, param, false)
		if slot == nil {
			out = append(out, b01(ret)+"--::nil")
			continue
		}
		out = append(out, b01(ret)+b01(slot.HasDefault())+b01(slot.IsInfferedFromCall())+":"+slot.Round+":"+base.TypeToString(slot))
	}
	return strings.Join(out, " / ")
}

func init() {
	ops["prop"] = opProp
}

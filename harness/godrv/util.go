package main

import (
	"strconv"
	"strings"
)

func parseRunes(s string) []rune {
	var out []rune
	for _, f := range strings.Fields(s) {
		n, err := strconv.Atoi(f)
		if err != nil {
			panic("bad rune " + f)
		}
		out = append(out, rune(n))
	}
	return out
}

func runesCSV(rs []rune) string {
	parts := make([]string, len(rs))
	for i, r := range rs {
		parts[i] = strconv.Itoa(int(r))
	}
	return strings.Join(parts, ",")
}

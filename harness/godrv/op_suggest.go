package main

import (
	"fmt"
	"strconv"
	"strings"

	"ti/base"
	"ti/cmd"
	"ti/eval/method_evaluator"
)

func b01(b bool) string {
	if b {
		return "1"
	}
	return "0"
}

func typeTag(t int) string {
	switch t {
	case base.SELF:
		return "SELF"
	case base.INT:
		return "INT"
	case base.FLOAT:
		return "FLOAT"
	case base.ARRAY:
		return "ARRAY"
	case base.HASH:
		return "HASH"
	case base.STRING:
		return "STRING"
	case base.OBJECT:
		return "OBJECT"
	case base.UNKNOWN:
		return "UNKNOWN"
	}
	return "OTHER"
}

func makeRecipeT(f []string) *base.T {
	var t *base.T
	switch f[0] {
	case "obj":
		t = base.MakeObject(f[1])
	case "ident":
		t = base.MakeIdentifier(f[1])
	case "cls":
		t = base.MakeClass(f[1])
	case "const":
		t = base.MakeConst(f[1])
	case "self":
		t = base.MakeSelf()
	case "int":
		t = base.MakeInt(1)
	case "str":
		t = base.MakeString("s")
	case "arr":
		t = base.MakeAnyArray()
	case "hash":
		t = base.MakeAnyHash()
	case "nil":
		t = base.MakeNil()
	case "unknown":
		t = base.MakeUnknown()
	default:
		panic("bad kind " + f[0])
	}
	t.SetBeforeEvaluateCode(f[2])
	t.DefinedFrame = f[3]
	t.DefinedClass = f[4]
	t.DefinedMethod = f[5]
	t.IsStatic = f[6] == "1"
	t.SetFrame(f[7])
	return t
}

// suggest <edges> | kind~name~before~dframe~dclass~dmethod~static~frame | frame~cls~method~static~private
// edges: cf~cc~pf~pc~inc~ext;...
// answer: <isClassType>~<toString>~<typeTag>~<objectClass>~<frame>~<before> | <oc>~<st> | <kernelRule><isSuggest>
func opSuggest(args string) string {
	parts := strings.Split(args, " | ")
	for k := range base.ClassInheritanceMap {
		delete(base.ClassInheritanceMap, k)
	}
	if strings.TrimSpace(parts[0]) != "" {
		for _, e := range strings.Split(strings.TrimSpace(parts[0]), ";") {
			f := strings.Split(e, "~")
			child := base.ClassNode{Frame: f[0], Class: f[1]}
			parent := base.ClassNode{Frame: f[2], Class: f[3], IsInclude: f[4] == "1", IsExtend: f[5] == "1"}
			base.ClassInheritanceMap[child] = append(base.ClassInheritanceMap[child], parent)
		}
	}
	t := makeRecipeT(strings.Split(parts[1], "~"))
	sf := strings.Split(parts[2], "~")
	sig := base.Sig{Frame: sf[0], Class: sf[1], Method: sf[2], IsStatic: sf[3] == "1", IsPrivate: sf[4] == "1"}
	acc := strings.Join([]string{b01(t.IsClassType()), t.ToString(), typeTag(t.GetType()), t.GetObjectClass(), t.GetFrame(), t.GetBeforeEvaluateCode()}, "~")
	oc, st := cmd.VerifObjectClassAndIsStatic(*t)
	k := cmd.VerifIsSuggestForKernelOrObjectClass(*t, sig.Class)
	s := cmd.VerifIsSuggest(*t, sig)
	return acc + " | " + oc + "~" + b01(st) + " | " + b01(k) + b01(s)
}

func init() {
	ops["suggest"] = opSuggest
}

// findns <frame> <cls> | frame~cls;frame~cls...   -> base.FindDefinedClassFrame with that DefinedClassTable
func opFindNS(args string) string {
	head, tbl, _ := strings.Cut(args, " | ")
	hf := strings.Split(head, " ")
	for k := range base.DefinedClassTable {
		delete(base.DefinedClassTable, k)
	}
	for _, e := range strings.Split(strings.TrimSpace(tbl), ";") {
		if e == "" {
			continue
		}
		f := strings.Split(e, "~")
		base.SetDefinedClass(dash(f[0]), f[1])
	}
	frame := hf[0]
	if frame == "-" {
		frame = ""
	}
	lf, found := base.LookupDefinedClassFrame(frame, hf[1])
	return "[" + base.FindDefinedClassFrame(frame, hf[1]) + "] [" + lf + "] " + b01(found)
}

func init() {
	ops["findns"] = opFindNS
}

func dash(s string) string {
	if s == "-" {
		return ""
	}
	return s
}

// lookup <i|c> <frame> <cls> <method> <priv> | frame~cls~method~priv~static;... | cf~cc~pf~pc~inc~ext;... | a,b,c
// -> the index of the definition base.GetMethodT / base.GetClassMethodT resolves ("none" when nothing)
func opLookup(args string) string {
	parts := strings.Split(args, " | ")
	q := strings.Split(parts[0], " ")
	for k := range base.TFrame {
		delete(base.TFrame, k)
	}
	for k := range base.ClassInheritanceMap {
		delete(base.ClassInheritanceMap, k)
	}
	base.BuiltinClasses = nil
	for _, c := range strings.Split(strings.TrimSpace(parts[3]), ",") {
		if c != "" {
			base.BuiltinClasses = append(base.BuiltinClasses, c)
		}
	}
	// classes the program defined at top level itself
	for k := range base.DefinedClassTable {
		delete(base.DefinedClassTable, k)
	}
	if len(parts) > 4 {
		for _, c := range strings.Split(strings.TrimSpace(parts[4]), ",") {
			if c != "" {
				base.SetDefinedClass("", c)
			}
		}
	}
	for i, e := range strings.Split(strings.TrimSpace(parts[1]), ";") {
		if e == "" {
			continue
		}
		f := strings.Split(e, "~")
		mt := base.MakeMethod(dash(f[0]), f[2], *base.MakeObject("R" + strconv.Itoa(i)), nil)
		if f[4] == "1" {
			base.SetClassMethodT(dash(f[0]), dash(f[1]), mt, f[3] == "1", "f", 0)
		} else {
			base.SetMethodT(dash(f[0]), dash(f[1]), mt, f[3] == "1", "f", 0)
		}
	}
	for _, e := range strings.Split(strings.TrimSpace(parts[2]), ";") {
		if e == "" {
			continue
		}
		f := strings.Split(e, "~")
		child := base.ClassNode{Frame: dash(f[0]), Class: dash(f[1])}
		parent := base.ClassNode{Frame: dash(f[2]), Class: dash(f[3]), IsInclude: f[4] == "1", IsExtend: f[5] == "1"}
		base.ClassInheritanceMap[child] = append(base.ClassInheritanceMap[child], parent)
	}
	var r *base.T
	if q[0] == "c" {
		r = base.GetClassMethodT(dash(q[1]), dash(q[2]), q[3], q[4] == "1")
	} else {
		r = base.GetMethodT(dash(q[1]), dash(q[2]), q[3], q[4] == "1")
	}
	if r == nil {
		return "none"
	}
	return r.GetObjectClass()
}

// addparent <node> <node> ...   node = frame~class~include~extend ("-" = empty; OBJ = the implicit Object ancestor)
// registers the nodes in order for a fresh class through base.AddParentNode (OBJ is appended the way the class
// evaluator and the loader register it) and prints the resulting ancestor list
func opAddParent(args string) string {
	child := base.ClassNode{Frame: "T", Class: "Child"}
	delete(base.ClassInheritanceMap, child)
	for _, f := range strings.Fields(args) {
		if f == "OBJ" {
			base.ClassInheritanceMap[child] = append(base.ClassInheritanceMap[child], base.ClassNode{Frame: "Builtin", Class: ""})
			continue
		}
		x := strings.Split(f, "~")
		base.AddParentNode(child, base.ClassNode{Frame: dash(x[0]), Class: dash(x[1]), IsInclude: x[2] == "1", IsExtend: x[3] == "1"})
	}
	var out []string
	for _, n := range base.ClassInheritanceMap[child] {
		out = append(out, fmt.Sprintf("%s~%s~%s~%s", undash(n.Frame), undash(n.Class), b01(n.IsInclude), b01(n.IsExtend)))
	}
	return strings.Join(out, " ")
}

func undash(s string) string {
	if s == "" {
		return "-"
	}
	return s
}

// ancestor <caller node> <defined node> | edges        node = frame~class~include~extend, edge = cf~cc~pf~pc~inc~ext
// the protected-method check: caller == defined, or defined among the caller's ancestors (isAncestorNode)
func opAncestor(args string) string {
	parts := strings.Split(args, " | ")
	q := strings.Fields(parts[0])
	node := func(f string) base.ClassNode {
		x := strings.Split(f, "~")
		return base.ClassNode{Frame: dash(x[0]), Class: dash(x[1]), IsInclude: x[2] == "1", IsExtend: x[3] == "1"}
	}
	for k := range base.ClassInheritanceMap {
		delete(base.ClassInheritanceMap, k)
	}
	if len(parts) > 1 {
		for _, e := range strings.Split(strings.TrimSpace(parts[1]), ";") {
			if e == "" {
				continue
			}
			f := strings.Split(e, "~")
			child := base.ClassNode{Frame: dash(f[0]), Class: dash(f[1])}
			parent := base.ClassNode{Frame: dash(f[2]), Class: dash(f[3]), IsInclude: f[4] == "1", IsExtend: f[5] == "1"}
			base.ClassInheritanceMap[child] = append(base.ClassInheritanceMap[child], parent)
		}
	}
	caller, defined := node(q[0]), node(q[1])
	return b01(caller == defined || method_evaluator.VerifIsAncestorNode(caller, defined))
}

func init() {
	ops["lookup"] = opLookup
	ops["addparent"] = opAddParent
	ops["ancestor"] = opAncestor
}

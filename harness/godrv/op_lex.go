package main

import (
	"fmt"
	"strings"

	"ti/lexer"
	"ti/lexer/reader"
)

func valKind(v any) (string, []rune) {
	switch x := v.(type) {
	case nil:
		return "n", nil
	case int64:
		return "i", nil
	case float64:
		return "f", nil
	case string:
		return "s", []rune(x)
	case lexer.Identifier:
		return "d", []rune(x.GetName())
	}
	return "?", nil
}

// lex <runes>: Advance until it answers false; IsSpace is reset after every token as
// parser.Read does.
func opLex(args string) string {
	runes := parseRunes(args)
	l := lexer.New(reader.VerifNew(runes))
	var b strings.Builder
	limit := len(runes) + 8
	n := 0
	for l.Advance() {
		n++
		if n > limit {
			return "TOO-MANY-TOKENS"
		}
		k, rs := valKind(l.Value())
		sp := 0
		if l.IsSpace {
			sp = 1
		}
		fmt.Fprintf(&b, "T %d %s %d %d %s;", l.Token(), k, sp, len(l.VerifReader().VerifPending()), runesCSV(rs))
		l.IsSpace = false
	}
	fmt.Fprintf(&b, "E %d", len(l.VerifReader().VerifPending()))
	return b.String()
}

// reader <total runes> | <ops: r u a<rune>>: drives the concrete LexerReader.
func opReader(args string) string {
	left, right, _ := strings.Cut(args, "|")
	lr := reader.VerifNew(parseRunes(left))
	var b strings.Builder
	for _, op := range strings.Fields(right) {
		switch op[0] {
		case 'r':
			fmt.Fprintf(&b, "%d ", lr.Read())
		case 'u':
			lr.Unread()
		case 'a':
			rs := parseRunes(op[1:])
			lr.AppendHistory(rs[0])
		}
	}
	pos, total, flg, ch, hist := lr.VerifState()
	f := 0
	if flg {
		f = 1
	}
	fmt.Fprintf(&b, "| %d %d %d %d %s | %s", pos, total, f, ch, runesCSV(hist), runesCSV(lr.VerifPending()))
	return b.String()
}

func init() {
	ops["lex"] = opLex
	ops["reader"] = opReader
}

import RubyTi.Basic

import RubyTi.Model.Reader
import RubyTi.Model.Lexer
import RubyTi.Model.Token
import RubyTi.Model.Config
import RubyTi.Model.Args
import RubyTi.Model.Sig
import RubyTi.Model.Rbs
import RubyTi.Model.C2json
import RubyTi.Model.Suggest
import RubyTi.Model.Inherit
import RubyTi.Model.Namespace
import RubyTi.Model.Match
import RubyTi.Model.Unify
import RubyTi.Model.Ret
import RubyTi.Model.Narrow
import RubyTi.Model.Propagate
import RubyTi.Model.Bind

/-! Line-protocol driver over the executable model definitions (core-only, built as `lean_exe`).
One op per input line, one answer line per op; the answer format is the one
/verif/harness/godrv prints for the real implementation. -/
open RubyTi

def parseNats (s : String) : List Nat := (s.splitOn " ").filterMap String.toNat?

def csv (l : List Nat) : String := ",".intercalate (l.map toString)

def valStr : Lexer.Val → String × List Nat
  | .none => ("n", [])
  | .int => ("i", [])
  | .float => ("f", [])
  | .str s => ("s", s)
  | .ident s => ("d", s)

def lexLoop : Nat → Lexer.LState → String → String
  | 0, _, _ => "TOO-MANY-TOKENS"
  | fuel + 1, st, acc =>
    match Lexer.advance st with
    | (false, st') => acc ++ s!"E {st'.pending.length}"
    | (true, st') =>
      let (k, rs) := valStr st'.val
      let sp := if st'.isSpace then 1 else 0
      lexLoop fuel { st' with isSpace := false }
        (acc ++ s!"T {st'.tok} {k} {sp} {st'.pending.length} {csv rs};")

def opLex (args : String) : String :=
  let runes := parseNats args
  -- the reader never delivers a NUL that is followed by more input
  let st : Lexer.LState := { pending := Reader.nz runes }
  lexLoop (runes.length + 9) st ""

def opReader (args : String) : String :=
  match args.splitOn "|" with
  | [left, right] =>
    let r0 := Reader.new (parseNats left)
    let (r, out) := (right.splitOn " ").foldl (fun (acc : Reader × String) op =>
      if op == "r" then let (c, r') := acc.1.read; (r', acc.2 ++ s!"{c} ")
      else if op == "u" then (acc.1.unread, acc.2)
      else if op.startsWith "a" then
        match (op.drop 1).toString.toNat? with
        | some c => (acc.1.appendHistory c, acc.2)
        | none => acc
      else acc) (r0, "")
    let f := if r.ungetFlg then 1 else 0
    out ++ s!"| {r.pos} {r.pos + r.rest.length} {f} {r.char} {csv r.history} | {csv r.pending}"
  | _ => "BAD-ARGS"

def tkTag : Token.TK → Nat × List Nat
  | .int => (257, [])
  | .float => (261, [])
  | .nil => (0, [])
  | .bool => (260, [])
  | .str s => (259, s)
  | .ident n => (258, n)
  | .cls n => (268, n)
  | .const n => (272, n)
  | .symbol n => (270, n)

def dots (l : List Nat) : String := ".".intercalate (l.map toString)

def tokOut (o : Token.ReadOut) (p : Token.PState) : String :=
  match o with
  | .readError => "X;"
  | .assertPanic => "ASSERT-PANIC;"
  | .eos => s!"E,{p.row},{p.errorRow};"
  | .tok k sp =>
    let (tag, n) := tkTag k
    s!"{tag},{if sp then 1 else 0},{p.row},{p.errorRow},{dots n};"

def strRunes (s : String) : List Nat := s.toList.map Char.toNat

def opTok (args : String) : String :=
  match args.splitOn "|" with
  | [bcs, runes, calls] =>
    let bc := ((bcs.splitOn ",").map (fun s => strRunes s.trimAscii.toString)).filter (· != [])
    let p0 : Token.PState := { lx := { pending := Reader.nz (parseNats runes) } }
    let step (acc : Option (Token.PState × String)) (c : String) : Option (Token.PState × String) :=
      match acc with
      | none => none
      | some (p, out) =>
        if c == "R" then
          match Token.read bc p with
          | none => none
          | some (o, p') => some (p', out ++ tokOut o p')
        else if c == "A" then
          match Token.readAhead bc p with
          | none => none
          | some (o, p') => some (p', out ++ tokOut o p')
        else if c == "U" then some (Token.unget p, out)
        else if c == "S" then
          match Token.skip p with
          | none => none
          | some p' => some (p', out)
        else some (p, out)
    match (calls.splitOn " ").foldl step (some (p0, "")) with
    | none => "PANIC unexpected end of input"
    | some (_, out) => out
  | _ => "BAD-ARGS"

def opNamePred (args : String) : String :=
  match args.splitOn "|" with
  | [bcs, runes] =>
    let bc := ((bcs.splitOn ",").map (fun s => strRunes s.trimAscii.toString)).filter (· != [])
    let n := parseNats runes
    let b (x : Bool) := if x then "1" else "0"
    b (Token.isVariableIdent n) ++ b (Token.isClassIdent bc n) ++ b (Token.isConstIdent bc n) ++ b (Token.isSymbolIdent n)
  | _ => "BAD-ARGS"

def parseSpec (spec : String) : Config.TypeSpecJ :=
  if spec == "-" then .absent
  else if spec.startsWith "s:" then .single (spec.drop 2).toString.toList
  else if spec == "a:" then .many []
  else if spec.startsWith "a:" then .many (((spec.drop 2).toString.splitOn ",").map String.toList)
  else .absent

def opPType (args : String) : String := (Config.parseTypeString args.toList).enc

def opPRet (args : String) : String :=
  let fl := ((args.splitOn " ").headD "").toList
  let spec := (args.drop (fl.length + 1)).toString
  let b (i : Nat) := fl.getD i '0' == '1'
  (Config.parseReturnType { type := parseSpec spec, isConditional := b 0, isDestructive := b 1, isCaptureOwner := b 2 }).enc

def opPArgs (args : String) : String :=
  if args.trimAscii.toString == "" then "" else
  let one (a : String) : Config.MethodArgument :=
    match a.splitOn "~" with
    | [spec, key, ast, dflt] => { type := parseSpec spec, key := key.toList, isAsterisk := ast == "1", isDefault := dflt == "1" }
    | _ => {}
  " | ".intercalate ((Config.parseArguments ((args.splitOn " ;; ").map one)).map T.enc)

def opBuiltin (args : String) : String := (Config.convertToBuiltinT args.toList).enc

def opPrio (args : String) : String :=
  let toks := (args.splitOn " ").filter (· != "")
  let as : List (Args.Arg String) := toks.map fun f =>
    if f.startsWith "k:" then ⟨some ((f.drop 2).toString.toList ++ [':']), (f.drop 2).toString⟩
    else ⟨none, (f.drop 2).toString⟩
  " ".intercalate ((Args.prioritize as).map fun a => (if a.key.isSome then "k:" else "p:") ++ a.val) ++ " | fresh"

def opPDef (args : String) : String :=
  let names := ((args.splitOn " ").filter (· != "")).map String.toList
  " ".intercalate ((Args.prioritizeDefineArgNames names).map String.ofList)

def opSortSig (args : String) : String :=
  match args.splitOn " | " with
  | [fn, rest] =>
    let sigs : List Sig.Sig := if rest.trimAscii.toString == "" then [] else (rest.splitOn " ;; ").map fun s =>
      match s.splitOn "~" with
      | [m, d, f, c, st, file, row] =>
        { method := m.toList, detail := d.toList, frame := f.toList, cls := c.toList, isStatic := st == "1",
          isPrivate := false, fileName := file.toList, row := row.toNat!, document := [] }
      | _ => { method := [], detail := [], frame := [], cls := [], isStatic := false, isPrivate := false, fileName := [], row := 0, document := [] }
    " ;; ".intercalate ((Sig.sortSigs fn sigs).map fun s =>
      "~".intercalate [String.ofList s.method, String.ofList s.detail, String.ofList s.frame, String.ofList s.cls,
        (if s.isStatic then "1" else "0"), String.ofList s.fileName, toString s.row])
  | _ => "BAD-ARGS"

def tyTag (s : String) : Suggest.TyTag :=
  if s == "SELF" then .self else if s == "INT" then .int else if s == "FLOAT" then .float
  else if s == "ARRAY" then .array else if s == "HASH" then .hash else if s == "STRING" then .string
  else if s == "OBJECT" then .object else if s == "UNKNOWN" then .unknown else .other

/-- suggest <edges> | <recipe> | <sig> | <accessors> | <builtin classes, comma separated> -/
def opSuggest (args : String) : String :=
  match args.splitOn " | " with
  | [edges, recipe, sg, acc, bcs] =>
    let es := (edges.trimAscii.toString.splitOn ";").filter (· != "")
    let g : Inherit.Inh := es.foldl (fun g e =>
      match e.splitOn "~" with
      | [cf, cc, pf, pc, inc, ext] =>
        let k := (cf.toList, cc.toList)
        let node : Inherit.Node := { frame := pf.toList, cls := pc.toList, isInclude := inc == "1", isExtend := ext == "1" }
        Frame.insert g k ((Frame.lookup g k).getD [] ++ [node])
      | _ => g) []
    let bc := (bcs.splitOn ",").map String.toList
    match recipe.splitOn "~", sg.splitOn "~", acc.splitOn "~" with
    | [_, _, _, dframe, dclass, dmethod, st, _], [sf, sc, sm, sst, spriv], [ict, str, ty, oc, fr, before] =>
      let v : Suggest.TView := { isClassType := ict == "1", str := str.toList, ty := tyTag ty, objectClass := oc.toList, frame := fr.toList, before := before.toList, definedFrame := dframe.toList, definedClass := dclass.toList, definedMethod := dmethod.toList, isStatic := st == "1" }
      let sig : Sig.Sig := { method := sm.toList, detail := [], frame := sf.toList, cls := sc.toList, isStatic := sst == "1", isPrivate := spriv == "1", fileName := [], row := 0, document := [] }
      let r := Suggest.calcObjectClass v
      let fuel := 4 * (es.length + 2) + 4
      let b (x : Bool) := if x then "1" else "0"
      String.ofList r.1 ++ "~" ++ b r.2 ++ " | " ++ b (Suggest.kernelRule v sig.cls) ++ b (Suggest.isSuggest fuel g bc v.target sig)
    | _, _, _ => "BAD-ARGS"
  | _ => "BAD-ARGS"

def nsSegs (frame : String) : List Str :=
  if frame == "" || frame == "-" then [] else (Config.splitNS frame.toList).reverse

/-- findns <frame> <cls> | frame~cls;... -/
def opFindNS (args : String) : String :=
  match args.splitOn " | " with
  | [head, tbl] =>
    match head.splitOn " " with
    | [frame, cls] =>
      let t : Namespace.Defined := ((tbl.trimAscii.toString.splitOn ";").filter (· != "")).filterMap fun e =>
        match e.splitOn "~" with
        | [f, c] => some (nsSegs f, c.toList)
        | _ => none
      let r := Namespace.findDefined t cls.toList (nsSegs frame)
      let l := Namespace.lookupDefined t cls.toList (nsSegs frame)
      "[" ++ String.ofList (Config.joinNS r.reverse) ++ "] [" ++ String.ofList (Config.joinNS l.1.reverse) ++ "] " ++ (if l.2 then "1" else "0")
    | _ => "BAD-ARGS"
  | _ => "BAD-ARGS"

def atomT (s : String) : T :=
  if s == "I" then T.makeAnyInt else if s == "S" then T.makeAnyString else if s == "F" then T.makeAnyFloat
  else if s == "Y" then T.makeAnySymbol else if s == "B" then T.makeBool else if s == "N" then T.makeNil
  else if s == "A" then T.makeAnyArray else if s == "H" then T.makeAnyHash else if s == "U" then T.makeUntyped
  else if s == "K" then T.makeUnknown else if s == "L" then T.makeBlock else if s == "R" then T.makeRange
  else if s == "SELF" then T.makeSelf else if s == "UNIFY" then T.makeUnify else if s == "OPTU" then T.makeOptionalUnify
  else if s == "SELFARR" then T.makeSelfArray else if s == "ARG" then T.makeArgument else if s == "KVARR" then T.makeKeyValueArray
  else if s.startsWith "NS:" then T.makeIdentifier (s.drop 3).toString.toList
  else if s.startsWith "O:" then T.makeObject (s.drop 2).toString.toList
  else if s.startsWith "C:" then T.makeClass (s.drop 2).toString.toList
  else if s.startsWith "v<" then
    let inner := ((s.drop 2).toString.dropEnd 1).toString
    T.makeUnion (((inner.splitOn ";").filter (· != "")).map fun x =>
      if x == "I" then T.makeAnyInt else if x == "S" then T.makeAnyString else if x == "F" then T.makeAnyFloat
      else if x == "Y" then T.makeAnySymbol else if x == "N" then T.makeNil else if x == "U" then T.makeUntyped
      else if x.startsWith "O:" then T.makeObject (x.drop 2).toString.toList else T.makeBool)
  else T.makeNil

def recipeT (s : String) : T :=
  if s.startsWith "u[" then
    let inner := ((s.drop 2).toString.dropEnd 1).toString
    T.makeUnion (((inner.splitOn ",").filter (· != "")).map atomT)
  else atomT s

def opMatch (args : String) : String :=
  match args.splitOn " | " with
  | [ds, as] =>
    let d := recipeT ds.trimAscii.toString
    let a := recipeT as.trimAscii.toString
    let b (x : Bool) := if x then "1" else "0"
    b (Match.isMatchType d a) ++ b (Match.isMatchUnionType d a) ++ b (Match.checkArg d a)
  | _ => "BAD-ARGS"

partial def parseNested (toks : List String) : Option (T × List String) :=
  match toks with
  | [] => none
  | tok :: rest =>
    if tok == "A(" || tok == "U(" then
      let rec items (ts : List String) (acc : List T) : Option (List T × List String) :=
        match ts with
        | [] => none
        | ")" :: r => some (acc.reverse, r)
        | _ => match parseNested ts with
          | some (t, r) => items r (t :: acc)
          | none => none
      match items rest [] with
      | some (vs, r) => some (if tok == "A(" then T.makeArray vs else T.makeUnion vs, r)
      | none => none
    else if tok == "H(" then
      let rec kvs (ts : List String) (h : T) : Option (T × List String) :=
        match ts with
        | [] => none
        | ")" :: r => some (h, r)
        | k :: r => match parseNested r with
          | some (t, r2) => kvs r2 (Unify.appendHashVariant h (T.makeKeyValue ((k.dropEnd 1).toString.toList) t))
          | none => none
      kvs rest T.makeAnyHash
    else some (atomT tok, rest)

def nestedT (s : String) : T :=
  match parseNested ((s.splitOn " ").filter (· != "")) with
  | some (t, _) => t
  | none => T.makeNil

def FUEL : Nat := 40

def opAppendV (args : String) : String :=
  match args.splitOn " | " with
  | [ts, vs] =>
    let t := Unify.appendVariant FUEL (nestedT ts) (nestedT vs)
    T.enc t ++ " " ++ Unify.typeToString FUEL t
  | _ => "BAD-ARGS"

def opUnify (args : String) : String :=
  let u := Unify.unifyVariants FUEL (nestedT args)
  T.enc u ++ " " ++ Unify.typeToString FUEL u

def opRender (args : String) : String := Unify.typeToString FUEL (nestedT args)

def opRet (args : String) : String :=
  match args.splitOn " | " with
  | [ms, rs, as] =>
    let m := (nestedT ms).setMethod "Builtin".toList "m".toList []
    let recv := nestedT rs
    let argTs := ((as.splitOn ";").filter (fun a => a.trimAscii.toString != "")).map nestedT
    let r := Ret.calcExec FUEL m recv argTs
    T.enc r.1 ++ " " ++ Unify.typeToString FUEL r.1 ++ " | " ++ T.enc r.2
  | _ => "BAD-ARGS"

def dashS (s : String) : Str := if s == "-" then [] else s.toList

/-- lookup <i|c> <frame> <cls> <method> <priv> | methods | edges | builtin classes -/
def opLookup (args : String) : String :=
  match args.splitOn " | " with
  | [q, ms, es, bcs, tops] =>
    let keys : List Frame.FrameKey := ((ms.trimAscii.toString.splitOn ";").filter (· != "")).map fun e =>
      match e.splitOn "~" with
      | [f, c, m, p, st] =>
        if st == "1" then Frame.classMethodKey (dashS f) (dashS c) m.toList (p == "1")
        else Frame.methodKey (dashS f) (dashS c) m.toList (p == "1")
      | _ => Frame.methodKey [] [] [] false
    let tbl : Inherit.Methods := keys.foldl (fun t k => Frame.insert t k ()) []
    let g : Inherit.Inh := ((es.trimAscii.toString.splitOn ";").filter (· != "")).foldl (fun g e =>
      match e.splitOn "~" with
      | [cf, cc, pf, pc, inc, ext] =>
        let k := (dashS cf, dashS cc)
        let node : Inherit.Node := { frame := dashS pf, cls := dashS pc, isInclude := inc == "1", isExtend := ext == "1" }
        Frame.insert g k ((Frame.lookup g k).getD [] ++ [node])
      | _ => g) []
    -- `bc` of the model = configured short names that the program does not define at top level itself
    let top := ((tops.trimAscii.toString.splitOn ",").filter (· != "")).map String.toList
    let bc := (((bcs.trimAscii.toString.splitOn ",").filter (· != "")).map String.toList).filter fun c => !top.contains c
    match q.splitOn " " with
    | [kind, f, c, m, p] =>
      let fuel := 4 * (es.length + 4)
      let r := if kind == "c" then Inherit.getClassMethodT fuel tbl g bc (dashS f) (dashS c) m.toList (p == "1")
               else Inherit.getMethodT fuel tbl g bc (dashS f) (dashS c) m.toList (p == "1")
      match r with
      | none => "none"
      | some k => match keys.findIdx? (· == k) with
        | some i => "R" ++ toString i
        | none => "R?"
    | _ => "BAD-ARGS"
  | _ => "BAD-ARGS"

/-- addparent <node> ... : node = frame~class~include~extend, OBJ = the implicit Object ancestor (appended as the evaluator registers it) -/
def opAddParent (args : String) : String :=
  let toks := (args.splitOn " ").filter (· != "")
  let undash := fun (s : Str) => if s.isEmpty then "-" else String.ofList s
  let res : List Inherit.Node := toks.foldl (fun ps f =>
    if f == "OBJ" then ps ++ [Inherit.objectNode]
    else match f.splitOn "~" with
      | [fr, c, inc, ext] => Inherit.addParent ps { frame := dashS fr, cls := dashS c, isInclude := inc == "1", isExtend := ext == "1" }
      | _ => ps) []
  " ".intercalate (res.map fun n => undash n.frame ++ "~" ++ undash n.cls ++ "~" ++ (if n.isInclude then "1" else "0") ++ "~" ++ (if n.isExtend then "1" else "0"))

/-- ancestor <caller> <defined> | edges -/
def opAncestor (args : String) : String :=
  let parts := args.splitOn " | "
  let node := fun (f : String) => match f.splitOn "~" with
    | [fr, c, inc, ext] => ({ frame := dashS fr, cls := dashS c, isInclude := inc == "1", isExtend := ext == "1" } : Inherit.Node)
    | _ => {}
  let es := (parts.getD 1 "")
  let g : Inherit.Inh := ((es.trimAscii.toString.splitOn ";").filter (· != "")).foldl (fun g e =>
    match e.splitOn "~" with
    | [cf, cc, pf, pc, inc, ext] =>
      let k := (dashS cf, dashS cc)
      let n : Inherit.Node := { frame := dashS pf, cls := dashS pc, isInclude := inc == "1", isExtend := ext == "1" }
      Frame.insert g k ((Frame.lookup g k).getD [] ++ [n])
    | _ => g) []
  match (parts.getD 0 "").splitOn " " |>.filter (· != "") with
  | [a, b] => if Inherit.protectedOk (es.length + 4) g (node a) (node b) then "1" else "0"
  | _ => "BAD-ARGS"

def opNarrow (args : String) : String :=
  match args.splitOn " | " with
  | [kind, decls, steps] =>
    let vars0 : Narrow.Vars := ((decls.splitOn ";").filter (· != "")).foldl (fun vs d =>
      match d.trimAscii.toString.splitOn "=" with
      | name :: rest => Frame.insert vs name.toList (nestedT ("=".intercalate rest))
      | _ => vs) []
    let names := (vars0.map (·.1)).mergeSort (fun a b => String.ofList a ≤ String.ofList b)
    let render (vs : Narrow.Vars) : String :=
      ",".intercalate (names.map fun n => String.ofList n ++ "=" ++ Unify.typeToString FUEL ((Frame.lookup vs n).getD T.makeNil))
    let st0 : Narrow.St := { isIf := kind.trimAscii.toString == "if" }
    let r := ((steps.splitOn ";").filter (fun s => s.trimAscii.toString != "")).foldl (fun (acc : Narrow.St × Narrow.Vars × List String) step =>
      let (st, vs, out) := acc
      match (step.splitOn " ").filter (· != "") with
      | ["c", obj, cls, ex, sk] =>
        let (st', vs') := Narrow.cond st vs cls.toList obj.toList (ex == "1") (sk == "1")
        (st', vs', out ++ [render vs'])
      | ["e"] => let vs' := Narrow.elseStep st vs; (st, vs', out ++ [render vs'])
      | ["s"] => let (st', vs') := Narrow.elsifStep st vs; (st', vs', out ++ [render vs'])
      | _ => acc) (st0, vars0, [])
    " / ".intercalate r.2.2
  | _ => "BAD-ARGS"

def opProp (args : String) : String :=
  match args.splitOn " | " with
  | [init, steps] =>
    let i := init.trimAscii.toString
    let slot0 : Option Propagate.Slot :=
      if i == "-" then none
      else
        let t := nestedT (i.drop 2).toString
        some { t := if i.startsWith "D" then t.setFl (fun f => { f with hasDefault := true }) else t, round := [] }
    let b (x : Bool) := if x then "1" else "0"
    let r := ((steps.splitOn ";").filter (fun s => s.trimAscii.toString != "")).foldl (fun (acc : Option Propagate.Slot × List String) st =>
      match st.trimAscii.toString.splitOn ":" with
      | round :: rest =>
        let (slot', ret) := Propagate.propagate round.toList acc.1 (nestedT (":".intercalate rest))
        let line := match slot' with
          | none => b ret ++ "--::nil"
          | some s => b ret ++ b s.t.fl.hasDefault ++ b s.t.fl.isInferredFromCall ++ ":" ++ String.ofList s.round ++ ":" ++ Unify.typeToString FUEL s.t
        (slot', acc.2 ++ [line])
      | _ => acc) (slot0, [])
    " / ".intercalate r.2
  | _ => "BAD-ARGS"

def bindTypeName (t : String) : String :=
  "|".intercalate ((t.splitOn "+").map fun x =>
    if x.startsWith "O:" then (x.drop 2).toString
    else if x == "I" then "Int" else if x == "S" then "String" else if x == "F" then "Float" else if x == "Y" then "Symbol"
    else if x == "N" then "NilClass" else if x == "U" then "Untyped" else if x == "B" then "Bool" else if x == "A" then "Array"
    else if x == "H" then "Hash" else x)

/-- parameter spec of one declaration → parameters in the order prioritizeDefineArgNames yields -/
def bindParams (pspec : String) : List Bind.Param :=
  let toks := ((pspec.replace "-" " ").splitOn " ").filter (· != "")
  let mk (tok : String) : Option (Bool × Bind.Param) :=      -- (is keyword, param)
    match tok.splitOn ":" with
    | "p" :: rest =>
      let t := ":".intercalate rest
      let d := t.endsWith "?"
      let t := if d then (t.dropEnd 1).toString else t
      some (false, { kind := .pos, t := Config.parseArgument { type := .single (bindTypeName t).toList, isDefault := d } })
    | "s" :: rest =>
      let t := ":".intercalate rest
      some (false, { kind := .star, t := Config.parseArgument { type := .single (bindTypeName t).toList, isAsterisk := true } })
    | "k" :: name :: rest =>
      let t := ":".intercalate rest
      let d := t.endsWith "?"
      let t := if d then (t.dropEnd 1).toString else t
      let kv := Config.parseArgument { type := .single (bindTypeName t).toList, key := (name ++ ":").toList, isDefault := d }
      some (true, { kind := .key, name := name.toList, t := Unify.keyValue kv })
    | _ => none
  let parsed := toks.filterMap mk
  let posPs := (parsed.filter (!·.1)).map (·.2)
  let keyPs := ((parsed.filter (·.1)).map (·.2)).mergeSort (fun a b => !Args.strLt b.name a.name)
  posPs ++ keyPs

/-- argument spec → arguments in the order prioritizeArgTs yields -/
def bindArgs (aspec : String) : List Bind.Arg :=
  let rawArgs := ((aspec.splitOn ";").map (·.trimAscii.toString)).filter (fun a => a != "" && a != "-")
  let isKwTok (a : String) : Option (String × String) :=
    match a.splitOn "=" with
    | name :: rest => if rest != [] && !(name.contains ' ') && !(name.contains '(') then some (name, "=".intercalate rest) else none
    | _ => none
  let posAs : List Bind.Arg := rawArgs.filterMap fun a => match isKwTok a with | some _ => none | none => some (Bind.Arg.pos (nestedT a))
  let kwAs := (rawArgs.filterMap fun a => match isKwTok a with | some (n, r) => some (n, nestedT r) | none => none)
  let kwSorted := kwAs.mergeSort (fun a b => !Args.strLt b.1.toList a.1.toList)
  posAs ++ kwSorted.map fun (n, t) => Bind.Arg.kw n.toList t

def bindResName : Bind.Res → String
  | .ok => "ok" | .tooFew => "tooFew" | .tooMany => "tooMany" | .mismatch => "mismatch" | .missingKey => "missingKey"
  | .extraArg => "extraArg" | .notDefined => "notDefined" | .kwExpected => "kwExpected"

/-- bind <params> | <args> | <untyped return 0/1> -/
def opBind (args : String) : String :=
  match args.splitOn " | " with
  | [pspec, aspec, untyped] =>
    let ps := bindParams pspec
    let as := bindArgs aspec
    bindResName (if untyped.trimAscii.toString == "1" then (RubyTi.Bind.loop as ps 0 false).1 else RubyTi.Bind.bind ps as)
  | _ => "BAD-ARGS"

/-- bindu <decl> ;; <decl> ... || <decl> ;; ... | <args> : a union receiver; each class with its declarations -/
def opBindU (args : String) : String :=
  match args.splitOn " | " with
  | [cspec, aspec] =>
    let classes := (cspec.splitOn " || ").map fun c => (c.splitOn " ;; ").map bindParams
    bindResName (RubyTi.Bind.bindUnion classes (bindArgs aspec))
  | _ => "BAD-ARGS"

def rbsParam (s : String) : Rbs.Param :=
  if s == "_" then none else some (((s.splitOn ",").filter (· != "")).map String.toList)

def rbsList (s : String) : List Rbs.Param := ((s.splitOn ";").filter (· != "")).map rbsParam

def rbsKw (s : String) : List (Str × Rbs.Param) :=
  ((s.splitOn ";").filter (· != "")).map fun e =>
    match e.splitOn ":" with
    | [n, t] => (n.toList, rbsParam t)
    | _ => ([], none)

/-- rbsargs R=..|O=..|S=..|T=..|RK=..|OK=.. -/
def opRbsArgs (args : String) : String :=
  let get (k : String) : String :=
    match ((args.splitOn "|").filter (·.startsWith (k ++ "="))).head? with
    | some f => (f.drop (k.length + 1)).toString
    | none => ""
  let rest : Option Rbs.Param := if get "S" == "-" || get "S" == "" then none else some (rbsParam (get "S"))
  let f : Rbs.FuncType := { required := rbsList (get "R"), optional := rbsList (get "O"), rest := rest,
                            trailing := rbsList (get "T"), requiredKw := rbsKw (get "RK"), optionalKw := rbsKw (get "OK") }
  " ; ".intercalate ((Rbs.convertArguments f).map fun a =>
    ",".intercalate (a.type.map String.ofList) ++ "~" ++ String.ofList a.key ++ "~" ++ (if a.isAsterisk then "1" else "0") ++ "~" ++ (if a.isDefault then "1" else "0"))

/-- c2jargs <req> <opt> <rest01> <post> <block01> <none01> <any01> | <format or -> -/
def opC2j (args : String) : String :=
  match args.splitOn " | " with
  | [specS, fmtS] =>
    match (specS.splitOn " ").filterMap String.toNat? with
    | [r, o, rs, p, b, n, a] =>
      let fmt : Option (List C2json.Fmt) :=
        if fmtS == "-" then none else some (fmtS.toList.map fun c =>
          if "ifszSAaHbnCo".toList.contains c then C2json.Fmt.val
          else if c == '|' then .bar else if c == '*' then .star else if c == '&' then .amp else .mod)
      let d : C2json.CDef := { spec := { req := r, opt := o, rest := rs == 1, post := p, block := b == 1, none := n == 1, any := a == 1 }, format := fmt }
      let inf := C2json.infer d
      let letters := String.ofList (inf.map fun t => match t with | .required => 'R' | .optional => 'O' | .rest => 'S' | .block => 'B')
      let acc := String.ofList ((List.range 7).map fun k => if C2json.tiAccepts inf k then '1' else '0')
      let cacc := String.ofList ((List.range 7).map fun k => if C2json.cAccepts d k then '1' else '0')
      letters ++ " " ++ acc ++ " " ++ cacc
    | _ => "BAD-ARGS"
  | _ => "BAD-ARGS"

def dispatch (line : String) : String :=
  if line.isEmpty then "" else
  let name := (line.splitOn " ").headD ""
  let args := (line.drop (name.length + 1)).toString
  if name == "lex" then opLex args
  else if name == "reader" then opReader args
  else if name == "tok" then opTok args
  else if name == "ptype" then opPType args
  else if name == "pret" then opPRet args
  else if name == "pargs" then opPArgs args
  else if name == "builtin" then opBuiltin args
  else if name == "prio" then opPrio args
  else if name == "sortsig" then opSortSig args
  else if name == "suggest" then opSuggest args
  else if name == "lookup" then opLookup args
  else if name == "addparent" then opAddParent args
  else if name == "ancestor" then opAncestor args
  else if name == "match" then opMatch args
  else if name == "bind" then opBind args
  else if name == "bindu" then opBindU args
  else if name == "prop" then opProp args
  else if name == "narrow" then opNarrow args
  else if name == "ret" then opRet args
  else if name == "appendv" then opAppendV args
  else if name == "unify" then opUnify args
  else if name == "render" then opRender args
  else if name == "namepred" then opNamePred args
  else if name == "findns" then opFindNS args
  else if name == "rbsargs" then opRbsArgs args
  else if name == "c2jargs" then opC2j args
  else if name == "pdef" then opPDef args
  else "BAD-OP " ++ name

partial def loop (h : IO.FS.Stream) (out : IO.FS.Stream) : IO Unit := do
  let line ← h.getLine
  if line.isEmpty then return ()
  let line := if line.endsWith "\n" then (line.dropEnd 1).toString else line
  out.putStrLn (dispatch line)
  loop h out

def main : IO Unit := do
  let out ← IO.getStdout
  loop (← IO.getStdin) out

import RubyTi.Model.Reader
import RubyTi.Model.Lexer

/-! Line-protocol driver over the executable model definitions (core-only, built as `lean_exe`).
One op per input line, one answer line per op; the answer format is the one
/verif/harness/godrv prints for the real implementation. -/
open RubyTi

def parseNats (s : String) : List Nat := (s.splitOn " ").filterMap String.toNat?

def csv (l : List Nat) : String := ",".intercalate (l.map toString)

def valStr : Lexer.Val → String × List Nat
  | .none => ("n", [])
  | .int => ("i", [])
  | .float => ("f", [])
  | .str s => ("s", s)
  | .ident s => ("d", s)

def lexLoop : Nat → Lexer.LState → String → String
  | 0, _, _ => "TOO-MANY-TOKENS"
  | fuel + 1, st, acc =>
    match Lexer.advance st with
    | (false, st') => acc ++ s!"E {st'.pending.length}"
    | (true, st') =>
      let (k, rs) := valStr st'.val
      let sp := if st'.isSpace then 1 else 0
      lexLoop fuel { st' with isSpace := false }
        (acc ++ s!"T {st'.tok} {k} {sp} {st'.pending.length} {csv rs};")

def opLex (args : String) : String :=
  let runes := parseNats args
  -- the reader never delivers a NUL that is followed by more input
  let st : Lexer.LState := { pending := Reader.nz runes }
  lexLoop (runes.length + 9) st ""

def opReader (args : String) : String :=
  match args.splitOn "|" with
  | [left, right] =>
    let r0 := Reader.new (parseNats left)
    let (r, out) := (right.splitOn " ").foldl (fun (acc : Reader × String) op =>
      if op == "r" then let (c, r') := acc.1.read; (r', acc.2 ++ s!"{c} ")
      else if op == "u" then (acc.1.unread, acc.2)
      else if op.startsWith "a" then
        match (op.drop 1).toString.toNat? with
        | some c => (acc.1.appendHistory c, acc.2)
        | none => acc
      else acc) (r0, "")
    let f := if r.ungetFlg then 1 else 0
    out ++ s!"| {r.pos} {r.pos + r.rest.length} {f} {r.char} {csv r.history} | {csv r.pending}"
  | _ => "BAD-ARGS"

def dispatch (line : String) : String :=
  if line.isEmpty then "" else
  let name := (line.splitOn " ").headD ""
  let args := (line.drop (name.length + 1)).toString
  if name == "lex" then opLex args
  else if name == "reader" then opReader args
  else "BAD-OP " ++ name

partial def loop (h : IO.FS.Stream) (out : IO.FS.Stream) : IO Unit := do
  let line ← h.getLine
  if line.isEmpty then return ()
  let line := if line.endsWith "\n" then (line.dropEnd 1).toString else line
  out.putStrLn (dispatch line)
  loop h out

def main : IO Unit := do
  let out ← IO.getStdout
  loop (← IO.getStdin) out

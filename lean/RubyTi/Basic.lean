import RubyTi.Gen.Tokens
import RubyTi.Gen.Lexer
import RubyTi.Gen.Unicode
import RubyTi.Gen.Power

/-! Basic vocabulary shared by all models: runes are code points (`Nat`), Go's `unicode`
predicates are evaluated on the range tables extracted from the toolchain that builds /repo. -/
namespace RubyTi

abbrev Rune := Nat

def inRanges (tbl : List (Nat × Nat × Nat)) (r : Nat) : Bool :=
  tbl.any fun e => e.1 ≤ r && r ≤ e.2.1 && (r - e.1) % e.2.2 == 0

def isSpace (r : Rune) : Bool := inRanges Gen.uniSpace r
def isDigit (r : Rune) : Bool := inRanges Gen.uniDigit r
def isUpper (r : Rune) : Bool := inRanges Gen.uniUpper r
def isLower (r : Rune) : Bool := inRanges Gen.uniLower r

/-- lexer/predicate.go:isIdentifierChar -/
def isIdentChar (c : Rune) : Bool := !(isSpace c || Gen.identStop.contains c)

def NL : Rune := 10

/-- first byte of the UTF-8 encoding of a rune (Go indexes strings by byte: `str[0]`). -/
def utf8Lead (r : Rune) : Nat :=
  if r < 0x80 then r
  else if r < 0x800 then 0xC0 + r / 64
  else if r < 0x10000 then 0xE0 + r / 4096
  else 0xF0 + r / 262144

/-- `sub` occurs as a contiguous sublist of `l` (strings.Contains on rune strings). -/
def containsSub (sub : List Rune) : List Rune → Bool
  | [] => sub.isEmpty
  | l@(_ :: cs) => sub.isPrefixOf l || containsSub sub cs


theorem dropWhile_length_le' {α} (p : α → Bool) (l : List α) : (l.dropWhile p).length ≤ l.length := by
  induction l with
  | nil => simp
  | cons a t ih => simp only [List.dropWhile]; split <;> simp <;> omega

end RubyTi

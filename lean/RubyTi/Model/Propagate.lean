import RubyTi.Model.Unify
import RubyTi.Model.Match

/-!
# Model of call-site propagation into a user method's parameter
(eval/method_evaluator/type_process.go: propagationForCalledTo, for methods defined in ruby source)

The parameter's slot is the `TFrame` value of the parameter variable: a `T` (with its
`hasDefault` / `isInferredFromCall` flags) and the `Round` tag, which the `T` model does not carry.
`propagate round slot arg` returns the new slot and what the Go function returns (`true` = the
argument is accepted without a type check).
-/
namespace RubyTi.Propagate
open RubyTi RubyTi.Unify Gen.Tok

structure Slot where
  t : T
  round : Str

def setInferred (t : T) : T := t.setFl fun f => { f with isInferredFromCall := true }

def propagate (round : Str) (slot : Option Slot) (arg : T) : Option Slot × Bool :=
  if arg.tag == UNKNOWN then (slot, false)
  else
    match slot with
    | none => (some { t := setInferred arg, round := round }, true)
    | some s =>
      let d := s.t
      if d.tag == UNKNOWN then (some { t := setInferred arg, round := round }, true)
      else if d.fl.isBuiltin then (slot, false)
      else if d.tag == UNION && d.fl.hasDefault then (some { s with t := appendVariant 40 d arg }, true)
      else if s.round != [] && s.round != round && d.tag == UNION && d.variants.length == 2 &&
              d.variants.any (fun v => v.tag == UNTYPED) && d.variants.any (fun v => Match.isMatchType v arg) then
        (some { t := setInferred arg, round := round }, false)
      else if d.tag == UNION && d.fl.isInferredFromCall then (some { s with t := appendVariant 40 d arg }, true)
      else if s.round != [] && s.round != round then (some { t := setInferred arg, round := round }, false)
      else if Match.isMatchType d arg then (slot, true)
      else if d.fl.hasDefault || d.fl.isInferredFromCall then
        let vs := (if d.tag == UNION then d.variants else [d]) ++ (if arg.tag == UNION then arg.variants else [arg])
        let u := (unifyVariants 40 (T.makeUnion vs)).setFl fun f =>
          { f with hasDefault := d.fl.hasDefault, isInferredFromCall := d.fl.isInferredFromCall }
        (some { t := u, round := round }, true)
      else (slot, false)

end RubyTi.Propagate

import RubyTi.Model.Frame

/-!
# Model of block scoping (eval/block.go, base/t_frame.go)

`DeepCopyTFrame` takes a *shallow* snapshot of the global map when a block is entered;
`RestoreFrame` deletes every key that is not in the snapshot when the block ends; then the saved
values of the block parameters that shadowed outer variables are written back
(`makeRestoreFunc`). `setBlockParameters` binds the i-th block variable to the i-th resolved block
parameter type and surplus variables to nil. Inside the block the evaluator performs arbitrary
`SetValueT` writes, modelled as an arbitrary list of writes.
-/
namespace RubyTi.Scope
open RubyTi RubyTi.Frame

variable {κ ν : Type} [DecidableEq κ]

def hasKey (t : Table κ ν) (k : κ) : Bool := (lookup t k).isSome

/-- base.RestoreFrame(current, snapshot): delete the keys the snapshot does not have -/
def restoreFrame (cur snap : Table κ ν) : Table κ ν := cur.filter (fun e => hasKey snap e.1)

def writes (t : Table κ ν) (ws : List (κ × ν)) : Table κ ν := ws.foldl (fun acc w => insert acc w.1 w.2) t

/-- block exit: RestoreFrame, then write the shadowed outer values back -/
def blockExit (cur snap : Table κ ν) (restore : List (κ × ν)) : Table κ ν :=
  writes (restoreFrame cur snap) restore

/-- setBlockParameters: variable i gets parameter type i, surplus variables get `nilT` -/
def bindParams (t : Table κ ν) (vars : List κ) (params : List ν) (nilT : ν) : Table κ ν :=
  match vars, params with
  | [], _ => t
  | v :: vs, [] => bindParams (insert t v nilT) vs [] nilT
  | v :: vs, p :: ps => bindParams (insert t v p) vs ps nilT

/-- The loop of setBlockParameters as the extractor reads it (Gen/BlockFacts.lean): `sNil`/`bIdx` say what the
surplus / other branch binds, `sOn`/`bOn` whether the loop reaches the next variable afterwards
(`false` = `break` or `return`). When `guard` is false the loop never takes the surplus branch. -/
def bindParamsG (guard sNil sOn bIdx bOn : Bool) (t : Table κ ν) (vars : List κ) (params : List ν) (nilT : ν) : Table κ ν :=
  match vars, params with
  | [], _ => t
  | v :: vs, [] =>
    if guard then
      let t' := if sNil then insert t v nilT else t
      if sOn then bindParamsG guard sNil sOn bIdx bOn t' vs [] nilT else t'
    else t
  | v :: vs, p :: ps =>
    let t' := if bIdx then insert t v p else t
    if bOn then bindParamsG guard sNil sOn bIdx bOn t' vs ps nilT else t'

theorem bindParamsG_all (t : Table κ ν) (vars : List κ) (params : List ν) (nilT : ν) :
    bindParamsG true true true true true t vars params nilT = bindParams t vars params nilT := by
  induction vars generalizing t params with
  | nil => cases params <;> simp [bindParamsG, bindParams]
  | cons v vs ih => cases params <;> simp [bindParamsG, bindParams, ih]

theorem lookup_filter_key (t : Table κ ν) (p : κ → Bool) (k : κ) :
    lookup (t.filter (fun e => p e.1)) k = if p k then lookup t k else none := by
  induction t with
  | nil => simp [lookup]
  | cons e rest ih =>
    obtain ⟨k', v⟩ := e
    simp only [List.filter]
    by_cases hpk' : p k' = true
    · simp only [hpk', lookup]
      by_cases hk : k' = k
      · subst hk; simp [hpk']
      · simp [hk, ih]
    · simp only [hpk']
      rw [ih]
      by_cases hk : k' = k
      · subst hk; simp [hpk', lookup]
      · simp [lookup, hk]

end RubyTi.Scope

import RubyTi.Model.T
import RubyTi.Proofs.Lex
import RubyTi.Gen.Sig

/-!
# Model of base.Sig and the comparators of base/signature.go

`base.TSignatures` is a Go map: its iteration order is arbitrary, so the input of the sort is *any*
permutation; `slices.SortFunc` is pdqsort (unstable), so the output is *any* sorted permutation.
A signature's sort key is encoded as a `List Nat` whose lexicographic order is the comparator's
order: every string field as its code points + 1 followed by a 0 terminator, a Boolean as 1/2, the
row as one number. The field order is the one regenerated from the source (`Gen.sortKeys`).
-/
namespace RubyTi.Sig
open RubyTi RubyTi.Lex

structure Sig where
  method : Str
  detail : Str
  frame : Str
  cls : Str
  isStatic : Bool
  isPrivate : Bool
  fileName : Str
  row : Nat
  document : Str
  deriving Repr, DecidableEq

def encS (s : Str) : List Nat := s.map (fun c => c.toNat + 1) ++ [0]
def encB (b : Bool) : List Nat := [if b then 2 else 1]

def field (s : Sig) : String → List Nat
  | "Method" => encS s.method
  | "Class" => encS s.cls
  | "Frame" => encS s.frame
  | "Detail" => encS s.detail
  | "FileName" => encS s.fileName
  | "IsStatic" => encB s.isStatic
  | "Row" => [s.row]
  | _ => []

def keyFor (order : List String) (s : Sig) : List Nat := (order.map (field s)).flatten

def orderOf (fn : String) : List String := (Gen.sortKeys.lookup fn).getD []

/-- GetSortedTSignatures's comparator: a ≤ b -/
def sigLe (fn : String) (a b : Sig) : Bool := lexLe (keyFor (orderOf fn) a) (keyFor (orderOf fn) b)

def insertSig (fn : String) (x : Sig) : List Sig → List Sig
  | [] => [x]
  | y :: ys => if lexLt (keyFor (orderOf fn) x) (keyFor (orderOf fn) y) then x :: y :: ys else y :: insertSig fn x ys

/-- an executable sort (insertion) used by the correspondence stream -/
def sortSigs (fn : String) : List Sig → List Sig
  | [] => []
  | x :: xs => insertSig fn x (sortSigs fn xs)

/-- what the printers show of a signature (every printed line is a function of these) -/
def rendered (s : Sig) : Str × Str × Str × Str × Bool × Str × Nat × Str :=
  (s.method, s.detail, s.frame, s.cls, s.isStatic, s.fileName, s.row, s.document)

end RubyTi.Sig

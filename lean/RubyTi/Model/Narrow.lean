import RubyTi.Model.Unify
import RubyTi.Model.Config
import RubyTi.Model.Frame

/-!
# Model of the narrowing core of `eval/ifunless.go` (setConditionalCtx, narrowing, the restore closures)

The per-conditional state is the three maps of `IfUnless` (variable name ↦ list of `T`, in Go maps
of slices). Variable values live in a store `name ↦ T` (the top-level slice of `TFrame`).
`cond` is `setConditionalCtx` for one tested atom — `x.is_a?(C)` (class `C`), `x.nil?` (class
`NilClass`), `x == lit` (`skipNarrow`) — with `isExclamation` for a leading `!`; `elseStep` is
`narrowing`; `elsifStep` is what `Evaluation` does on `elsif` before the next condition.
-/
namespace RubyTi.Narrow
open RubyTi RubyTi.Frame RubyTi.Unify Gen.Tok

abbrev Vars := Table Str T
abbrev M := Table Str (List T)

structure St where
  isIf : Bool                 -- conditionType == "if" (else "unless")
  original : M := []
  narrow : M := []
  ifNarrow : M := []

def get (m : M) (k : Str) : List T := (lookup m k).getD []

def U40 (vs : List T) : T := makeUnifiedT 40 vs

/-- the variants of `orig` (a union) or `orig` itself whose object class is not the class of any `ex` -/
def minusByClass (orig : T) (ex : List T) : List T :=
  let cands := if orig.tag == UNION then orig.variants else [orig]
  cands.filter fun v => !(ex.any fun e => v.objectClass == e.objectClass)

/-- setConditionalCtx: the new state and store -/
def cond (st : St) (vars : Vars) (cls obj : Str) (isExclamation skipNarrow : Bool) : St × Vars :=
  match lookup vars obj with
  | none => (st, vars)
  | some currentT =>
    let classT := Config.convertToBuiltinT cls
    let isNarrow := if st.isIf then !isExclamation else isExclamation
    let original := if (lookup st.original obj).isSome then st.original else insert st.original obj [currentT]
    let st := { st with original := original }
    if isNarrow then
      let narrow := if skipNarrow then st.narrow else insert st.narrow obj (get st.narrow obj ++ [classT])
      let ifn := insert st.ifNarrow obj (get st.ifNarrow obj ++ [classT])
      ({ st with narrow := narrow, ifNarrow := ifn }, insert vars obj (U40 (get ifn obj)))
    else if skipNarrow then (st, vars)
    else
      let ifn := insert st.ifNarrow obj (get st.ifNarrow obj ++ [classT])
      match get st.original obj with
      | [] => ({ st with ifNarrow := ifn }, vars)
      | orig :: _ =>
        let remaining := minusByClass orig (get ifn obj)
        ({ st with ifNarrow := ifn, narrow := insert st.narrow obj remaining }, insert vars obj (U40 remaining))

/-- the else-type of one variable: its original variants minus what the branches before took -/
def elseVariants (originals narrows : List T) : List T :=
  originals.flatMap fun o =>
    if o.tag == UNION then o.variants.filter fun v => !(narrows.any fun n => v.objectClass == n.objectClass)
    else if narrows.any (fun n => isEqualObject o n) then [] else [o]

/-- narrowing -/
def elseStep (st : St) (vars : Vars) : Vars :=
  st.original.foldl (fun vs e =>
    match lookup st.narrow e.1 with
    | none => insert vs e.1 (U40 e.2)
    | some ns => insert vs e.1 (U40 (elseVariants e.2 ns))) vars

def elsifStep (st : St) (vars : Vars) : St × Vars := ({ st with ifNarrow := [] }, elseStep st vars)

/-- the restore closures: every variable a condition touched gets back the value it had before -/
def restore (before : Vars) (touched : List Str) (vars : Vars) : Vars :=
  touched.foldl (fun vs x => match lookup before x with | some t => insert vs x t | none => vs) vars

end RubyTi.Narrow

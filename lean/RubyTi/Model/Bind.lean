import RubyTi.Model.Match

/-!
# Model of argument binding for configured methods
(eval/method_evaluator/type_process.go: checkAndPropagateArgs in the check round, for a method of the
Builtin frame: `propagationForCalledTo` answers false for declared parameter types, so every bound
argument goes through `checkArgType`)

Parameters are in the order `prioritizeDefineArgNames` yields (positional ones first, keyword
parameters sorted by name), arguments in the order `prioritizeArgTs` yields (positional first, keyword
arguments sorted by key; C14's model). `bind` walks the parameters with an index into the arguments,
as the Go loop does, and answers the first error or `ok`.
-/
namespace RubyTi.Bind
open RubyTi RubyTi.Match Gen.Tok

inductive PKind where | pos | key | star | dstar
  deriving DecidableEq, Repr

structure Param where
  kind : PKind
  name : Str := []          -- keyword name for `key`
  t : T                     -- declared type (with its hasDefault flag)

inductive Arg where
  | pos (t : T)
  | kw (key : Str) (t : T)

def Arg.isKw : Arg → Bool | .kw .. => true | .pos _ => false

inductive Res where
  | ok | tooFew | tooMany | mismatch | missingKey | extraArg | notDefined | kwExpected
  deriving DecidableEq, Repr

def hasKey (args : List Arg) (name : Str) : Bool := args.any fun a => match a with | .kw k _ => k == name | .pos _ => false

def isPosParam (p : Param) : Bool := p.kind == .pos || p.kind == .star

/-- the loop: `idx` is argIdx, `ast` is isAsterisk; answers the error or (`ok`, final isAsterisk) -/
def loop (args : List Arg) : List Param → Nat → Bool → Res × Bool
  | [], _, ast => (.ok, ast)
  | p :: rest, idx, ast =>
    match p.kind with
    | .dstar =>
      if args.length < idx then (.ok, ast)
      else if (args.drop idx).all Arg.isKw then loop args rest args.length true
      else (.kwExpected, true)
    | .star =>
      if args.length < idx then (.ok, ast)
      else
        let mustBind := (rest.filter fun q => q.kind != .key).length
        let positional := (args.drop idx).takeWhile fun a => !a.isKw
        if mustBind ≥ positional.length then loop args rest idx true
        else loop args rest (idx + (positional.length - mustBind)) true
    | _ =>
      let isKey := p.kind == .key
      if isKey && !p.t.fl.hasDefault && !hasKey args p.name then (.missingKey, ast)
      else
        match args[idx]? with
        | none => if p.t.fl.hasDefault then loop args rest idx ast else (.tooFew, ast)
        | some (.pos a) =>
          if isKey then (.extraArg, ast)
          else if Match.checkArg p.t a then loop args rest (idx + 1) ast else (.mismatch, ast)
        | some (.kw k a) =>
          if !isKey && !p.t.fl.hasDefault then (.notDefined, ast)
          else if k == p.name then
            (if Match.checkArg p.t a then loop args rest (idx + 1) ast else (.mismatch, ast))
          else loop args rest idx ast

/-- checkAndPropagateArgs for a typed (not `untyped`-returning) configured method -/
def bind (ps : List Param) (args : List Arg) : Res :=
  match loop args ps 0 false with
  | (.ok, ast) => if args.length > ps.length && !ast then .tooMany else .ok
  | (e, _) => e

/-! ### Union receivers (checkAndPropagateArgsForUnionWithReturnT)

Every class of the receiver is checked in turn. A class's method may have several declarations (the first one
and its overloads): when the first rejects the call the others are tried in order and the first that accepts
settles that class; if none accepts, the error of the last one tried is the error of the call. -/

def tryOverloads (args : List Arg) : List (List Param) → Res → Res
  | [], last => last
  | o :: os, _ => let r := bind o args; if r == .ok then .ok else tryOverloads args os r

/-- one class: its declarations in order -/
def bindClass (decls : List (List Param)) (args : List Arg) : Res :=
  match decls with
  | [] => .ok
  | d :: os => let r := bind d args; if r == .ok then .ok else tryOverloads args os r

def bindUnion (classes : List (List (List Param))) (args : List Arg) : Res :=
  match classes with
  | [] => .ok
  | c :: rest => let r := bindClass c args; if r == .ok then bindUnion rest args else r

end RubyTi.Bind

import RubyTi.Model.Frame
import RubyTi.Model.Ret

/-!
# Model of what analysing a program does to the method table (base.TFrame)

The analysis is a sequence of operations on the global table: *writes* (assignments, definitions,
parameter bindings, call-site propagation — `SetValueT`, `SetMethodT`, …) and *calls of configured
methods*, which look the declaration up, copy it and compute the result type from the copy
(`evaluateNoUnionInstanceMethod`: `methodT.DeepCopy()` before `calculateExecutionType`; the union
path accumulates into a copy since the `fix:` commit). A program that does not reopen builtin
classes writes only under its own frames. That the real analyser keeps to this — no write reaches a
key of the Builtin frame — is what the `analyze` correspondence op checks on every program, by
rendering all Builtin-frame entries before and after an in-process analysis.
-/
namespace RubyTi.Analysis
open RubyTi RubyTi.Frame

def BUILTIN : Str := "Builtin".toList

/-- a key of the Builtin frame: a configured method, one of its declared parameters, a constant -/
def isBuiltinKey (k : FrameKey) : Bool := k.frame == BUILTIN || (BUILTIN ++ "::".toList).isPrefixOf k.frame

inductive Op where
  | write (k : FrameKey) (v : T)
  | call (k : FrameKey) (recv : T) (args : List T)

abbrev Store := Table FrameKey T

def step (s : Store) : Op → Store × Option T
  | .write k v => (insert s k v, none)
  | .call k recv args =>
    match lookup s k with
    | none => (s, none)
    | some m => (s, some (Ret.calcExec 40 m recv args).1)

def run (s : Store) (ops : List Op) : Store := ops.foldl (fun acc op => (step acc op).1) s

/-- the operations of a program that does not reopen builtin classes -/
def userOp : Op → Bool
  | .write k _ => !isBuiltinKey k
  | .call .. => true

end RubyTi.Analysis

import RubyTi.Basic
import RubyTi.Gen.MainFacts

/-!
# Model of main.go's round loop (output assembly)

For each of the four rounds: every preloaded file is evaluated with `isLoad = true`, then the
target with `isLoad = false`. Each evaluation has its *own* parser (its own `Errors` list); the
definition articles go to one global list. In the check round the target's evaluation turns the
articles into `-i` hints (after the `fix:` commit: only those recorded by a parser of the target
file) and prints its own `Errors`. The statement evaluator itself is a parameter: an evaluation
is abstracted to what it leaves behind (`Eval`).
-/
namespace RubyTi.Rounds
open RubyTi

abbrev Str := List Char

/-- what evaluating one file in one round leaves behind -/
structure Eval where
  file : Str
  errors : List (Nat × Str)          -- (row, message): appended to this parser's Errors in the check round
  articles : List (Str × Nat × Str)  -- (file of the recording parser, define row, signature): appended to the global list
  deriving Repr

inductive Line where
  | diag (file : Str) (row : Nat) (msg : Str)
  | hint (file : Str) (row : Nat) (text : Str)
  deriving Repr, DecidableEq

def Line.file : Line → Str
  | .diag f _ _ => f
  | .hint f _ _ => f

/-- setDefineInfos + PrintDefineInfosForPlugin + PrintAllErrorsForPlugin of the target's check-round evaluation -/
def targetOutput (globalArticles : List (Str × Nat × Str)) (target : Eval) (withHints : Bool) : List Line :=
  (if withHints then
     (globalArticles.filter (fun a => a.1 == target.file)).map (fun a => Line.hint target.file a.2.1 a.2.2)
   else []) ++
  target.errors.map (fun e => Line.diag target.file e.1 e.2)

/-- the check round: preloads contribute articles (and private error lists that are never printed) -/
def checkRound (preloads : List Eval) (target : Eval) (withHints : Bool) : List Line :=
  targetOutput ((preloads.map (·.articles)).flatten ++ target.articles) target withHints

end RubyTi.Rounds

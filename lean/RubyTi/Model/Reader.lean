import RubyTi.Basic

/-!
# Concrete model of lexer/reader/reader.go

Fields as in the Go struct (`runes[pos:]` is kept as the remaining suffix plus `pos`).
`pending` is the abstraction the lexer model works on; the lemmas below are the refinement
(`Read` pops, `Unread` after a `Read` pushes the rune back, `AppendHistory` queues behind the
history).  The correspondence stream `reader` runs random operation sequences on the real
`LexerReader` and on this model and compares every field.
-/
namespace RubyTi

structure Reader where
  rest : List Rune            -- runes[pos:]
  pos : Nat := 0
  ungetFlg : Bool := false
  char : Rune := 0
  history : List Rune := []
  deriving Repr, DecidableEq

namespace Reader

def new (runes : List Rune) : Reader := { rest := runes }

/-- the `for pos < len && runes[pos] == 0 { pos++ }` loop -/
def skipNul : List Rune → Nat → List Rune × Nat
  | [], p => ([], p)
  | c :: cs, p => if c == 0 then skipNul cs (p + 1) else (c :: cs, p)

def read (r : Reader) : Rune × Reader :=
  if r.ungetFlg then (r.char, { r with ungetFlg := false })
  else match r.history with
    | h :: hs => (h, { r with char := h, history := hs })
    | [] =>
      let s := skipNul r.rest r.pos
      match s.1 with
      | [] => (0, { r with rest := [], pos := s.2, char := 0 })
      | c :: cs => (c, { r with rest := cs, pos := s.2 + 1, char := c })

def unread (r : Reader) : Reader := { r with ungetFlg := true }

def appendHistory (r : Reader) (c : Rune) : Reader := { r with history := r.history ++ [c] }

def nz (l : List Rune) : List Rune := l.filter (· != 0)

/-- the runes the reader will still deliver, NUL (the in-band end marker) removed -/
def pending (r : Reader) : List Rune :=
  (if r.ungetFlg && r.char != 0 then [r.char] else []) ++ nz r.history ++ nz r.rest

@[simp] theorem nz_nil : nz [] = [] := rfl

theorem skipNul_nz (l : List Rune) (p : Nat) : nz (skipNul l p).1 = nz l := by
  induction l generalizing p with
  | nil => simp [skipNul]
  | cons c cs ih =>
    simp only [skipNul]
    split
    · rename_i h; simp [nz] at *; simp [h]; exact ih _
    · rfl

theorem skipNul_head (l : List Rune) (p : Nat) :
    ∀ c cs, (skipNul l p).1 = c :: cs → c ≠ 0 := by
  induction l generalizing p with
  | nil => simp [skipNul]
  | cons a as ih =>
    intro c cs h
    simp only [skipNul] at h
    split at h
    · exact ih _ c cs h
    · rename_i hne; simp at h; simp at hne; obtain ⟨rfl, _⟩ := h; exact hne

theorem skipNul_pos (l : List Rune) (p : Nat) :
    (skipNul l p).2 + (skipNul l p).1.length = p + l.length := by
  induction l generalizing p with
  | nil => simp [skipNul]
  | cons a as ih =>
    simp only [skipNul]; split
    · have := ih (p + 1); simp; omega
    · simp

/-- `Read` refines "pop the head of `pending`" (0 at the end), provided the history holds no
NUL and a pending unget of NUL only occurs at the end of input. -/
theorem read_spec (r : Reader) (h0 : 0 ∉ r.history)
    (hf : r.ungetFlg = true → r.char = 0 → r.pending = []) :
    (r.read).1 = (r.pending).headD 0 ∧ (r.read).2.pending = (r.pending).tail := by
  unfold read
  split
  · rename_i hflag
    by_cases hc : r.char = 0
    · have := hf hflag hc
      simp [pending, hflag, hc] at this ⊢
      simp [this]
    · simp [pending, hflag, hc]
  · rename_i hflag
    simp at hflag
    split
    · rename_i h hs hh
      have hne : h ≠ 0 := by intro e; apply h0; rw [hh, e]; simp
      simp [pending, hflag, hh, nz, hne]
    · rename_i hh
      have hz := skipNul_nz r.rest r.pos
      dsimp only
      split
      · rename_i hs
        rw [hs] at hz
        have hz' : nz r.rest = [] := by rw [← hz]; rfl
        simp [pending, hflag, hh, hz', nz_nil]
      · rename_i c cs hs
        have hc := skipNul_head _ _ c cs hs
        rw [hs] at hz
        have hz' : nz r.rest = c :: nz cs := by rw [← hz]; simp [nz, hc]
        simp [pending, hflag, hh, hz', nz_nil]

/-- `Unread` right after a `Read` pushes the rune just read back (a NUL is not pushed). -/
theorem unread_spec (r : Reader) (hfl : r.ungetFlg = false) :
    (r.unread).pending = (if r.char != 0 then [r.char] else []) ++ r.pending := by
  simp [unread, pending, hfl]

/-- `AppendHistory c` queues `c` behind the history, in front of the unread input. -/
theorem appendHistory_spec (r : Reader) (c : Rune) (hfl : r.ungetFlg = false) :
    (r.appendHistory c).pending = nz r.history ++ nz [c] ++ nz r.rest := by
  simp [appendHistory, pending, hfl, nz, List.filter_append]

/-- the position counter only moves forward and never passes the end -/
theorem read_pos (r : Reader) :
    (r.read).2.pos + (r.read).2.rest.length = r.pos + r.rest.length := by
  unfold read
  split
  · rfl
  · split
    · rfl
    · have := skipNul_pos r.rest r.pos
      dsimp only
      split <;> rename_i hs <;> rw [hs] at this <;> simp at this ⊢ <;> omega

end Reader
end RubyTi

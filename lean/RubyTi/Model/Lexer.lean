import RubyTi.Basic

/-!
# Model of lexer/lexer.go (after the `fix:` commits that add the end-of-input exits)

The model works on the *pending input*: the list of runes the reader will still deliver
(`pending = [char | ungetFlg] ++ history ++ runes[pos:]` without NUL runes; see
`Model/Reader.lean` for the concrete reader and the refinement lemmas).  `Read()` pops the
head (or yields 0 at the end), `Unread()` after a read is "do not pop", and the two
`AppendHistory` calls of `lexDigit` push the two runes just read back in front.
Every loop of lexer.go becomes a structural recursion over the pending list, so Lean's
termination checker is the proof that each loop ends at the end of input.

What is *not* modelled: `LastComment` / `LastSpecialComment` (ti-doc comments) and the numeric
value of literals (only INT vs FLOAT matters for types).
-/
namespace RubyTi.Lexer
open RubyTi
set_option linter.unusedVariables false

inductive Val where
  | none
  | int
  | float
  | str (s : List Rune)
  | ident (s : List Rune)
  deriving Repr, DecidableEq, Inhabited

/-- The lexer fields the parser can observe. `tok` uses Go's rune/const numbering. -/
structure LState where
  tok : Int := 0
  val : Val := .none
  isSpace : Bool := false
  pending : List Rune := []
  deriving Repr, DecidableEq

def TOK_INT : Int := Gen.Tok.INT
def TOK_FLOAT : Int := Gen.Tok.FLOAT
def TOK_UNKNOWN : Int := Gen.Tok.UNKNOWN
def TOK_STRING : Int := Gen.Tok.STRING
def TOK_NIL : Int := Gen.Tok.NIL

/-- skipSpace: returns (IsSpace was set, pending afterwards). The first rune sets IsSpace
even when it is a newline; the loop then skips non-newline white space. -/
def skipSpace (l : List Rune) : Bool × List Rune :=
  let first := match l with | [] => false | c :: _ => isSpace c
  let rest := l.dropWhile (fun c => isSpace c && c != NL)
  (first, rest)

/-- lexToSpaceTokenEat: runes up to (not including) the next white space; sets IsSpace when the
stop rune is white space other than newline. -/
def toSpace (l : List Rune) : List Rune × Bool × List Rune :=
  let taken := l.takeWhile (fun c => !isSpace c)
  let rest := l.dropWhile (fun c => !isSpace c)
  let sp := match rest with | [] => false | c :: _ => c != NL
  (taken, sp, rest)

/-- lexToNotIdentifierTokenEat -/
def toNotIdent (l : List Rune) : List Rune × Bool × List Rune :=
  let taken := l.takeWhile isIdentChar
  let rest := l.dropWhile isIdentChar
  let sp := match rest with | [] => false | c :: _ => c == 32
  (taken, sp, rest)

def isHexish (c : Rune) : Bool :=
  c == 120 || c == 111 || c == 98 ||
  (48 ≤ c && c ≤ 57) || (97 ≤ c && c ≤ 102) || (65 ≤ c && c ≤ 70)

/-- strconv.ParseInt(buf, 10, 64) succeeds: non-empty, ASCII digits only, value < 2^63. -/
def parsesAsInt (buf : List Rune) : Bool :=
  !buf.isEmpty && buf.all (fun c => 48 ≤ c && c ≤ 57) &&
  (buf.foldl (fun acc c => acc * 10 + (c - 48)) 0) < 9223372036854775808

def digitTok (buf : List Rune) : Int × Val :=
  if parsesAsInt buf then (TOK_INT, .int) else (TOK_FLOAT, .float)

/-- lexDigit: returns (tok, val, pending afterwards). -/
def lexDigit : List Rune → List Rune → Int × Val × List Rune
  | [], buf => let d := digitTok buf; (d.1, d.2, [])
  | c :: cs, buf =>
    if c == 120 || c == 111 || c == 98 then
      -- 0xff: Unread, lexHexDigits re-reads from `c`
      (TOK_INT, .int, (c :: cs).dropWhile isHexish)
    else if c == 95 then lexDigit cs buf
    else if c == 46 then
      match cs with
      | [] => let d := digitTok buf; (d.1, d.2, [46])   -- AppendHistory('.'), AppendHistory(0): the 0 is the end marker
      | n :: ns =>
        if !isDigit n then let d := digitTok buf; (d.1, d.2, 46 :: n :: ns)
        else lexDigit ns (buf ++ [46])                      -- the digit after '.' is dropped
    else if !isDigit c then let d := digitTok buf; (d.1, d.2, c :: cs)
    else lexDigit cs (buf ++ [c])

def colonQuote : List Rune := [58, 34]

/-- lexIdentifier(currentChar): returns (name, pending afterwards). -/
def lexIdent (cur : Rune) : List Rune → List Rune → List Rune × List Rune
  | [], buf => (buf, [])
  | c :: cs, buf =>
    if cur == 42 && c == 61 then (buf ++ [c], cs)
    else if !isIdentChar c then
      if containsSub colonQuote buf && c != NL && c != 34 && c != 0 then lexIdent cur cs (buf ++ [c])
      else (buf, c :: cs)
    else lexIdent cur cs (buf ++ [c])

/-- lexString(start): returns (contents, pending afterwards). -/
def lexString (start : Rune) : List Rune → List Rune → List Rune × List Rune
  | [], buf => (buf, [])
  | c :: cs, buf =>
    if c == start || c == 0 then (buf, cs)
    else if c == 92 then
      match cs with
      | [] => (buf ++ [0], [])
      | d :: ds => lexString start ds (buf ++ [d])
    else lexString start cs (buf ++ [c])

/-- skipLineComment: everything up to (not including) the newline. -/
def skipComment (l : List Rune) : List Rune := l.dropWhile (fun c => c != NL && c != 0)

def percentNext : List Rune := [61, 87, 119, 105, 81, 113, 114, 115, 108, 120]
def singleCharToks : List Rune := [10, 40, 41, 44, 123, 125, 91, 93, 94, 59]
def quoteChars : List Rune := [34, 39, 96]

def mkIdent (st : LState) (name : List Rune) (rest : List Rune) (sp : Bool := false) : LState :=
  { st with tok := TOK_UNKNOWN, val := .ident name, pending := rest, isSpace := st.isSpace || sp }

theorem dropWhile_length_le {α} (p : α → Bool) (l : List α) : (l.dropWhile p).length ≤ l.length := by
  induction l with
  | nil => simp
  | cons a t ih => simp only [List.dropWhile]; split <;> simp <;> omega

theorem skipSpace_length (l : List Rune) : (skipSpace l).2.length ≤ l.length := by
  simp [skipSpace]; exact dropWhile_length_le _ _

theorem skipComment_length (l : List Rune) : (skipComment l).length ≤ l.length :=
  dropWhile_length_le _ _

/-- One call of `Lexer.Advance` on state `st`. The Boolean is Advance's result (false = EOS); the state is
returned in both cases because Go mutates the lexer either way. -/
def advance (st : LState) : Bool × LState :=
  let ss := skipSpace st.pending
  let st := { st with isSpace := st.isSpace || ss.1 }
  match hp : ss.2 with
  | [] => (false, { st with pending := [] })
  | c :: cs =>
    if c == 60 || c == 62 then
      let r := toSpace cs
      (true, mkIdent st (c :: r.1) r.2.2 r.2.1)
    else if c == 61 then
      match cs with
      | 62 :: r => (true, mkIdent st [61, 62] r)
      | 61 :: 61 :: r => (true, mkIdent st [61, 61, 61] r)
      | 61 :: r => (true, mkIdent st [61, 61] r)
      | r => (true, mkIdent st [61] r)
    else if c == 46 then
      match cs with
      | 46 :: 46 :: r => (true, mkIdent st [46, 46, 46] r)
      | 46 :: r => (true, mkIdent st [46, 46] r)
      | r => (true, { st with tok := 46, pending := r })
    else if c == 37 then
      match cs with
      | [] => (true, mkIdent st [37] [])
      | n :: r =>
        if percentNext.contains n then (true, mkIdent st [37, n] r)
        else
          let t := toSpace (n :: r)
          (true, mkIdent st (37 :: t.1) t.2.2 t.2.1)
    else if c == 33 || c == 43 || c == 45 || c == 47 then
      match hcs : cs with
      | [] =>
        if c == 45 then
          -- `-` at the end of input: Unread; return l.Advance() which answers false
          (false, { st with pending := [] })
        else (true, mkIdent st [c] [])
      | n :: r =>
        if n == 61 then (true, mkIdent st [c, 61] r)
        else if c == 45 && n == 62 then (true, mkIdent st [45, 62] r)
        else if (c == 43 || c == 45) && isDigit n then
          let d := lexDigit (n :: r) []
          (true, { st with tok := d.1, val := d.2.1, pending := d.2.2 })
        else if c == 45 && !isSpace n then
          -- unary minus is dropped: Advance() again on what follows
          advance { st with pending := n :: r }
        else (true, mkIdent st [c] (n :: r))
    else if c == 38 then
      match cs with
      | 46 :: r => (true, mkIdent st [38, 46] r)
      | 38 :: r => (true, mkIdent st [38, 38] r)
      | r =>
        let t := toNotIdent r
        (true, mkIdent st (38 :: t.1) t.2.2 t.2.1)
    else if c == 124 then
      match cs with
      | 124 :: 61 :: r => (true, mkIdent st [124, 124, 61] r)
      | 124 :: r => (true, mkIdent st [124, 124] r)
      | 61 :: r => (true, mkIdent st [124, 61] r)
      | r => (true, mkIdent st [124] r)
    else if singleCharToks.contains c then
      (true, { st with tok := c, pending := cs })
    else if quoteChars.contains c then
      let s := lexString c cs []
      (true, { st with tok := TOK_STRING, val := .str s.1, pending := s.2 })
    else if c == 35 then
      advance { st with pending := skipComment cs }
    else if isDigit c then
      let d := lexDigit (c :: cs) []
      (true, { st with tok := d.1, val := d.2.1, pending := d.2.2 })
    else if isIdentChar c then
      let r := lexIdent c (c :: cs) []
      (true, { st with tok := if r.1 == [110, 105, 108] then TOK_NIL else TOK_UNKNOWN,
                       val := .ident r.1, pending := r.2 })
    else (false, { st with pending := cs })
termination_by st.pending.length
decreasing_by
  all_goals simp_wf
  all_goals
    have h1 := skipSpace_length st.pending
    have h2 := congrArg List.length hp
    simp [ss] at h2
  · simp [st] at h1; omega
  · have h3 := skipComment_length cs
    simp [st] at h1; omega


/-- Iterates `Advance` the way parser.Read does (IsSpace is reset after every token) until it
answers false. Returns (tokens, reached end-of-stream within the fuel, final state). -/
def lexAll : Nat → LState → List LState × Bool × LState
  | 0, st => ([], false, st)
  | fuel + 1, st =>
    match advance st with
    | (false, st') => ([], true, st')
    | (true, st') =>
      let r := lexAll fuel { st' with isSpace := false }
      (st' :: r.1, r.2.1, r.2.2)

/-- reader.New + repeated Advance on a whole input (NUL runes never reach the lexer: the reader
skips them, see `Reader.read_spec`). -/
def tokens (input : List Rune) : List LState × Bool × LState :=
  lexAll (input.length + 1) { pending := input.filter (· != 0) }

/-- What `parser.Read` does with the lexer's token: the type assertions
`Value().(int64|float64|string|Identifier)` must match and the token must have a case. -/
inductive ReadKind where
  | int | float | str | nil | single | ident | eos
  | readError            -- `default: return nil, errors.New("read error")`
  | assertPanic          -- a failed type assertion (Go runtime panic)
  deriving Repr, DecidableEq

def readKind' (tok : Int) (val : Val) : ReadKind :=
  if tok == TOK_INT then (if val == .int then .int else .assertPanic)
  else if tok == TOK_FLOAT then (if val == .float then .float else .assertPanic)
  else if tok == TOK_STRING then (match val with | .str _ => .str | _ => .assertPanic)
  else if tok == TOK_NIL then .nil
  else if tok == TOK_UNKNOWN then (match val with | .ident _ => .ident | _ => .assertPanic)
  else if tok == Gen.Tok.EOS then .eos
  else if Gen.readCases.flatten.contains tok then .single
  else .readError

def readKind (s : LState) : ReadKind := readKind' s.tok s.val

def ReadKind.ok : ReadKind → Bool
  | .readError => false
  | .assertPanic => false
  | .eos => false
  | _ => true

end RubyTi.Lexer

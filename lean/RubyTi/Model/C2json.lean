import RubyTi.Basic

/-!
# Model of cmd/c2json: inferArguments on an abstract definition

A C method definition is abstracted to what `inferArguments` looks at: the MRB_ARGS macros of the
spec (as extracted — after the `fix:` commit the whole `|`-combination) and, if the body calls
`mrb_get_args`, its format string. The regular expressions that find these in C text are
exercised end-to-end, not modelled. `tiAccepts` is the arity rule ti applies to a configured
argument list (validated end-to-end by calling the generated configuration with 0..6 arguments).
-/
namespace RubyTi.C2json

structure Spec where
  req : Nat := 0
  opt : Nat := 0
  rest : Bool := false
  post : Nat := 0
  block : Bool := false
  none : Bool := false
  any : Bool := false
  deriving Repr, DecidableEq

/-- a character of an `mrb_get_args` format string -/
inductive Fmt where
  | val        -- i f s z S A a H b n C o : one value
  | bar        -- |  : the rest is optional
  | star       -- *  : rest arguments
  | amp        -- &  : block
  | mod        -- ! ? and anything else: no argument
  deriving Repr, DecidableEq

structure CDef where
  spec : Spec := {}
  format : Option (List Fmt) := none
  deriving Repr

/-- an emitted ti argument, reduced to what matters for arity -/
inductive TiArg where
  | required | optional | rest | block
  deriving Repr, DecidableEq

def inferFormat : List Fmt → Bool → List TiArg
  | [], _ => []
  | .val :: r, opt => (if opt then TiArg.optional else TiArg.required) :: inferFormat r opt
  | .bar :: r, _ => inferFormat r true
  | .star :: r, opt => TiArg.rest :: inferFormat r opt
  | .amp :: r, opt => TiArg.block :: inferFormat r opt
  | .mod :: r, opt => inferFormat r opt

/-- cmd/c2json inferArguments (spec + format paths) -/
def infer (d : CDef) : List TiArg :=
  if d.spec.none then []
  else if d.spec.any then [TiArg.rest]
  else match d.format with
    | some f => inferFormat f false
    | none =>
      List.replicate d.spec.req TiArg.required ++ List.replicate d.spec.opt TiArg.optional ++
      (if d.spec.rest then [TiArg.rest] else []) ++ List.replicate d.spec.post TiArg.required ++
      (if d.spec.block then [TiArg.block] else [])

/-- ti's arity rule for a configured argument list -/
def tiAccepts (args : List TiArg) (k : Nat) : Bool :=
  let req := args.count TiArg.required
  let opt := args.count TiArg.optional
  let rest := args.contains TiArg.rest
  req ≤ k && (rest || k ≤ req + opt)

/-- what the C binding accepts -/
def fmtReq : List Fmt → Nat
  | [] => 0
  | .bar :: _ => 0
  | .val :: r => fmtReq r + 1
  | _ :: r => fmtReq r

def fmtVals (f : List Fmt) : Nat := f.count Fmt.val

def cAccepts (d : CDef) (k : Nat) : Bool :=
  if d.spec.none then k == 0
  else if d.spec.any then true
  else match d.format with
    | some f => fmtReq f ≤ k && (f.contains Fmt.star || k ≤ fmtVals f)
    | none => d.spec.req + d.spec.post ≤ k && (d.spec.rest || k ≤ d.spec.req + d.spec.opt + d.spec.post)

end RubyTi.C2json

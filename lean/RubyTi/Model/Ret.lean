import RubyTi.Model.Unify
import RubyTi.Model.Config

/-!
# Model of return-type resolution (eval/method_evaluator/evaluate_process.go: calculateExecutionType)

`calcExec fuel methodT recv args` returns the type of the call and the receiver's value afterwards
(the second component is kept because the Go code used to append `NilClass` to the receiver for
`OptionalUnify`; after the `fix:` commit it is always the receiver, `C09.receiver_unchanged`). `methodT` is the declared return type
as the loader built it (a `T` whose tag says how the result is computed). Not modelled: the `BLOCK`
return (value of the block), `BlockResultArray` (reads the parser's last value), `Owner`.
-/
namespace RubyTi.Ret
open RubyTi RubyTi.Unify Gen.Tok

def toStr (t : T) : Str :=
  match t.sval with
  | .str s => s
  | .i64 => "Integer".toList
  | .f64 => "Float".toList
  | _ => "Unknown".toList

mutual
def calcExec : Nat → T → T → List T → T × T
  | 0, m, recv, _ => (m, recv)
  | fuel + 1, m, recv, args =>
    if m.method == "new".toList then (((m.setMethod m.frame m.method []).setOverloads []), recv)
    else if m.tag == UNION then
      let r := calcList fuel m.variants recv args
      (makeUnifiedT 40 r.1, r.2)
    else if m.tag == SELF then (recv, recv)
    else if m.tag == SELF_ARRAY then (T.makeArray recv.variants, recv)
    else if m.tag == ARGUMENT then
      (match args with
       | [] => (T.makeNil, recv)
       | [a] => (a, recv)
       | _ => (T.makeArray args, recv))
    else if m.tag == ARRAY then
      let r := calcList fuel m.variants recv args
      (T.makeArray r.1, r.2)
    else if m.tag == UNIFY then (unifyVariants 40 recv, recv)
    else if m.tag == OPTIONAL_UNIFY then (makeUnifiedT 40 (recv.variants ++ [T.makeNil]), recv)
    else if m.tag == KEYVALUE_ARRAY then (T.makeArray (recv.variants.map keyValue), recv)
    else if m.tag != STRING && Config.isNameSpace (toStr m) then
      let (fr, pc, cl) := Config.separateNameSpaces (toStr m)
      ((T.makeObject cl).setFrame (Config.calculateFrame fr pc), recv)
    else (m, recv)

def calcList : Nat → List T → T → List T → List T × T
  | 0, _, recv, _ => ([], recv)
  | _, [], recv, _ => ([], recv)
  | fuel + 1, v :: rest, recv, args =>
    let r := calcExec fuel v recv args
    let rs := calcList fuel rest r.2 args
    (r.1 :: rs.1, rs.2)
end

end RubyTi.Ret

import RubyTi.Model.T
import RubyTi.Gen.Config

/-!
# Model of builtin/json_loader.go (type notation) and builtin/defined_type.go

`parseTypeString`, `parseArguments`, `parseReturnType`, `ConvertToBuiltinT` (its table is
regenerated: `Gen.builtinNames`), plus the namespace helpers of base/strings.go they use.
JSON decoding of a `type` field (`TypeSpec.UnmarshalJSON`: a string becomes a one-element list)
is modelled by `TypeSpecJ.toList`.
-/
namespace RubyTi.Config
open RubyTi

/-- strings.Split(s, sep) for a one-character separator -/
def splitOnChar (c : Char) : Str → List Str
  | [] => [[]]
  | x :: xs =>
    if x == c then [] :: splitOnChar c xs
    else match splitOnChar c xs with
      | [] => [[x]]
      | p :: ps => (x :: p) :: ps

theorem splitOnChar_ne_nil (c : Char) (s : Str) : splitOnChar c s ≠ [] := by
  cases s with
  | nil => simp [splitOnChar]
  | cons x xs =>
    simp only [splitOnChar]
    split
    · simp
    · split <;> simp

theorem splitOnChar_len (c : Char) (s : Str) : ∀ p ∈ splitOnChar c s, p.length ≤ s.length := by
  induction s with
  | nil => simp [splitOnChar]
  | cons x xs ih =>
    simp only [splitOnChar]
    split
    · intro p hp
      simp at hp
      rcases hp with rfl | hp
      · simp
      · have := ih p hp; simp; omega
    · split
      · intro p hp; simp at hp; subst hp; simp_all [splitOnChar]
      · rename_i q qs hq
        intro p hp
        simp at hp
        rcases hp with rfl | hp
        · have := ih q (by rw [hq]; simp); simp; omega
        · have := ih p (by rw [hq]; simp [hp]); simp; omega

theorem splitOnChar_lt (c : Char) (s : Str) (hc : c ∈ s) : ∀ p ∈ splitOnChar c s, p.length < s.length := by
  induction s with
  | nil => simp at hc
  | cons x xs ih =>
    simp only [splitOnChar]
    split
    · intro p hp
      simp at hp
      rcases hp with rfl | hp
      · simp
      · have := splitOnChar_len c xs p hp; simp; omega
    · rename_i hx
      have hc' : c ∈ xs := by
        simp at hc
        rcases hc with rfl | h
        · simp at hx
        · exact h
      split
      · rename_i hq
        have : ∀ p ∈ splitOnChar c xs, p.length < xs.length := ih hc'
        exact absurd hq (splitOnChar_ne_nil c xs)
      · rename_i q qs hq
        intro p hp
        simp at hp
        rcases hp with rfl | hp
        · have := ih hc' q (by rw [hq]; simp); simp; omega
        · have := ih hc' p (by rw [hq]; simp [hp]); simp; omega

/-- strings.Split(s, "::") -/
def splitNS : Str → List Str
  | [] => [[]]
  | [x] => [[x]]
  | ':' :: ':' :: rest => [] :: splitNS rest
  | x :: y :: rest =>
    match splitNS (y :: rest) with
    | [] => [[x]]
    | p :: ps => (x :: p) :: ps

def isNameSpace (s : Str) : Bool := (splitNS s).length > 1

def joinNS : List Str → Str
  | [] => []
  | [a] => a
  | a :: rest => a ++ [':', ':'] ++ joinNS rest

/-- base.SeparateNameSpaces -/
def separateNameSpaces (s : Str) : Str × Str × Str :=
  match splitNS s with
  | [a] => ([], [], a)
  | [a, b] => ([], a, b)
  | parts =>
    let n := parts.length
    (joinNS (parts.take (n - 2)), (parts.drop (n - 2)).headD [], (parts.drop (n - 1)).headD [])

/-- base.CalculateFrame -/
def calculateFrame (frame cls : Str) : Str :=
  if frame == [] && cls == [] then []
  else if frame == [] then cls
  else if cls == [] then frame
  else frame ++ [':', ':'] ++ cls

def isSpaceC (c : Char) : Bool := isSpace c.toNat

/-- strings.TrimSpace -/
def trimSpace (s : Str) : Str := ((s.dropWhile isSpaceC).reverse.dropWhile isSpaceC).reverse

theorem trimSpace_len (s : Str) : (trimSpace s).length ≤ s.length := by
  simp [trimSpace]
  have h1 := dropWhile_length_le' isSpaceC s
  have h2 := dropWhile_length_le' isSpaceC (s.dropWhile isSpaceC).reverse
  simp at h2; omega

/-- builtin.ConvertToBuiltinT -/
def convertToBuiltinT (name : Str) : T :=
  match Gen.builtinNames.lookup name with
  | some t => t
  | none => if (splitNS name).length > 1 then T.makeIdentifier name else T.makeObject name

def NilT : T := Gen.Builtin.NilT

/-- builtin.parseTypeString -/
def parseTypeString (s : Str) : T :=
  match hs : s with
  | [] => convertToBuiltinT []
  | c :: rest =>
    if c == '?' && rest ≠ [] then T.makeUnion [parseTypeString rest, NilT]
    else if c == '*' && rest ≠ [] then (parseTypeString rest).setFl fun f => { f with isBuiltinAsterisk := true }
    else if c == '[' && rest.length ≥ 2 && rest.getLast? == some ']' then
      T.makeArray [parseTypeString rest.dropLast]
    else if hbar : '|' ∈ s then
      T.makeUnion ((splitOnChar '|' s).attach.map fun ⟨p, hp⟩ =>
        have : (trimSpace p).length < s.length :=
          Nat.lt_of_le_of_lt (trimSpace_len p) (splitOnChar_lt '|' s hbar p hp)
        parseTypeString (trimSpace p))
    else convertToBuiltinT s
termination_by s.length
decreasing_by
  all_goals simp_wf
  · omega
  · rw [hs] at this; simpa using this

/-- a JSON `type` value: string or array of strings (`TypeSpec.UnmarshalJSON`) -/
inductive TypeSpecJ where
  | absent
  | single (s : Str)
  | many (l : List Str)
  deriving Repr

def TypeSpecJ.toList : TypeSpecJ → List Str
  | .absent => []
  | .single s => [s]
  | .many l => l

structure MethodArgument where
  type : TypeSpecJ := .absent
  key : Str := []
  isAsterisk : Bool := false
  isDefault : Bool := false
  deriving Repr

structure MethodReturn where
  type : TypeSpecJ := .absent
  isConditional : Bool := false
  isDestructive : Bool := false
  isCaptureOwner : Bool := false
  deriving Repr

/-- builtin.parseReturnType -/
def parseReturnType (r : MethodReturn) : T :=
  let t := match r.type.toList with
    | [] => NilT
    | [s] => parseTypeString s
    | l => T.makeUnion (l.map parseTypeString)
  t.setFl fun f => { f with isConditionalReturn := r.isConditional, isDestructive := r.isDestructive,
                            isCaptureOwner := r.isCaptureOwner }

def containsC (c : Char) (s : Str) : Bool := s.contains c

/-- the flag update at the end of one parseArguments iteration -/
def argFlags (ast dflt : Bool) (f : Flags) : Flags :=
  { f with isBuiltinAsterisk := ast, isBuiltin := true, hasDefault := f.hasDefault || dflt }

/-- the `switch len(arg.Type)` of parseArguments: (baseType, arg.IsAsterisk afterwards) -/
def parseArgBase (arg : MethodArgument) : T × Bool :=
  match arg.type.toList with
  | [] => (NilT, arg.isAsterisk)
  | [s] =>
    (match s with
    | [] => (T.mk 0 [] .none none [] [] [] [] {} [] [] [], arg.isAsterisk)   -- zero value of base.T
    | '*' :: rest =>
      if !containsC '|' s && !containsC '[' s then (parseTypeString rest, true)
      else (parseTypeString s, arg.isAsterisk)
    | '?' :: rest =>
      if !containsC '|' s && !containsC '[' s then
        ((parseTypeString rest).setFl fun f => { f with hasDefault := true }, arg.isAsterisk)
      else (parseTypeString s, arg.isAsterisk)
    | _ =>
      if isNameSpace s then
        let (fr, pc, cl) := separateNameSpaces s
        ((T.makeObject cl).setFrame (calculateFrame fr pc), arg.isAsterisk)
      else (parseTypeString s, arg.isAsterisk))
  | l => (T.makeUnion (l.map parseTypeString), arg.isAsterisk)

/-- one iteration of builtin.parseArguments -/
def parseArgument (arg : MethodArgument) : T :=
  let b := parseArgBase arg
  let t := b.1.setFl (argFlags b.2 arg.isDefault)
  if arg.key == [] then t else T.makeKeyValue arg.key t

def parseArguments (args : List MethodArgument) : List T := args.map parseArgument

end RubyTi.Config

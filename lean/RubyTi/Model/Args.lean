import RubyTi.Model.T

/-!
# Model of the argument ordering of eval/method_evaluator/argument_process.go

`prioritizeArgTs`: positional arguments keep their order and come first, keyword arguments follow
sorted by key. `sort.Slice` is not stable and its algorithm is an implementation detail, so the
*specification* used in the theorems is "any permutation of the keyword arguments that is sorted
by key" (`IsPrioritized`); the executable `prioritize` (insertion sort) is one such result and is
what the `prio` correspondence stream compares with the real function.
-/
namespace RubyTi.Args
open RubyTi

/-- an argument at a call site: `key = none` positional, `some k` keyword -/
structure Arg (α : Type) where
  key : Option Str
  val : α
  deriving Repr, DecidableEq

/-- Go's string `<` on keys (bytewise = code point order for UTF-8) -/
def strLt : Str → Str → Bool
  | [], [] => false
  | [], _ :: _ => true
  | _ :: _, [] => false
  | a :: as, b :: bs => if a.toNat < b.toNat then true else if b.toNat < a.toNat then false else strLt as bs

def strLe (a b : Str) : Bool := !strLt b a

def keyOf {α} (a : Arg α) : Str := a.key.getD []

def insertByKey {α} (x : Arg α) : List (Arg α) → List (Arg α)
  | [] => [x]
  | y :: ys => if strLt (keyOf x) (keyOf y) then x :: y :: ys else y :: insertByKey x ys

/-- insertion sort by key (what `sort.Slice` does for fewer than 12 elements; stable) -/
def sortByKey {α} : List (Arg α) → List (Arg α)
  | [] => []
  | x :: xs => insertByKey x (sortByKey xs)

def named {α} (l : List (Arg α)) : List (Arg α) := l.filter (·.key.isSome)
def positional {α} (l : List (Arg α)) : List (Arg α) := l.filter (!·.key.isSome)

/-- executable prioritizeArgTs -/
def prioritize {α} (l : List (Arg α)) : List (Arg α) := positional l ++ sortByKey (named l)

/-- specification of *any* result `prioritizeArgTs` may produce -/
def IsPrioritized {α} (l out : List (Arg α)) : Prop :=
  ∃ s, out = positional l ++ s ∧ s.Perm (named l) ∧ s.Pairwise (fun a b => strLe (keyOf a) (keyOf b) = true)

/-- prioritizeDefineArgNames: names ending in ':' (length ≥ 2) go last, sorted -/
def isNamedDef (n : Str) : Bool := n.getLast? == some ':' && n.length ≥ 2

def insertStr (x : Str) : List Str → List Str
  | [] => [x]
  | y :: ys => if strLt x y then x :: y :: ys else y :: insertStr x ys

def sortStrs : List Str → List Str
  | [] => []
  | x :: xs => insertStr x (sortStrs xs)

def prioritizeDefineArgNames (names : List Str) : List Str :=
  names.filter (!isNamedDef ·) ++ sortStrs (names.filter isNamedDef)

end RubyTi.Args

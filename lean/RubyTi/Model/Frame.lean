import RubyTi.Model.T

/-!
# Model of `base.TFrame` as a Go map (base/t_frame.go, t_frame_key.go)

A Go map is modelled as an association list with map semantics: `insert` replaces the value of an
existing key (keeping its position) or appends; `lookup` returns the value of the key. All
observations go through `lookup`, so the position of an entry is unobservable — exactly like a Go
map. `FrameKey` has the fields of base/t_frame_key.go.
-/
namespace RubyTi.Frame
open RubyTi

structure FrameKey where
  frame : Str := []
  targetClass : Str := []
  targetMethod : Str := []
  targetVariable : Str := []
  isPrivate : Bool := false
  isStatic : Bool := false
  deriving Repr, DecidableEq

def methodKey (frame cls method : Str) (isPrivate : Bool) : FrameKey :=
  { frame := frame, targetClass := cls, targetMethod := method, isPrivate := isPrivate }

def classMethodKey (frame cls method : Str) (isPrivate : Bool) : FrameKey :=
  { frame := frame, targetClass := cls, targetMethod := method, isPrivate := isPrivate, isStatic := true }

def valueKey (frame cls method var : Str) (isStatic : Bool) : FrameKey :=
  { frame := frame, targetClass := cls, targetMethod := method, targetVariable := var, isStatic := isStatic }

abbrev Table (κ ν : Type) := List (κ × ν)

def lookup {κ ν} [DecidableEq κ] (t : Table κ ν) (k : κ) : Option ν :=
  match t with
  | [] => none
  | (k', v) :: rest => if k' = k then some v else lookup rest k

def insert {κ ν} [DecidableEq κ] (t : Table κ ν) (k : κ) (v : ν) : Table κ ν :=
  match t with
  | [] => [(k, v)]
  | (k', v') :: rest => if k' = k then (k, v) :: rest else (k', v') :: insert rest k v

def erase {κ ν} [DecidableEq κ] (t : Table κ ν) (k : κ) : Table κ ν :=
  t.filter (fun e => e.1 ≠ k)

theorem lookup_insert_self {κ ν} [DecidableEq κ] (t : Table κ ν) (k : κ) (v : ν) :
    lookup (insert t k v) k = some v := by
  induction t with
  | nil => simp [insert, lookup]
  | cons e rest ih =>
    obtain ⟨k', v'⟩ := e
    simp only [insert]
    split
    · simp [lookup]
    · rename_i h; simp [lookup, h, ih]

theorem lookup_insert_other {κ ν} [DecidableEq κ] (t : Table κ ν) (k q : κ) (v : ν) (h : k ≠ q) :
    lookup (insert t k v) q = lookup t q := by
  induction t with
  | nil => simp [insert, lookup, h]
  | cons e rest ih =>
    obtain ⟨k', v'⟩ := e
    simp only [insert]
    split
    · rename_i hk; subst hk; simp [lookup, h]
    · rename_i hk
      simp only [lookup]
      split
      · rfl
      · exact ih

end RubyTi.Frame

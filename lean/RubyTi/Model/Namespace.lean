import RubyTi.Model.Config

/-!
# Model of the lexical superclass lookup (base/defined_class.go: FindDefinedClassFrame)

`class B < A` inside `module M … module N` resolves the unqualified `A` in the enclosing
namespaces from the innermost outwards (`M::N`, then `M`), then at the top level (frame "").
A frame is modelled by its `::`-segments, innermost FIRST (`M::N` is `[N, M]`), so that the
enclosing namespaces of a frame are exactly its non-empty suffixes and "cut at the last `::`" is
`List.tail`. The string-level cutting (`strings.LastIndex(frame, "::")`) is tied by the `findns`
correspondence op, which splits/joins with the `splitNS`/`joinNS` models on generated names.
-/
namespace RubyTi.Namespace
open RubyTi

/-- DefinedClassTable: (frame segments innermost first, class) -/
abbrev Defined := List (List Str × Str)

def isDefined (tbl : Defined) (frame : List Str) (cls : Str) : Bool := tbl.contains (frame, cls)

/-- FindDefinedClassFrame: `[]` is the top level -/
def findDefined (tbl : Defined) (cls : Str) : List Str → List Str
  | [] => []
  | s :: outer => if isDefined tbl (s :: outer) cls then s :: outer else findDefined tbl cls outer

/-- LookupDefinedClassFrame: the lexical lookup plus whether a definition was found (the top level included) -/
def lookupDefined (tbl : Defined) (cls : Str) (frame : List Str) : List Str × Bool :=
  let f := findDefined tbl cls frame
  if f != [] then (f, true) else ([], isDefined tbl [] cls)

/-- Where `class X < P` (eval/class.go) looks for its superclass. `pf`/`pns` are what `SeparateNameSpaces`
splits off a qualified name (`[]`/`[]` for an unqualified one; the result for a qualified name is
`CalculateFrame pf pns`, given as `qualified`), `bc` the flat list of configured short names,
`builtin` the frame `Builtin`. A class the program defines itself (found lexically) is NOT the configured
class that shares its short name in some other frame. -/
def superclassFrame (tbl : Defined) (bc : List Str) (builtin : List Str) (ctxFrame : List Str)
    (unqualified : Bool) (noNamespace : Bool) (qualified : List Str) (cls : Str) : List Str :=
  let own := (lookupDefined tbl cls ctxFrame).2 && unqualified
  if !own && bc.contains cls && noNamespace then builtin
  else if unqualified then findDefined tbl cls ctxFrame
  else qualified

end RubyTi.Namespace

import RubyTi.Model.Config

/-!
# Model of the lexical superclass lookup (base/defined_class.go: FindDefinedClassFrame)

`class B < A` inside `module M … module N` resolves the unqualified `A` in the enclosing
namespaces from the innermost outwards (`M::N`, then `M`), then at the top level (frame "").
A frame is modelled by its `::`-segments, innermost FIRST (`M::N` is `[N, M]`), so that the
enclosing namespaces of a frame are exactly its non-empty suffixes and "cut at the last `::`" is
`List.tail`. The string-level cutting (`strings.LastIndex(frame, "::")`) is tied by the `findns`
correspondence op, which splits/joins with the `splitNS`/`joinNS` models on generated names.
-/
namespace RubyTi.Namespace
open RubyTi

/-- DefinedClassTable: (frame segments innermost first, class) -/
abbrev Defined := List (List Str × Str)

def isDefined (tbl : Defined) (frame : List Str) (cls : Str) : Bool := tbl.contains (frame, cls)

/-- FindDefinedClassFrame: `[]` is the top level -/
def findDefined (tbl : Defined) (cls : Str) : List Str → List Str
  | [] => []
  | s :: outer => if isDefined tbl (s :: outer) cls then s :: outer else findDefined tbl cls outer

end RubyTi.Namespace

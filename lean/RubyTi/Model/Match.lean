import RubyTi.Model.T

/-!
# Model of argument/parameter matching (base/t_predicate.go: IsMatchType, isCoveredBy,
isAcceptVariant, IsMatchUnionType; eval/method_evaluator/type_process.go: checkArgType)

Only the type tag, the object class and the variants of a `T` take part. `checkArg d a = true`
means checkArgType returns no error for declared parameter type `d` and argument type `a`.
-/
namespace RubyTi.Match
open RubyTi Gen.Tok

def isUnion (t : T) : Bool := t.tag == UNION

/-- isCoveredBy: every typed variant of `t` has a variant of the same type (objects: same class) in `g` -/
def coveredBy (t g : T) : Bool :=
  t.variants.all fun v => v.tag == UNTYPED ||
    g.variants.any fun w => v.tag == w.tag && (v.tag != OBJECT || v.objectClass == w.objectClass)

def isMatchType (t g : T) : Bool :=
  if isUnion t && isUnion g then coveredBy t g && coveredBy g t
  else if t.tag == OBJECT && g.tag == OBJECT then t.objectClass == g.objectClass
  else t.tag == g.tag

/-- isAcceptVariant -/
def acceptVariant (t g : T) : Bool :=
  if t.tag == UNTYPED || g.tag == UNTYPED then true
  else if t.tag == OBJECT && g.tag == OBJECT then t.objectClass == g.objectClass
  else t.tag == g.tag

/-- IsMatchUnionType (receiver `t` is a union) -/
def isMatchUnionType (t g : T) : Bool :=
  if g.tag == UNION then g.variants.all fun gv => t.variants.any fun v => acceptVariant v gv
  else t.variants.any fun v => acceptVariant v g

/-- checkArgType: `true` = no error -/
def checkArg (d a : T) : Bool :=
  if a.tag == BLOCK then true
  else if d.tag == UNTYPED || a.tag == UNTYPED || a.tag == UNKNOWN then true
  else if isMatchType d a then true
  else if d.tag == UNION then isMatchUnionType d a
  else if a.tag == UNION then isMatchUnionType a d
  else false

/-! ## the reference notions of the statements of C07 / C08 -/

/-- the possible (non-union) values of an argument type -/
def possible (a : T) : List T := if a.tag == UNION then a.variants else [a]

/-- the declared parameter type `d` admits a value of the non-union type `v` -/
def admits (d v : T) : Bool :=
  if d.tag == UNION then d.variants.any fun p => acceptVariant p v else acceptVariant d v

end RubyTi.Match

import RubyTi.Model.Inherit
import RubyTi.Model.Sig

/-!
# Model of completion filtering (cmd/out.go: isSuggest, isParentClass)

`isParentClass` walks `ClassInheritanceMap` from a class node; `seen` (added by the cyclic-
inheritance `fix:` commit) is keyed by the full node including its include/extend flags.
The captured target `T` is reduced to the fields `isSuggest` reads; `calculateObjectClassAndIsStatic`
is a parameter (its result is the pair `objectClass`, `isStaticTarget`).
-/
namespace RubyTi.Suggest
open RubyTi RubyTi.Frame RubyTi.Inherit RubyTi.Sig

structure Target where
  definedFrame : Str := []
  definedClass : Str := []
  isStatic : Bool := false
  frame : Str := []
  objectClass : Str := []        -- result of calculateObjectClassAndIsStatic
  isStaticTarget : Bool := false
  /-- `targetT.GetType() != base.OBJECT`: the Defined* fields describe the cursor's context only then;
  an object built by `new` carries those of the `new` method (fix: commit "completion for an object built by new") -/
  isContext : Bool := true
  deriving Repr

def normFrame (bc : List Str) (frame cls : Str) : Str :=
  if frame == [] && bc.contains cls then "Builtin".toList else frame

def NEW : Str := "new".toList

mutual
def isParent (fuel : Nat) (g : Inh) (bc : List Str) (sig : Sig) (frame cls : Str) (st ext inc : Bool)
    (seen : List Node) : Bool × List Node :=
  match fuel with
  | 0 => (false, seen)
  | fuel + 1 =>
    let node : Node := { frame := frame, cls := cls, isInclude := inc, isExtend := ext }
    if seen.contains node then (false, seen)
    else
      let seen := node :: seen
      if ext && !st then (false, seen)
      else if inc && st then (false, seen)
      else if sig.isStatic != st then (false, seen)
      else if sig.method == NEW then (false, seen)
      else if sig.frame == normFrame bc frame cls && sig.cls == cls then (true, seen)
      else isParentList fuel g bc sig (parentsOf g (normFrame bc frame cls) cls) st seen
termination_by (fuel, 0)

def isParentList (fuel : Nat) (g : Inh) (bc : List Str) (sig : Sig) (ps : List Node) (st : Bool)
    (seen : List Node) : Bool × List Node :=
  match ps with
  | [] => (false, seen)
  | p :: rest =>
    match isParent fuel g bc sig p.frame p.cls st p.isExtend p.isInclude seen with
    | (true, s) => (true, s)
    | (false, s) => isParentList fuel g bc sig rest st s
termination_by (fuel, ps.length + 1)
end

def KERNEL : Str := "Kernel".toList

def isSuggest (fuel : Nat) (g : Inh) (bc : List Str) (t : Target) (sig : Sig) : Bool :=
  if sig.cls == [] then false
  else if sig.cls == KERNEL then false
  else if t.objectClass.length < 1 then false
  else if sig.isPrivate && (!t.isContext || sig.cls != t.definedClass) then false
  else if t.isContext && sig.cls == t.definedClass && sig.isStatic == t.isStatic then true
  else if t.isContext && (isParent fuel g bc sig t.definedFrame t.definedClass t.isStatic false false []).1 then true
  else if t.isStaticTarget != sig.isStatic then false
  else if sig.cls == t.objectClass then true
  else (isParent fuel g bc sig t.frame t.objectClass t.isStaticTarget false false []).1

/-! ## `calculateObjectClassAndIsStatic` and the lower-case receiver rule

The captured `T` is seen through the accessors the Go code calls (`IsClassType`, `ToString`,
`GetType`, `GetObjectClass`, `GetFrame`, `GetBeforeEvaluateCode`) and its exported fields. Names are
compared on their first byte (`rune(target[0])`), as the Go code does. -/

inductive TyTag where
  | self | int | float | array | hash | string | object | unknown | other
  deriving Repr, DecidableEq

structure TView where
  isClassType : Bool
  str : Str                -- ToString()
  ty : TyTag               -- GetType()
  objectClass : Str        -- GetObjectClass()
  frame : Str              -- GetFrame()
  before : Str             -- GetBeforeEvaluateCode()
  definedFrame : Str
  definedClass : Str
  definedMethod : Str
  isStatic : Bool
  deriving Repr

def firstUpper (s : Str) : Bool :=
  match s with
  | [] => false
  | c :: _ => isUpper c.toNat

def calcObjectClass (v : TView) : Str × Bool :=
  if v.isClassType then (v.str, true)
  else
    let st := match v.before with
      | [] => firstUpper v.str
      | _ => firstUpper v.before
    if v.ty == .self && !st then (v.definedClass, false)
    else
      let valueLike := v.ty == .int || v.ty == .float || v.ty == .array || v.ty == .hash || v.ty == .string || v.ty == .object
      if valueLike then (v.objectClass, false)
      else if v.ty == .unknown && !st then
        (if v.definedMethod == [] then (v.definedClass, true) else (v.definedClass, v.isStatic))
      else if v.before == [] || st then (v.str, st)
      else (v.objectClass, st)

def TView.target (v : TView) : Target :=
  let r := calcObjectClass v
  { definedFrame := v.definedFrame, definedClass := v.definedClass, isStatic := v.isStatic, frame := v.frame,
    objectClass := r.1, isStaticTarget := r.2, isContext := v.ty != .object }

/-- isSuggestForKernelOrObjectClass -/
def kernelRule (v : TView) (sigCls : Str) : Bool :=
  if v.str.length == 0 then false
  else if firstUpper v.str then false
  else sigCls == [] || sigCls == KERNEL

/-- one signature of the default (non-union) branch of PrintSuggestionsForLsp is printed -/
def listed (fuel : Nat) (g : Inh) (bc : List Str) (v : TView) (sig : Sig) : Bool :=
  kernelRule v sig.cls || isSuggest fuel g bc v.target sig

end RubyTi.Suggest

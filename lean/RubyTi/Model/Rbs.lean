import RubyTi.Model.Args

/-!
# Model of cmd/rbs2json: convertArguments

A parameter is its already-converted ti type list (`convertType` is exercised, not modelled). The
two keyword maps are Go maps: the model takes them as lists in *arbitrary* order; after the `fix:`
commit the code sorts the names before emitting, which `kwSorted` models as insertion sort (any
sorted permutation is the same list when the names are distinct — `C25.rbs_perm`).
-/
namespace RubyTi.Rbs
open RubyTi RubyTi.Args

structure TiArgument where
  type : List Str := []
  key : Str := []
  isAsterisk : Bool := false
  isDefault : Bool := false
  deriving Repr, DecidableEq

/-- a positional parameter: `none` = no type recorded (skipped by the converter) -/
abbrev Param := Option (List Str)

structure FuncType where
  required : List Param := []
  optional : List Param := []
  rest : Option Param := none          -- `some none` = rest parameter without a type
  trailing : List Param := []
  requiredKw : List (Str × Param) := []    -- a Go map: arbitrary order, distinct names
  optionalKw : List (Str × Param) := []
  deriving Repr

def insertKw (x : Str × Param) : List (Str × Param) → List (Str × Param)
  | [] => [x]
  | y :: ys => if strLt x.1 y.1 then x :: y :: ys else y :: insertKw x ys

def kwSorted : List (Str × Param) → List (Str × Param)
  | [] => []
  | x :: xs => insertKw x (kwSorted xs)

def positionals (ps : List Param) (dflt : Bool) : List TiArgument :=
  ps.filterMap fun p => p.map fun t => { type := t, isDefault := dflt }

def keywords (ks : List (Str × Param)) (dflt : Bool) : List TiArgument :=
  (kwSorted ks).filterMap fun (n, p) => p.map fun t => { type := t, key := n ++ [':'], isDefault := dflt }

def convertArguments (f : FuncType) : List TiArgument :=
  positionals f.required false ++ positionals f.optional true ++
  (match f.rest with
   | none => []
   | some p => [{ type := p.getD [], isAsterisk := true }]) ++
  positionals f.trailing false ++ keywords f.requiredKw false ++ keywords f.optionalKw true

end RubyTi.Rbs

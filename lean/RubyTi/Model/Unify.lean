import RubyTi.Model.T
import RubyTi.Model.Match

/-!
# Model of union / array / hash normalisation (base/t_accessors.go: AppendVariant, AppendHashVariant;
base/t_util.go: UnifyVariants, MergeHash, StrictHashReference, HashReference; base/t_factory.go:
MakeUnifiedT; base/t_predicate.go: IsEqualObject) and of type rendering (base/type.go)

The Go code mutates the receiver in place; the model returns the receiver's new value. Sharing
between values (slices whose backing array is still referenced elsewhere) is not represented:
C12 is about that. The mutual recursion (a union inside an array inside a union …) is bounded
by `fuel`; the `unify`/`render` correspondence ops run with fuel far above the nesting depth of
what they generate.
-/
namespace RubyTi.Unify
open RubyTi Gen.Tok

def isEqualObject (t g : T) : Bool :=
  if t.variants.isEmpty && g.variants.isEmpty then t.tag == g.tag
  else t.variants.any fun v => v.tag == g.tag && v.objectClass == g.objectClass

/-- GetKeyValue -/
def keyValue (kv : T) : T := kv.tval.getD T.makeUntyped

/-- AppendHashVariant -/
def appendHashVariant (t kv : T) : T :=
  if t.variants.any (fun v => v.key == kv.key) then
    t.setVariants (t.variants.map fun v => if v.key == kv.key then kv else v)
  else t.setVariants (t.variants ++ [kv])

/-- StrictHashReference -/
def strictHashRef (t : T) (key : Str) : T :=
  match t.variants.find? (fun v => v.key == key) with
  | some v => keyValue v
  | none => T.makeNil

def setAt (l : List T) (i : Nat) (x : T) : List T := l.set i x

mutual
/-- AppendVariant: the new value of `t` -/
def appendVariant : Nat → T → T → T
  | 0, t, _ => t
  | fuel + 1, t, v =>
    if v.tag == UNION then v.variants.foldl (fun acc u => appendVariant fuel acc u) t
    else if v.tag == HASH then
      match t.variants.findIdx? (fun x => x.tag == HASH) with
      | some i => t.setVariants (setAt t.variants i (mergeHash fuel (t.variants.getD i T.makeNil) v))
      | none => t.setVariants (t.variants ++ [v])
    else if v.tag == ARRAY then
      if t.variants.isEmpty then t.setVariants [v]
      else if t.variants.any (fun x => x.tag == ARRAY) then
        t.setVariants (t.variants.map fun cur =>
          if cur.tag == ARRAY then T.makeArray (mergeArrayVariants fuel cur.variants v.variants 0) else cur)
      else t.setVariants (t.variants ++ [v])
    else if !isEqualObject t v then t.setVariants (t.variants ++ [v])
    else t

/-- the positional merge loop of the ARRAY case: `cur` are the current array's variants -/
def mergeArrayVariants : Nat → List T → List T → Nat → List T
  | 0, cur, _, _ => cur
  | _, cur, [], _ => cur
  | fuel + 1, cur, tv :: rest, idx =>
    let cur1 := if idx ≥ cur.length then cur ++ [tv] else cur
    let here := cur1.getD idx T.makeNil
    let cur2 :=
      if isEqualObject here tv then cur1
      else if here.tag == UNION then setAt cur1 idx (appendVariant fuel here tv)
      else setAt cur1 idx (makeUnifiedT fuel [here, tv])
    mergeArrayVariants fuel cur2 rest (idx + 1)

/-- MergeHash -/
def mergeHash : Nat → T → T → T
  | 0, t, _ => t
  | fuel + 1, t, v =>
    if t.tag != HASH || v.tag != HASH then t
    else v.variants.foldl (fun acc kv =>
      let newV := keyValue kv
      -- hashEntry: only a key that is absent is added as it is (a stored nil is a value like any other)
      match acc.variants.find? (fun x => x.key == kv.key) with
      | none => appendHashVariant acc kv
      | some e =>
        let existT := keyValue e
        if existT.tag == UNION then
          -- the Go code appends to the stored union in place when the new value is not matched by it
          (if Match.isMatchUnionType existT newV then acc
           else appendHashVariant acc (T.makeKeyValue kv.key (appendVariant fuel existT newV)))
        else if existT.tag == newV.tag then acc
        else appendHashVariant acc (T.makeKeyValue kv.key (makeUnifiedT fuel [existT, newV]))) t

/-- UnifyVariants -/
def unifyVariants : Nat → T → T
  | 0, t => t
  | fuel + 1, t =>
    let items := if t.tag == HASH then t.variants.map keyValue else t.variants
    let u := items.foldl (fun acc v => appendVariant fuel acc v) (T.makeUnion [])
    match u.variants with
    | [] => T.makeUntyped
    | [x] => x
    | [a, b] =>
      let narrowed := if b.tag != UNKNOWN then some b else if a.tag != UNKNOWN then some a else none
      let isNarrowed := a.tag == UNKNOWN || b.tag == UNKNOWN
      match narrowed with
      | some n => if isNarrowed then n else u
      | none => u
    | _ => u

/-- MakeUnifiedT -/
def makeUnifiedT : Nat → List T → T
  | 0, vs => T.makeUnion vs
  | fuel + 1, vs => unifyVariants fuel (T.makeUnion vs)
end

/-! ## rendering (base/type.go) -/

def scalarName (t : T) : String :=
  match Gen.typeNames.find? (fun p => p.1 == t.tag) with
  | some p => p.2
  | none => "?"

mutual
def typeToString : Nat → T → String
  | 0, _ => "…"
  | fuel + 1, t =>
    if t.tag == ARRAY then arrayTypeToString fuel t
    else if t.tag == UNION then unionTypeToString fuel t.variants
    else if t.tag == OBJECT then
      (if t.frame == [] || t.frame == "Builtin".toList then String.ofList t.objectClass
       else String.ofList t.frame ++ "::" ++ String.ofList t.objectClass)
    else if t.tag == CLASS then
      (match t.sval with | .str s => String.ofList s | .i64 => "Integer" | .f64 => "Float" | _ => "Unknown")
    else scalarName t

def arrayTypeToString : Nat → T → String
  | 0, _ => "…"
  | fuel + 1, t =>
    let u := unifyVariants (fuel + 8) t
    if u.tag != UNION then "Array<" ++ typeToString fuel u ++ ">"
    else if u.variants.isEmpty then "Array<untyped>"
    else "Array<" ++ " ".intercalate (u.variants.map fun v =>
      if v.tag == UNION then unionTypeToString fuel v.variants else typeToString fuel v) ++ ">"

def unionTypeToString : Nat → List T → String
  | 0, _ => "…"
  | fuel + 1, vs =>
    -- the Go code drops the last character of what it has built so far: for no variants that is the `<`
    if vs.isEmpty then "Union>" else
    "Union<" ++ " ".intercalate (vs.map fun v =>
      if v.tag == UNION then unionTypeToString fuel v.variants else typeToString fuel v) ++ ">"
end

end RubyTi.Unify

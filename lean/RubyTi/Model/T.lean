import RubyTi.Basic

/-!
# Model of `base.T` (base/t.go) and the factories of base/t_factory.go

`T` is a nested inductive (variants, block parameters, overloads are lists of `T`; the value of a
KEYVALUE / BLOCK is a `T`).  Strings are `List Char`.  Fields that never influence a type or a
diagnostic (`ID`, `owner`, `Round`, `IsBeforeSpace`, `beforeEvaluateCode`, `Defined*`) are carried
only by the models that need them.  The `factory` / `builtin` correspondence ops print every value
built here next to the one the Go code builds.
-/
namespace RubyTi

abbrev Str := List Char

/-- the dynamic type of `T.val` (`any` in Go) when it is not a `*T` -/
inductive SVal where
  | none
  | str (s : Str)
  | i64          -- int64 (integer literal from the lexer)
  | int          -- untyped constant 1 (`MakeAnyInt`, `MakeAnyFloat`)
  | f64
  deriving Repr, DecidableEq, Inhabited

structure Flags where
  hasDefault : Bool := false
  isBuiltin : Bool := false
  isInferredFromCall : Bool := false
  isBuiltinAsterisk : Bool := false
  isConditionalReturn : Bool := false
  isDestructive : Bool := false
  isReadOnly : Bool := false
  isBlockGiven : Bool := false
  isProtected : Bool := false
  isStatic : Bool := false
  isCaptureOwner : Bool := false
  isExtend : Bool := false
  isInclude : Bool := false
  deriving Repr, DecidableEq, Inhabited

inductive T where
  | mk (tag : Int) (objectClass : Str) (sval : SVal) (tval : Option T) (key frame method : Str)
       (defineArgs : List Str) (fl : Flags) (variants blockParams overloads : List T)
  deriving Repr, Inhabited

namespace T

def tag : T → Int | mk t .. => t
def objectClass : T → Str | mk _ o .. => o
def sval : T → SVal | mk _ _ s .. => s
def tval : T → Option T | mk _ _ _ v .. => v
def key : T → Str | mk _ _ _ _ k .. => k
def frame : T → Str | mk _ _ _ _ _ f .. => f
def method : T → Str | mk _ _ _ _ _ _ m .. => m
def defineArgs : T → List Str | mk _ _ _ _ _ _ _ a .. => a
def fl : T → Flags | mk _ _ _ _ _ _ _ _ f .. => f
def variants : T → List T | mk _ _ _ _ _ _ _ _ _ v .. => v
def blockParams : T → List T | mk _ _ _ _ _ _ _ _ _ _ b _ => b
def overloads : T → List T | mk _ _ _ _ _ _ _ _ _ _ _ o => o

def setFl (t : T) (f : Flags → Flags) : T :=
  match t with | mk a b c d e g h i fl j k l => mk a b c d e g h i (f fl) j k l
def setVariants (t : T) (vs : List T) : T :=
  match t with | mk a b c d e g h i fl _ k l => mk a b c d e g h i fl vs k l
def setBlockParams (t : T) (bs : List T) : T :=
  match t with | mk a b c d e g h i fl j _ l => mk a b c d e g h i fl j bs l
def setOverloads (t : T) (os : List T) : T :=
  match t with | mk a b c d e g h i fl j k _ => mk a b c d e g h i fl j k os
def setFrame (t : T) (f : Str) : T :=
  match t with | mk a b c d e _ h i fl j k l => mk a b c d e f h i fl j k l
def setKey (t : T) (kk : Str) : T :=
  match t with | mk a b c d _ g h i fl j k l => mk a b c d kk g h i fl j k l
def setMethod (t : T) (fr m : Str) (args : List Str) : T :=
  match t with | mk a b c d e _ _ _ fl j k l => mk a b c d e fr m args fl j k l

/-- `NewT(objectClass, tag, val)` with a non-`*T` value -/
def new (oc : String) (tag : Int) (v : SVal) : T :=
  mk tag oc.toList v none [] [] [] [] {} [] [] []

def newS (oc : String) (tag : Int) (v : String) : T := new oc tag (.str v.toList)

open Gen.Tok in
section
def makeNil : T := newS "NilClass" NIL "nil"
def makeInt : T := new "Integer" INT .i64
def makeAnyInt : T := new "Integer" INT .int
def makeBuiltinDefaultInt : T := (new "Integer" INT .int).setFl fun f => { f with hasDefault := true, isBuiltin := true }
def makeFloat : T := new "Float" FLOAT .f64
def makeAnyFloat : T := new "Float" FLOAT .int
def makeBuiltinDefaultFloat : T := (new "Float" FLOAT .int).setFl fun f => { f with hasDefault := true, isBuiltin := true }
def makeString (s : Str) : T := new "String" STRING (.str s)
def makeAnyString : T := newS "String" STRING "String"
def makeBuiltinDefaultString : T := (newS "String" STRING "String").setFl fun f => { f with hasDefault := true, isBuiltin := true }
def makeArray (vs : List T) : T := (newS "Array" ARRAY "array").setVariants vs
def makeAnyArray : T := newS "Array" ARRAY "array"
def makeStringArray : T := makeArray [makeAnyString]
def makeIntArray : T := makeArray [makeAnyInt]
def makeFloatArray : T := makeArray [makeAnyFloat]
def makeAnyHash : T := newS "Hash" HASH "hash"
def makeRange : T := newS "Range" RANGE "range"
def makeBool : T := newS "Bool" BOOL "bool"
def makeBuiltinDefaultBool : T := (newS "Bool" BOOL "bool").setFl fun f => { f with hasDefault := true, isBuiltin := true }
def makeIdentifier (s : Str) : T := new "Identifier" UNKNOWN (.str s)
def makeUnknown : T := newS "Unknown" UNKNOWN "unknown"
def makeObject (s : Str) : T := mk OBJECT s (.str s) none [] [] [] [] {} [] [] []
def makeClass (s : Str) : T := mk CLASS s (.str s) none [] [] [] [] {} [] [] []
def makeConst (s : Str) : T := mk CONST s (.str s) none [] [] [] [] {} [] [] []
def makeUnion (vs : List T) : T := (newS "Union" UNION "union").setVariants vs
def makeBlock : T := newS "Block" BLOCK "block"
def makeBuiltinDefaultBlock : T := (newS "Block" BLOCK "block").setFl fun f => { f with hasDefault := true, isBuiltin := true }
def makeUntyped : T := newS "Untyped" UNTYPED "untyped"
def makeBuiltinDefaultUntyped : T := (newS "Untyped" UNTYPED "untyped").setFl fun f => { f with hasDefault := true, isBuiltin := true }
def makeSelf : T := newS "Self" SELF "self"
def makeUnify : T := newS "Unify" UNIFY "unify"
def makeOptionalUnify : T := newS "OptiionalUnify" OPTIONAL_UNIFY "optionalUnify"
def makeSelfArray : T := newS "SelfArray" SELF_ARRAY "selfArray"
def makeArgument : T := newS "Argument" ARGUMENT "argument"
def makeUnifyArgument : T := newS "UnifyArgument" UNIFY_ARGUMENT "unifyArgument"
def makeSymbol (s : Str) : T := new "Symbol" SYMBOL (.str s)
def makeAnySymbol : T := newS "Symbol" SYMBOL "symbol"
def makeKeyValue (k : Str) (v : T) : T := mk KEYVALUE "KeyValue".toList .none (some v) k [] [] [] {} [] [] []
def makeBlockResultArray : T := newS "BlockResultArray" BLOCK_RESULT_ARRAY "blockResultArray"
def makeKeyArray : T := makeArray [makeUnion [makeAnyString, makeAnySymbol]]
def makeKeyValueArray : T := newS "KeyValueArray" KEYVALUE_ARRAY "keyValueArray"
def makeFlatten : T := newS "FLATTEN" FLATTEN "flatten"
def makeItem : T := newS "ITEM" ITEM "Item"
def makeOwner : T := newS "Owner" OWNER "Owner"
end

/-! ## canonical encoding (same text as `base.VerifEncodeT`) -/

def encStr (s : Str) : String :=
  "\"" ++ String.join (s.map fun c => if c == '"' then "\\\"" else if c == '\\' then "\\\\" else c.toString) ++ "\""

def encFlags (f : Flags) : String :=
  let b (x : Bool) := if x then "1" else "0"
  b f.hasDefault ++ b f.isBuiltin ++ b f.isInferredFromCall ++ b f.isBuiltinAsterisk ++ b f.isConditionalReturn ++
  b f.isDestructive ++ b f.isReadOnly ++ b f.isBlockGiven ++ b f.isProtected ++ b f.isStatic ++ b f.isCaptureOwner ++
  b f.isExtend ++ b f.isInclude

mutual
def enc : T → String
  | mk tag oc sv tv key fr m args fl vs bs os =>
    let v := match sv, tv with
      | _, some t => "t" ++ enc t
      | .str s, none => "s" ++ encStr s
      | .i64, none => "i"
      | .int, none => "I"
      | .f64, none => "f"
      | .none, none => "n"
    "(" ++ toString tag ++ " " ++ encStr oc ++ " " ++ v ++ " " ++ encStr key ++ " " ++ encStr fr ++ " " ++ encStr m ++
    " [" ++ " ".intercalate (args.map encStr) ++ "] " ++ encFlags fl ++ " [" ++ encList vs ++ "] [" ++ encList bs ++
    "] [" ++ encList os ++ "])"
def encList : List T → String
  | [] => ""
  | [t] => enc t
  | t :: ts => enc t ++ " " ++ encList ts
end

end T
end RubyTi

import RubyTi.Model.Frame

/-!
# Model of method resolution through `ClassInheritanceMap` (base/t_frame.go)

`getParentMethodT` (after the `fix:` commit that threads the set of entered class nodes) walks
the parents of a class depth-first: an `extend` edge contributes its instance methods to class
(static) lookups, an `include` edge to instance lookups, neither is followed further; an
ordinary (superclass) edge is looked up directly and then followed recursively. A class node that
has already been entered ends that branch (cyclic declarations). `GetMethodT` tries the class
itself, its parents, then the same in the `Builtin` frame, then `Builtin::<frame>`.
The method table is the Go-map model of `Frame`; a lookup result is the key under which the method
was found (so theorems can say *which* definition is resolved).
-/
namespace RubyTi.Inherit
open RubyTi RubyTi.Frame

structure Node where
  frame : Str := []
  cls : Str := []
  isInclude : Bool := false
  isExtend : Bool := false
  deriving Repr, DecidableEq

/-- ClassInheritanceMap: class node (frame, class) ↦ parents in insertion order -/
abbrev Inh := Table (Str × Str) (List Node)

/-- the implicit ancestor every class registers first: `ClassNode{Frame: "Builtin", Class: ""}` -/
def objectNode : Node := { frame := "Builtin".toList, cls := [], isInclude := false, isExtend := false }

/-- `base.AddParentNode`: an explicit ancestor (superclass, included / extended module, configured `extends`)
goes ahead of the implicit Object ancestor, behind the explicit ancestors recorded before it. -/
def addParent : List Node → Node → List Node
  | [], p => [p]
  | q :: rest, p => if q == objectNode then p :: q :: rest else q :: addParent rest p

def parentsOf (g : Inh) (frame cls : Str) : List Node := (lookup g (frame, cls)).getD []

abbrev Methods := Table FrameKey Unit      -- presence of a definition under a key

def has (tbl : Methods) (k : FrameKey) : Bool := (lookup tbl k).isSome

/-- `bc`: the short names of configured classes (any frame) that the program has not defined at top level
itself (`BuiltinClasses` minus the top-level entries of `DefinedClassTable`); an include/extend edge to such a
name without a frame is looked up in frame `Builtin`. -/
def builtinFrame (bc : List Str) (n : Node) : Str :=
  if n.frame == [] && bc.contains n.cls then "Builtin".toList else n.frame

def ordinaryKey (isStatic : Bool) (frame cls method : Str) (isPrivate : Bool) : FrameKey :=
  if isStatic then classMethodKey frame cls method isPrivate else methodKey frame cls method isPrivate

mutual
/-- getParentMethodTGuarded: returns the key of the resolved definition and the entered set -/
def walk (fuel : Nat) (tbl : Methods) (g : Inh) (bc : List Str) (frame cls method : Str) (isPrivate isStatic : Bool)
    (seen : List (Str × Str)) : Option FrameKey × List (Str × Str) :=
  match fuel with
  | 0 => (none, seen)
  | fuel + 1 =>
    if seen.contains (frame, cls) then (none, seen)
    else walkParents fuel tbl g bc (parentsOf g frame cls) method isPrivate isStatic ((frame, cls) :: seen)

def walkParents (fuel : Nat) (tbl : Methods) (g : Inh) (bc : List Str) (ps : List Node) (method : Str)
    (isPrivate isStatic : Bool) (seen : List (Str × Str)) : Option FrameKey × List (Str × Str) :=
  match ps with
  | [] => (none, seen)
  | p :: rest =>
    if p.isExtend then
      let k := methodKey (builtinFrame bc p) p.cls method isPrivate
      if has tbl k && isStatic then (some k, seen) else walkParents fuel tbl g bc rest method isPrivate isStatic seen
    else if p.isInclude then
      let k := methodKey (builtinFrame bc p) p.cls method isPrivate
      if has tbl k && !isStatic then (some k, seen) else walkParents fuel tbl g bc rest method isPrivate isStatic seen
    else
      let k := ordinaryKey isStatic p.frame p.cls method isPrivate
      if has tbl k then (some k, seen)
      else
        match walk fuel tbl g bc p.frame p.cls method isPrivate isStatic seen with
        | (some r, s) => (some r, s)
        | (none, s) => walkParents fuel tbl g bc rest method isPrivate isStatic s
end

/-- base.GetMethodT (instance method resolution) -/
def getMethodT (fuel : Nat) (tbl : Methods) (g : Inh) (bc : List Str) (frame cls method : Str) (isPrivate : Bool) : Option FrameKey :=
  let k0 := methodKey frame cls method isPrivate
  if has tbl k0 then some k0 else
  match (walk fuel tbl g bc frame cls method isPrivate false []).1 with
  | some r => some r
  | none =>
    let k1 := methodKey "Builtin".toList cls method isPrivate
    if has tbl k1 then some k1 else
    match (walk fuel tbl g bc "Builtin".toList cls method isPrivate false []).1 with
    | some r => some r
    | none =>
      let k2 := methodKey ("Builtin::".toList ++ frame) cls method isPrivate
      if frame != [] && frame != "Builtin".toList && has tbl k2 then some k2 else none

/-- base.GetClassMethodT (class method resolution; the walk in the Builtin frame was added by a `fix:` commit) -/
def getClassMethodT (fuel : Nat) (tbl : Methods) (g : Inh) (bc : List Str) (frame cls method : Str) (isPrivate : Bool) : Option FrameKey :=
  let k0 := classMethodKey frame cls method isPrivate
  if has tbl k0 then some k0 else
  let k1 := classMethodKey "Builtin".toList cls method isPrivate
  if has tbl k1 then some k1 else
  match (walk fuel tbl g bc frame cls method isPrivate true []).1 with
  | some r => some r
  | none =>
    match (walk fuel tbl g bc "Builtin".toList cls method isPrivate true []).1 with
    | some r => some r
    | none =>
      let k2 := classMethodKey ("Builtin::".toList ++ frame) cls method false
      if has tbl k2 then some k2 else
      let k3 := classMethodKey "Builtin".toList [] method false
      if has tbl k3 then some k3 else none


/-! ### The ancestor walk of the protected-method check (`isAncestorNode`, instance_method_strategy.go)

`ClassInheritanceMap` is keyed by the whole `ClassNode`, flags included, and classes register under a node
without flags: an include/extend edge is compared with the target but never followed. A node is marked as seen
on entry, which ends the walk on cyclic declarations. -/

def parentsOfNode (g : Inh) (n : Node) : List Node :=
  if n.isInclude || n.isExtend then [] else parentsOf g n.frame n.cls

mutual
def isAncestor (fuel : Nat) (g : Inh) (node target : Node) (seen : List Node) : Bool × List Node :=
  match fuel with
  | 0 => (false, seen)
  | fuel + 1 =>
    if seen.contains node then (false, seen)
    else anyAncestor fuel g (parentsOfNode g node) target (node :: seen)
def anyAncestor (fuel : Nat) (g : Inh) (ps : List Node) (target : Node) (seen : List Node) : Bool × List Node :=
  match ps with
  | [] => (false, seen)
  | p :: rest =>
    if p == target then (true, seen)
    else match isAncestor fuel g p target seen with
      | (true, s) => (true, s)
      | (false, s) => anyAncestor fuel g rest target s
end

/-- the protected check: the caller's class is the defining class or has it among its ancestors -/
def protectedOk (fuel : Nat) (g : Inh) (caller defined : Node) : Bool :=
  caller == defined || (isAncestor fuel g caller defined []).1

end RubyTi.Inherit

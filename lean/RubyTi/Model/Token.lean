import RubyTi.Model.Lexer

/-!
# Model of parser/read.go: getToken / Unget / Read / Skip / ReadAhead

Fields as in `parser.Parser` that the token layer touches: the lexer, `token`, `ungetFlg`, `Row`,
`ErrorRow`, `Lexer.IsSpacePrev` and the end-of-input budget `eosReads` (after the `fix:` commit
that makes runaway reads past the end of the input unwind with `ErrUnexpectedEOF`).
`bc` is `base.BuiltinClasses` (the flat list of configured class names).
-/
namespace RubyTi.Token
open RubyTi RubyTi.Lexer

def EOS : Int := Gen.Tok.EOS
def maxEOSReads : Nat := 1000

structure PState where
  lx : LState := {}
  isSpacePrev : Bool := false
  token : Int := 0
  ungetFlg : Bool := false
  row : Nat := 1
  errorRow : Nat := 0
  eosReads : Nat := 0
  deriving Repr

/-- countEOS: `none` models `panic(ErrUnexpectedEOF)`. -/
def countEOS (p : PState) : Option PState :=
  if p.eosReads + 1 > maxEOSReads then none else some { p with eosReads := p.eosReads + 1 }

def getToken (p : PState) : Option PState :=
  if p.ungetFlg then
    let p := { p with ungetFlg := false, lx := { p.lx with isSpace := p.isSpacePrev } }
    if p.token == EOS then countEOS p else some p
  else
    match advance p.lx with
    | (true, lx') =>
      let p := { p with lx := lx', token := lx'.tok }
      let p := if lx'.tok == 10 then { p with row := p.row + 1 } else { p with errorRow := p.row }
      let p := match lx'.val with
        | .str s => if lx'.tok == TOK_STRING then { p with row := p.row + s.count 10 } else p
        | _ => p
      some p
    | (false, lx') => countEOS { p with lx := lx', token := EOS }

def unget (p : PState) : PState := { p with ungetFlg := true }

/-- kinds of `base.T` that Read builds (tag numbers are Go's constants) -/
inductive TK where
  | int | float | nil | bool
  | str (s : List Rune)
  | ident (n : List Rune)
  | cls (n : List Rune)
  | const (n : List Rune)
  | symbol (n : List Rune)
  deriving Repr, DecidableEq

def utf8Len (r : Rune) : Nat := if r < 0x80 then 1 else if r < 0x800 then 2 else if r < 0x10000 then 3 else 4
def byteLen (s : List Rune) : Nat := (s.map utf8Len).sum

def firstByte (s : List Rune) : Nat := match s with | [] => 0 | c :: _ => utf8Lead c

def TRUE_ : List Rune := [116, 114, 117, 101]
def FALSE_ : List Rune := [102, 97, 108, 115, 101]

/-- t_predicate.go:IsClassIdentifier on an identifier name (non-empty by `C03.kind_defined`) -/
def isClassIdent (bc : List (List Rune)) (n : List Rune) : Bool :=
  bc.contains n || (isUpper (firstByte n) && n.any isLower)

def isConstIdent (bc : List (List Rune)) (n : List Rune) : Bool :=
  decide (byteLen n ≥ 2) && !bc.contains n && isUpper (firstByte n) && !n.any (fun c => c == 58 || isLower c)

def isSymbolIdent (n : List Rune) : Bool := decide (byteLen n > 1) && firstByte n == 58

/-- t_predicate.go:IsVariableIdentifier on an identifier name: what a pattern, a block or a method header binds -/
def isVariableIdent (n : List Rune) : Bool :=
  n != [] && (firstByte n == 64 || firstByte n == 36 || firstByte n == 95 || isLower (firstByte n))

def classify (bc : List (List Rune)) (n : List Rune) : TK :=
  if n == TRUE_ || n == FALSE_ then .bool
  else if isClassIdent bc n then .cls n
  else if isConstIdent bc n then .const n
  else if isSymbolIdent n then .symbol n
  else .ident n

inductive ReadOut where
  | tok (k : TK) (beforeSpace : Bool)
  | eos
  | readError
  | assertPanic
  deriving Repr

/-- Parser.Read: `none` = ErrUnexpectedEOF panic. -/
def read (bc : List (List Rune)) (p : PState) : Option (ReadOut × PState) :=
  match getToken p with
  | none => none
  | some p =>
    let fin (k : TK) : Option (ReadOut × PState) :=
      some (.tok k p.lx.isSpace, { p with isSpacePrev := p.lx.isSpace, lx := { p.lx with isSpace := false } })
    match readKind' p.token p.lx.val with
    | .int => fin .int
    | .float => fin .float
    | .str => (match p.lx.val with | .str s => fin (.str s) | _ => some (.assertPanic, p))
    | .nil => fin .nil
    | .single => fin (.ident [p.token.toNat])
    | .ident => (match p.lx.val with | .ident n => fin (classify bc n) | _ => some (.assertPanic, p))
    | .eos => some (.eos, p)
    | .readError => some (.readError, p)
    | .assertPanic => some (.assertPanic, p)

def skip (p : PState) : Option PState := getToken p

def readAhead (bc : List (List Rune)) (p : PState) : Option (ReadOut × PState) :=
  match read bc p with
  | none => none
  | some (.readError, p') => some (.readError, p')
  | some (o, p') => some (o, unget p')

end RubyTi.Token

import RubyTi.Model.Config
/-! Helper lemmas about the type-notation parser model. -/
namespace RubyTi.Config
open RubyTi

/-- a type name without notation characters -/
def plainC (c : Char) : Bool :=
  c != '|' && c != '[' && c != ']' && c != '?' && c != '*' && c != ':' && !isSpaceC c

def plain (s : Str) : Bool := !s.isEmpty && s.all plainC

theorem plain_no_bar {s : Str} (h : plain s = true) : '|' ∉ s := by
  intro hm
  simp [plain, List.all_eq_true] at h
  have := h.2 _ hm
  simp [plainC] at this

theorem parseTypeString_plain {s : Str} (h : plain s = true) : parseTypeString s = convertToBuiltinT s := by
  have hbar := plain_no_bar h
  cases s with
  | nil => simp [plain] at h
  | cons c rest =>
    have hc : plainC c = true := by
      simp [plain, List.all_eq_true] at h; exact h.1
    simp [plainC] at hc
    rw [parseTypeString]
    simp [hc, hbar]

theorem trimSpace_plain {s : Str} (h : plain s = true) : trimSpace s = s := by
  have hns : ∀ c ∈ s, isSpaceC c = false := by
    intro c hc
    simp [plain, List.all_eq_true] at h
    have := h.2 c hc
    simp [plainC] at this
    simpa using this.2
  have dw : ∀ l : Str, (∀ c ∈ l, isSpaceC c = false) → l.dropWhile isSpaceC = l := by
    intro l hl
    cases l with
    | nil => rfl
    | cons a t => simp [List.dropWhile, hl a (by simp)]
  unfold trimSpace
  rw [dw s hns, dw s.reverse (by intro c hc; exact hns c (by simpa using hc))]
  simp

/-- "a|b|c" -/
def joinBar : List Str → Str
  | [] => []
  | [a] => a
  | a :: rest => a ++ '|' :: joinBar rest

theorem splitOnChar_noBar {s : Str} (h : '|' ∉ s) : splitOnChar '|' s = [s] := by
  induction s with
  | nil => rfl
  | cons x xs ih =>
    simp at h
    simp only [splitOnChar]
    have hx : (x == '|') = false := by simp; exact fun e => h.1 e.symm
    simp [hx, ih h.2]

theorem splitOnChar_append {a : Str} (rest : Str) (h : '|' ∉ a) :
    splitOnChar '|' (a ++ '|' :: rest) = a :: splitOnChar '|' rest := by
  induction a with
  | nil => simp [splitOnChar]
  | cons x xs ih =>
    simp at h
    have hx : (x == '|') = false := by simp; exact fun e => h.1 e.symm
    simp only [List.cons_append, splitOnChar, hx]
    rw [ih h.2]
    simp

theorem splitOnChar_joinBar (parts : List Str) (hp : ∀ p ∈ parts, plain p = true) (hne : parts ≠ []) :
    splitOnChar '|' (joinBar parts) = parts := by
  induction parts with
  | nil => exact absurd rfl hne
  | cons a rest ih =>
    cases rest with
    | nil => simp [joinBar]; exact splitOnChar_noBar (plain_no_bar (hp a (by simp)))
    | cons b rest' =>
      simp only [joinBar]
      rw [splitOnChar_append _ (plain_no_bar (hp a (by simp)))]
      rw [ih (fun p h => hp p (by simp [h])) (by simp)]

theorem joinBar_mem_bar (a b : Str) (rest : List Str) : '|' ∈ joinBar (a :: b :: rest) := by
  simp [joinBar]

theorem joinBar_head (a : Str) (rest : List Str) (ha : plain a = true) :
    ∃ c tl, joinBar (a :: rest) = c :: tl ∧ plainC c = true := by
  cases a with
  | nil => simp [plain] at ha
  | cons c t =>
    have : plainC c = true := by simp [plain, List.all_eq_true] at ha; exact ha.1
    cases rest with
    | nil => exact ⟨c, t, rfl, this⟩
    | cons b r => exact ⟨c, _, rfl, this⟩

theorem parseTypeString_bar (c : Char) (tl : Str) (hc : plainC c = true) (hbar : '|' ∈ c :: tl) :
    parseTypeString (c :: tl) =
      T.makeUnion ((splitOnChar '|' (c :: tl)).map (fun p => parseTypeString (trimSpace p))) := by
  simp [plainC] at hc
  obtain ⟨⟨⟨⟨⟨⟨_, hb⟩, _⟩, hq⟩, ha⟩, _⟩, _⟩ := hc
  rw [parseTypeString]
  simp only [hbar, dite_true]
  simp [hq, ha, hb]

theorem map_trim_plain (parts : List Str) (hp : ∀ p ∈ parts, plain p = true) :
    parts.map (fun p => parseTypeString (trimSpace p)) = parts.map parseTypeString := by
  apply List.map_congr_left
  intro p hpm
  rw [trimSpace_plain (hp p hpm)]

theorem plainC_ne {c : Char} (hc : plainC c = true) : c ≠ '?' ∧ c ≠ '*' := by
  simp [plainC] at hc
  exact ⟨hc.1.1.1.2, hc.1.1.2⟩

theorem splitNS_noColon (s : Str) (h : ':' ∉ s) : splitNS s = [s] := by
  fun_induction splitNS s <;> simp_all

theorem plain_no_colon {s : Str} (h : plain s = true) : ':' ∉ s := by
  intro hm
  simp [plain, List.all_eq_true] at h
  have := h.2 _ hm
  simp [plainC] at this

theorem joinBar_no_colon (parts : List Str) (hp : ∀ p ∈ parts, plain p = true) : ':' ∉ joinBar parts := by
  induction parts with
  | nil => simp [joinBar]
  | cons a rest ih =>
    cases rest with
    | nil => simpa [joinBar] using plain_no_colon (hp a (by simp))
    | cons b r =>
      simp only [joinBar]
      intro hm
      simp at hm
      rcases hm with hm | hm
      · exact plain_no_colon (hp a (by simp)) hm
      · exact ih (fun p h => hp p (by simp [h])) (by simpa [joinBar] using hm)

theorem isNameSpace_noColon (s : Str) (h : ':' ∉ s) : isNameSpace s = false := by
  simp [isNameSpace, splitNS_noColon s h]

/-- a single type string whose first rune is not a notation prefix and that is not namespaced
goes through parseTypeString unchanged -/
theorem parseArgBase_single (c : Char) (tl : Str) (hq : c ≠ '?') (ha : c ≠ '*')
    (hns : isNameSpace (c :: tl) = false) (key : Str) (ast dflt : Bool) :
    parseArgBase { type := .single (c :: tl), key := key, isAsterisk := ast, isDefault := dflt } =
      (parseTypeString (c :: tl), ast) := by
  unfold parseArgBase
  simp only [TypeSpecJ.toList]
  split
  · rename_i h; cases h
  · rename_i rest h; simp at h; exact absurd h.1 ha
  · rename_i rest h; simp at h; exact absurd h.1 hq
  · simp [hns]

theorem parseArgBase_single' (s : Str) (hne : s ≠ []) (hq : s.head? ≠ some '?') (ha : s.head? ≠ some '*')
    (hns : isNameSpace s = false) (key : Str) (ast dflt : Bool) :
    parseArgBase { type := .single s, key := key, isAsterisk := ast, isDefault := dflt } =
      (parseTypeString s, ast) := by
  cases s with
  | nil => exact absurd rfl hne
  | cons c tl =>
    exact parseArgBase_single c tl (by intro e; subst e; simp at hq) (by intro e; subst e; simp at ha) hns key ast dflt

theorem parseArgBase_many (l : List Str) (h2 : l.length ≥ 2) (key : Str) (ast dflt : Bool) :
    parseArgBase { type := .many l, key := key, isAsterisk := ast, isDefault := dflt } =
      (T.makeUnion (l.map parseTypeString), ast) := by
  match l, h2 with
  | a :: b :: r, _ => simp [parseArgBase, TypeSpecJ.toList]


theorem splitNS_cons_ne (x y : Char) (rest : Str) (hx : x ≠ ':') :
    splitNS (x :: y :: rest) = (match splitNS (y :: rest) with | [] => [[x]] | p :: ps => (x :: p) :: ps) := by
  rw [splitNS.eq_def]
  split
  · rename_i h; cases h
  · rename_i h; cases h
  · rename_i h; simp at h; exact absurd h.1 hx
  · rename_i a b r h1 h; simp at h; obtain ⟨rfl, rfl, rfl⟩ := h; rfl

theorem splitNS_ne_nil (s : Str) : splitNS s ≠ [] := by
  fun_induction splitNS s <;> simp_all

theorem splitNS_qualified (m rest : Str) (hm : ':' ∉ m) (hne : m ≠ []) : splitNS (m ++ ':' :: ':' :: rest) = m :: splitNS rest := by
  induction m with
  | nil => exact absurd rfl hne
  | cons x xs ih =>
    simp at hm
    have hx : x ≠ ':' := fun e => hm.1 e.symm
    cases xs with
    | nil =>
      simp only [List.cons_append, List.nil_append]
      rw [splitNS_cons_ne x ':' (':' :: rest) hx]
      simp [splitNS]
    | cons y ys =>
      have := ih hm.2 (by simp)
      simp only [List.cons_append] at this ⊢
      rw [splitNS_cons_ne x y _ hx, this]

end RubyTi.Config

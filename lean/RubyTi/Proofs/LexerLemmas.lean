import RubyTi.Model.Lexer
/-! Helper lemmas about the lexer model (kept apart from the property statements). -/
namespace RubyTi.Lexer
open RubyTi
set_option linter.unusedVariables false

theorem lexDigit_len (l buf : List Rune) : (lexDigit l buf).2.2.length ≤ l.length := by
  fun_induction lexDigit l buf <;> simp_all <;> try omega
  · exact Nat.le_trans (dropWhile_length_le _ _) (by simp)

theorem lexIdent_len (cur : Rune) (l buf : List Rune) : (lexIdent cur l buf).2.length ≤ l.length := by
  fun_induction lexIdent cur l buf <;> simp_all <;> omega

theorem lexString_len (start : Rune) (l buf : List Rune) : (lexString start l buf).2.length ≤ l.length := by
  fun_induction lexString start l buf <;> simp_all <;> omega

theorem toSpace_len (l : List Rune) : (toSpace l).2.2.length ≤ l.length := by
  simp [toSpace]; exact dropWhile_length_le _ _

theorem toNotIdent_len (l : List Rune) : (toNotIdent l).2.2.length ≤ l.length := by
  simp [toNotIdent]; exact dropWhile_length_le _ _

theorem isDigit_x : isDigit 120 = false := by decide
theorem isDigit_o : isDigit 111 = false := by decide
theorem isDigit_b : isDigit 98 = false := by decide
theorem isDigit_us : isDigit 95 = false := by decide
theorem isDigit_dot : isDigit 46 = false := by decide

theorem lexDigit_first (c : Rune) (cs : List Rune) (h : isDigit c = true) :
    (lexDigit (c :: cs) []).2.2.length ≤ cs.length := by
  have hx : c ≠ 120 := by intro e; rw [e, isDigit_x] at h; cases h
  have ho : c ≠ 111 := by intro e; rw [e, isDigit_o] at h; cases h
  have hb : c ≠ 98 := by intro e; rw [e, isDigit_b] at h; cases h
  have hu : c ≠ 95 := by intro e; rw [e, isDigit_us] at h; cases h
  have hd : c ≠ 46 := by intro e; rw [e, isDigit_dot] at h; cases h
  rw [lexDigit.eq_def]; simp [hx, ho, hb, hu, hd, h]
  exact lexDigit_len _ _

theorem skipSpace_cons_lt {l : List Rune} {c : Rune} {cs : List Rune}
    (h : (skipSpace l).2 = c :: cs) : cs.length < l.length := by
  have h1 := skipSpace_length l
  rw [h] at h1; simp at h1; omega

theorem lexIdent_first (c : Rune) (cs : List Rune) (h : isIdentChar c = true) :
    (lexIdent c (c :: cs) []).2.length ≤ cs.length := by
  have h61 : c ≠ 61 := by intro e; subst e; revert h; decide
  rw [lexIdent.eq_def]; simp [h61, h]
  exact lexIdent_len _ _ _

theorem advance_lt (st : LState) :
    (advance st).1 = true → (advance st).2.pending.length < st.pending.length := by
  fun_induction advance st
  all_goals (try (intro h; simp at h; done))
  all_goals (try (intro _; simp [mkIdent]))
  all_goals (
    have h3 := skipSpace_cons_lt (by assumption)
    try simp at h3
    first
      | omega
      | exact Nat.lt_of_le_of_lt (toSpace_len _) (by first | assumption | omega | (simp at *; omega))
      | exact Nat.lt_of_le_of_lt (toNotIdent_len _) (by first | assumption | omega | (simp at *; omega))
      | exact Nat.lt_of_le_of_lt (lexString_len _ _ _) (by first | assumption | omega | (simp at *; omega))
      | exact Nat.lt_of_le_of_lt (lexDigit_first _ _ (by assumption)) (by first | assumption | omega | (simp at *; omega))
      | exact Nat.lt_of_le_of_lt (lexDigit_len _ _) (by first | assumption | omega | (simp at *; omega))
      | exact Nat.lt_of_le_of_lt (lexIdent_first _ _ (by assumption)) (by first | assumption | omega | (simp at *; omega))
      | (intro h; have ih := ‹_ → _› h; have := skipComment_length ‹List Rune›; simp at ih; omega)
      | skip)

theorem dropWhile_head_not {α} (p : α → Bool) (l : List α) (c : α) (cs : List α)
    (h : l.dropWhile p = c :: cs) : p c = false := by
  induction l with
  | nil => simp at h
  | cons a t ih =>
    simp only [List.dropWhile] at h
    split at h
    · exact ih h
    · rename_i hp; simp at h; obtain ⟨rfl, _⟩ := h; simpa using hp

theorem mem_of_mem_dropWhile {α} (p : α → Bool) (l : List α) (a : α) (h : a ∈ l.dropWhile p) : a ∈ l :=
  (List.dropWhile_sublist p).subset h

theorem skipSpace_mem {l : List Rune} {a : Rune} (h : a ∈ (skipSpace l).2) : a ∈ l :=
  mem_of_mem_dropWhile _ _ _ h

theorem skipSpace_head {l : List Rune} {c : Rune} {cs : List Rune} (h : (skipSpace l).2 = c :: cs) :
    isSpace c = false ∨ c = NL := by
  have := dropWhile_head_not _ _ _ _ h
  simp at this
  by_cases hs : isSpace c = true
  · right; exact this hs
  · left; simpa using hs

/-- every rune that `isIdentifierChar` rejects by comparison is either NUL or has its own case in
`Advance` (checked against the generated tables) -/
theorem identStop_covered : ∀ c ∈ Gen.identStop, c = 0 ∨ c ∈ Gen.advanceCases.flatten := by decide

theorem skipSpace_tail_mem {l : List Rune} {c a : Rune} {cs : List Rune}
    (hp : (skipSpace l).2 = c :: cs) (ha : a ∈ cs) : a ∈ l :=
  skipSpace_mem (by rw [hp]; exact List.mem_cons_of_mem _ ha)

theorem skipSpace_head_mem {l : List Rune} {c : Rune} {cs : List Rune}
    (hp : (skipSpace l).2 = c :: cs) : c ∈ l :=
  skipSpace_mem (by rw [hp]; exact List.mem_cons_self)

theorem not_ident_cases (c : Rune) (h : isIdentChar c = false) :
    isSpace c = true ∨ c = 0 ∨ c ∈ Gen.advanceCases.flatten := by
  simp [isIdentChar] at h
  by_cases hs : isSpace c = true
  · left; exact hs
  · right; exact identStop_covered c (h (by simpa using hs))

theorem advance_false_pending (st : LState) (h0 : 0 ∉ st.pending) :
    (advance st).1 = false → (advance st).2.pending = [] := by
  fun_induction advance st
  all_goals (try (intro h; simp at h; done))
  all_goals (try (intro _; simp; done))
  · rename_i ih
    exact ih (fun hm => h0 (skipSpace_tail_mem (by assumption) (by simpa using hm)))
  · rename_i ih
    exact ih (fun hm => h0 (skipSpace_tail_mem (by assumption) (mem_of_mem_dropWhile _ _ _ (by simpa [skipComment] using hm))))
  · rename_i x _ _ c cs hp _ _ _ _ _ _ _ _ _ _ hd hi
    intro _
    exfalso
    have hp : (skipSpace x.pending).2 = c :: cs := hp
    have hc0 : c ≠ 0 := fun e => h0 (e ▸ skipSpace_head_mem hp)
    have hi' : isIdentChar c = false := by simpa using hi
    rcases not_ident_cases c hi' with hs | hz | hm
    · rcases skipSpace_head hp with h1 | h1
      · rw [h1] at hs; cases hs
      · subst h1; simp_all [singleCharToks, NL]
    · exact hc0 hz
    · simp [Gen.advanceCases] at hm
      simp_all [singleCharToks, quoteChars]

def numPair (t : Int) (v : Val) : Prop := (t = TOK_INT ∧ v = .int) ∨ (t = TOK_FLOAT ∧ v = .float)

theorem digitTok_pair (buf : List Rune) : numPair (digitTok buf).1 (digitTok buf).2 := by
  unfold digitTok numPair; split <;> simp

theorem lexDigit_pair (l buf : List Rune) : numPair (lexDigit l buf).1 (lexDigit l buf).2.1 := by
  fun_induction lexDigit l buf
  all_goals (first | assumption | exact digitTok_pair _ | (left; exact ⟨rfl, rfl⟩))

theorem numPair_ok {t : Int} {v : Val} (h : numPair t v) : (readKind' t v).ok = true := by
  rcases h with ⟨rfl, rfl⟩ | ⟨rfl, rfl⟩ <;> rfl

theorem single_ok (c : Rune) (hc : singleCharToks.contains c = true) (v : Val) :
    (readKind' (c : Int) v).ok = true := by
  simp [singleCharToks] at hc
  rcases hc with rfl | rfl | rfl | rfl | rfl | rfl | rfl | rfl | rfl | rfl <;> rfl

theorem ident_ok (n : List Rune) : (readKind' TOK_UNKNOWN (.ident n)).ok = true := rfl
theorem str_ok (n : List Rune) : (readKind' TOK_STRING (.str n)).ok = true := rfl
theorem nil_ok (v : Val) : (readKind' TOK_NIL v).ok = true := rfl
theorem dot_ok (v : Val) : (readKind' 46 v).ok = true := rfl

theorem kind_ok (st : LState) : (advance st).1 = true → (readKind (advance st).2).ok = true := by
  fun_induction advance st
  all_goals (try (intro h; simp at h; done))
  all_goals (try (intro _; exact numPair_ok (lexDigit_pair _ _)))
  all_goals (try (intro _; exact single_ok _ (by assumption) _))
  all_goals (try (intro _; exact ident_ok _))
  all_goals (try (intro _; exact str_ok _))
  all_goals (try (intro _; exact dot_ok _))
  all_goals (try assumption)
  · intro _
    simp only [readKind]
    split
    · exact nil_ok _
    · exact ident_ok _

theorem lexIdent_buf (cur : Rune) (l buf : List Rune) (h : buf ≠ []) : (lexIdent cur l buf).1 ≠ [] := by
  fun_induction lexIdent cur l buf <;> simp_all

theorem lexIdent_first_ne (c : Rune) (cs : List Rune) (h : isIdentChar c = true) :
    (lexIdent c (c :: cs) []).1 ≠ [] := by
  have h61 : c ≠ 61 := by intro e; subst e; revert h; decide
  rw [lexIdent.eq_def]; simp [h61, h]
  exact lexIdent_buf _ _ _ (by simp)

/-- an identifier token always carries a non-empty name -/
def identNonEmpty (s : LState) : Prop :=
  s.tok = TOK_UNKNOWN → ∃ n, s.val = .ident n ∧ n ≠ []

theorem ident_nonempty (st : LState) : (advance st).1 = true → identNonEmpty (advance st).2 := by
  fun_induction advance st
  all_goals (try (intro h; simp at h; done))
  all_goals (try assumption)
  all_goals (try (intro _ _; exact ⟨_, rfl, by first | exact lexIdent_first_ne _ _ (by assumption) | simp⟩))
  all_goals (try (intro _ ht; exfalso; revert ht; simp [TOK_UNKNOWN, TOK_STRING, Gen.Tok.UNKNOWN, Gen.Tok.STRING]; done))
  all_goals (try (
    intro _ ht; exfalso
    have hp := lexDigit_pair (‹Rune› :: ‹List Rune›) []
    rcases hp with ⟨h1, _⟩ | ⟨h1, _⟩ <;> simp at ht <;> rw [h1] at ht <;> revert ht <;> decide))
  · intro _ ht
    exfalso
    have hc : singleCharToks.contains ‹Rune› = true := by assumption
    simp [singleCharToks] at hc
    simp [TOK_UNKNOWN, Gen.Tok.UNKNOWN] at ht
    rcases hc with rfl | rfl | rfl | rfl | rfl | rfl | rfl | rfl | rfl | rfl <;> cases ht

theorem lexDigit_subset (l buf : List Rune) : ∀ a ∈ (lexDigit l buf).2.2, a ∈ l := by
  fun_induction lexDigit l buf
  all_goals (try (intro a ha; simp_all; done))
  · intro a ha; exact mem_of_mem_dropWhile _ _ _ ha
  all_goals (intro a ha; simp_all)

theorem lexIdent_subset (cur : Rune) (l buf : List Rune) : ∀ a ∈ (lexIdent cur l buf).2, a ∈ l := by
  fun_induction lexIdent cur l buf <;> intro a ha <;> simp_all

theorem lexString_subset (start : Rune) (l buf : List Rune) : ∀ a ∈ (lexString start l buf).2, a ∈ l := by
  fun_induction lexString start l buf <;> intro a ha <;> simp_all

theorem toSpace_subset (l : List Rune) : ∀ a ∈ (toSpace l).2.2, a ∈ l :=
  fun a ha => mem_of_mem_dropWhile _ _ _ ha
theorem toNotIdent_subset (l : List Rune) : ∀ a ∈ (toNotIdent l).2.2, a ∈ l :=
  fun a ha => mem_of_mem_dropWhile _ _ _ ha
theorem skipComment_subset (l : List Rune) : ∀ a ∈ skipComment l, a ∈ l :=
  fun a ha => mem_of_mem_dropWhile _ _ _ ha

theorem skipSpace_subset' {l : List Rune} {c : Rune} {cs : List Rune}
    (hp : (skipSpace l).2 = c :: cs) : ∀ a ∈ c :: cs, a ∈ l :=
  fun a ha => skipSpace_mem (hp ▸ ha)

theorem advance_subset (st : LState) : ∀ a ∈ (advance st).2.pending, a ∈ st.pending := by
  fun_induction advance st
  all_goals (try (intro a ha; simp at ha; done))
  all_goals (
    have hs := skipSpace_subset' (by assumption)
    intro a ha
    first
      | (simp [mkIdent] at ha; apply hs a; simp [ha]; done)
      | (simp [mkIdent] at ha; apply hs a; have := toSpace_subset _ a ha; simp_all; done)
      | (simp [mkIdent] at ha; apply hs a; have := toNotIdent_subset _ a ha; simp_all; done)
      | (simp at ha; apply hs a; have := lexDigit_subset _ _ a ha; simp_all; done)
      | (simp at ha; apply hs a; have := lexIdent_subset _ _ _ a ha; simp_all; done)
      | (simp at ha; apply hs a; have := lexString_subset _ _ _ a ha; simp_all; done)
      | (exfalso; simp [mkIdent] at ha; done)
      | (rename_i ih; have h2 := ih a ha; simp at h2; apply hs a; simp [h2]; done)
      | (rename_i ih; have h2 := ih a ha; simp at h2; have := skipComment_subset _ a h2; apply hs a; simp [this]; done)
      | skip)


theorem advance_false_le (st : LState) :
    (advance st).1 = false → (advance st).2.pending.length ≤ st.pending.length := by
  fun_induction advance st
  all_goals (try (intro h; simp at h; done))
  all_goals (try (intro _; simp; done))
  all_goals (
    have h3 := skipSpace_cons_lt (by assumption)
    try simp at h3
    first
      | (intro _; simp; omega)
      | (intro h; have ih := ‹_ → _› h; have := skipComment_length ‹List Rune›; simp at ih; omega)
      | skip)

theorem advance_le (st : LState) : (advance st).2.pending.length ≤ st.pending.length := by
  cases h : (advance st).1
  · exact advance_false_le st h
  · exact Nat.le_of_lt (advance_lt st h)

end RubyTi.Lexer

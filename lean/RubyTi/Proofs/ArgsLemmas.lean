import RubyTi.Model.Args
/-! Order lemmas for Go's string comparison on keys, and sortedness of the insertion sort. -/
namespace RubyTi.Args
open RubyTi

theorem strLt_irrefl (a : Str) : strLt a a = false := by
  induction a with
  | nil => rfl
  | cons x xs ih => simp [strLt, ih]

theorem strLt_asymm (a b : Str) (h : strLt a b = true) : strLt b a = false := by
  induction a generalizing b with
  | nil => cases b <;> simp_all [strLt]
  | cons x xs ih =>
    cases b with
    | nil => simp [strLt] at h
    | cons y ys =>
      simp only [strLt] at h ⊢
      split at h
      · rename_i hlt
        have : ¬ (y.toNat < x.toNat) := by omega
        simp [this, hlt]
      · split at h
        · cases h
        · rename_i h1 h2
          simp [h1, h2]
          exact ih ys h

/-- antisymmetry of `≤` on keys: mutual `≤` means equal strings -/
theorem strLe_antisymm (a b : Str) (h1 : strLe a b = true) (h2 : strLe b a = true) : a = b := by
  simp [strLe] at h1 h2
  induction a generalizing b with
  | nil => cases b with
    | nil => rfl
    | cons y ys => simp [strLt] at h2
  | cons x xs ih =>
    cases b with
    | nil => simp [strLt] at h1
    | cons y ys =>
      simp only [strLt] at h1 h2
      by_cases hxy : x.toNat < y.toNat
      · simp [hxy] at h2
      · by_cases hyx : y.toNat < x.toNat
        · simp [hyx] at h1
        · simp [hxy, hyx] at h1 h2
          have hc : x = y := Char.toNat_inj.mp (by omega)
          rw [hc, ih ys h1 h2]

theorem strLe_total (a b : Str) : strLe a b = true ∨ strLe b a = true := by
  simp only [strLe]
  cases h : strLt a b
  · right; rfl
  · left; rw [strLt_asymm a b h]; rfl

theorem strLt_cotrans (a b c : Str) (h : strLt a c = true) : strLt a b = true ∨ strLt b c = true := by
  induction a generalizing b c with
  | nil =>
    cases c with
    | nil => simp [strLt] at h
    | cons z zs =>
      cases b with
      | nil => right; rfl
      | cons y ys => left; rfl
  | cons x xs ih =>
    cases c with
    | nil => simp [strLt] at h
    | cons z zs =>
      cases b with
      | nil => right; rfl
      | cons y ys =>
        simp only [strLt] at h ⊢
        by_cases hxz : x.toNat < z.toNat
        · by_cases hxy : x.toNat < y.toNat
          · left; simp [hxy]
          · by_cases hyx : y.toNat < x.toNat
            · right; have : y.toNat < z.toNat := by omega
              simp [this]
            · have : y.toNat < z.toNat := by omega
              right; simp [this]
        · simp [hxz] at h
          obtain ⟨hzx, h⟩ := h
          · have hxz' : x.toNat = z.toNat := by omega
            by_cases hxy : x.toNat < y.toNat
            · left; simp [hxy]
            · by_cases hyx : y.toNat < x.toNat
              · right; have : y.toNat < z.toNat := by omega
                simp [this]
              · have e1 : ¬ y.toNat < z.toNat := by omega
                have e2 : ¬ z.toNat < y.toNat := by omega
                simp [hxy, hyx, e1, e2]
                exact ih ys zs h

theorem strLe_trans (a b c : Str) (h1 : strLe a b = true) (h2 : strLe b c = true) : strLe a c = true := by
  simp only [strLe] at *
  cases h : strLt c a
  · rfl
  · rcases strLt_cotrans c b a h with h' | h'
    · simp [h'] at h2
    · simp [h'] at h1

theorem insertByKey_perm {α} (x : Arg α) (l : List (Arg α)) : (insertByKey x l).Perm (x :: l) := by
  induction l with
  | nil => simp [insertByKey]
  | cons y ys ih =>
    simp only [insertByKey]
    split
    · exact List.Perm.refl _
    · exact (List.Perm.cons y ih).trans (List.Perm.swap x y ys)

theorem sortByKey_perm {α} (l : List (Arg α)) : (sortByKey l).Perm l := by
  induction l with
  | nil => exact List.Perm.refl _
  | cons x xs ih => exact (insertByKey_perm x _).trans (List.Perm.cons x ih)

def leK {α} (a b : Arg α) : Prop := strLe (keyOf a) (keyOf b) = true

theorem insertByKey_sorted {α} (x : Arg α) (l : List (Arg α)) (h : l.Pairwise leK) : (insertByKey x l).Pairwise leK := by
  induction l with
  | nil => simp [insertByKey]
  | cons y ys ih =>
    simp only [insertByKey]
    have hy := List.pairwise_cons.mp h
    split
    · rename_i hlt
      refine List.pairwise_cons.mpr ⟨?_, h⟩
      intro b hb
      have hxy : leK x y := by simp [leK, strLe, strLt_asymm _ _ hlt]
      simp at hb
      rcases hb with rfl | hb
      · exact hxy
      · exact strLe_trans _ _ _ hxy (hy.1 b hb)
    · rename_i hnlt
      refine List.pairwise_cons.mpr ⟨?_, ih hy.2⟩
      intro b hb
      have hb' := (insertByKey_perm x ys).subset hb
      simp at hb'
      rcases hb' with rfl | hb'
      · simp [leK, strLe]; simpa using hnlt
      · exact hy.1 b hb'

theorem sortByKey_sorted {α} (l : List (Arg α)) : (sortByKey l).Pairwise leK := by
  induction l with
  | nil => simp [sortByKey]
  | cons x xs ih => exact insertByKey_sorted x _ ih


theorem inj_of_nodup_map {α β} (f : α → β) (l : List α) (h : (l.map f).Nodup) {a b : α}
    (ha : a ∈ l) (hb : b ∈ l) (hab : f a = f b) : a = b := by
  induction l with
  | nil => cases ha
  | cons x xs ih =>
    simp only [List.map_cons, List.nodup_cons] at h
    simp at ha hb
    rcases ha with rfl | ha <;> rcases hb with rfl | hb
    · rfl
    · exfalso; apply h.1; rw [hab]; exact List.mem_map_of_mem hb
    · exfalso; apply h.1; rw [← hab]; exact List.mem_map_of_mem ha
    · exact ih h.2 ha hb

end RubyTi.Args

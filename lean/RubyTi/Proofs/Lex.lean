import RubyTi.Basic
/-! Lexicographic order on `List Nat` (the order Go's string/int comparisons induce on encoded sort
keys): irreflexive, asymmetric, co-transitive; `≤` total, transitive, antisymmetric. -/
namespace RubyTi.Lex

def lexLt : List Nat → List Nat → Bool
  | [], [] => false
  | [], _ :: _ => true
  | _ :: _, [] => false
  | a :: as, b :: bs => if a < b then true else if b < a then false else lexLt as bs

def lexLe (a b : List Nat) : Bool := !lexLt b a

theorem lexLt_irrefl (a : List Nat) : lexLt a a = false := by
  induction a with
  | nil => rfl
  | cons x xs ih => simp [lexLt, ih]

theorem lexLt_asymm (a b : List Nat) (h : lexLt a b = true) : lexLt b a = false := by
  induction a generalizing b with
  | nil => cases b <;> simp_all [lexLt]
  | cons x xs ih =>
    cases b with
    | nil => simp [lexLt] at h
    | cons y ys =>
      simp only [lexLt] at h ⊢
      split at h
      · rename_i hlt
        have : ¬ (y < x) := by omega
        simp [this, hlt]
      · split at h
        · cases h
        · rename_i h1 h2
          simp [h1, h2]
          exact ih ys h

/-- antisymmetry of `≤` on keys: mutual `≤` means equal strings -/
theorem lexLe_antisymm (a b : List Nat) (h1 : lexLe a b = true) (h2 : lexLe b a = true) : a = b := by
  simp [lexLe] at h1 h2
  induction a generalizing b with
  | nil => cases b with
    | nil => rfl
    | cons y ys => simp [lexLt] at h2
  | cons x xs ih =>
    cases b with
    | nil => simp [lexLt] at h1
    | cons y ys =>
      simp only [lexLt] at h1 h2
      by_cases hxy : x < y
      · simp [hxy] at h2
      · by_cases hyx : y < x
        · simp [hyx] at h1
        · simp [hxy, hyx] at h1 h2
          have hc : x = y := by omega
          rw [hc, ih ys h1 h2]

theorem lexLe_total (a b : List Nat) : lexLe a b = true ∨ lexLe b a = true := by
  simp only [lexLe]
  cases h : lexLt a b
  · right; rfl
  · left; rw [lexLt_asymm a b h]; rfl

theorem lexLt_cotrans (a b c : List Nat) (h : lexLt a c = true) : lexLt a b = true ∨ lexLt b c = true := by
  induction a generalizing b c with
  | nil =>
    cases c with
    | nil => simp [lexLt] at h
    | cons z zs =>
      cases b with
      | nil => right; rfl
      | cons y ys => left; rfl
  | cons x xs ih =>
    cases c with
    | nil => simp [lexLt] at h
    | cons z zs =>
      cases b with
      | nil => right; rfl
      | cons y ys =>
        simp only [lexLt] at h ⊢
        by_cases hxz : x < z
        · by_cases hxy : x < y
          · left; simp [hxy]
          · by_cases hyx : y < x
            · right; have : y < z := by omega
              simp [this]
            · have : y < z := by omega
              right; simp [this]
        · simp [hxz] at h
          obtain ⟨hzx, h⟩ := h
          · have hxz' : x = z := by omega
            by_cases hxy : x < y
            · left; simp [hxy]
            · by_cases hyx : y < x
              · right; have : y < z := by omega
                simp [this]
              · have e1 : ¬ y < z := by omega
                have e2 : ¬ z < y := by omega
                simp [hxy, hyx, e1, e2]
                exact ih ys zs h

theorem lexLe_trans (a b c : List Nat) (h1 : lexLe a b = true) (h2 : lexLe b c = true) : lexLe a c = true := by
  simp only [lexLe] at *
  cases h : lexLt c a
  · rfl
  · rcases lexLt_cotrans c b a h with h' | h'
    · simp [h'] at h2
    · simp [h'] at h1


end RubyTi.Lex

import RubyTi.Model.Match

/-! Helper lemmas about the matching model (used by Props/C07 and Props/C08). -/
namespace RubyTi.Match
open RubyTi Gen.Tok

theorem acceptVariant_symm (t g : T) : acceptVariant t g = acceptVariant g t := by
  unfold acceptVariant
  rw [Bool.or_comm, Bool.and_comm, BEq.comm (a := t.objectClass), BEq.comm (a := t.tag) (b := g.tag)]

theorem acceptVariant_typed (d a : T) (hd : d.tag ≠ UNTYPED) (ha : a.tag ≠ UNTYPED) :
    acceptVariant d a = (if d.tag == OBJECT && a.tag == OBJECT then d.objectClass == a.objectClass else d.tag == a.tag) := by
  unfold acceptVariant
  simp [hd, ha]

theorem acceptVariant_untyped_right (p v : T) (h : v.tag = UNTYPED) : acceptVariant p v = true := by
  simp [acceptVariant, h]

theorem acceptVariant_same (w v : T) (ht : v.tag = w.tag) (hc : v.tag ≠ OBJECT ∨ v.objectClass = w.objectClass) :
    acceptVariant w v = true := by
  unfold acceptVariant
  by_cases hu : w.tag = UNTYPED
  · simp [hu]
  · have hv : v.tag ≠ UNTYPED := by rw [ht]; exact hu
    by_cases ho : w.tag = OBJECT
    · have hvo : v.tag = OBJECT := by rw [ht]; exact ho
      rcases hc with hc | hc
      · exact absurd hvo hc
      · simp [hu, hv, ho, hvo, hc]
    · have hvo : v.tag ≠ OBJECT := by rw [ht]; exact ho
      simp [hu, hv, ho, hvo, ht]

/-- if the union `a` is covered by the non-empty union `d`, every variant of `a` is accepted by a variant of `d` -/
theorem coveredBy_admits (d a : T) (h : coveredBy a d = true) (hd : d.variants ≠ []) (v : T) (hv : v ∈ a.variants) :
    (d.variants.any fun p => acceptVariant p v) = true := by
  have := List.all_eq_true.mp h v hv
  simp only [Bool.or_eq_true, beq_iff_eq] at this
  rcases this with hu | hw
  · cases hdv : d.variants with
    | nil => exact absurd hdv hd
    | cons p rest => simp [acceptVariant_untyped_right p v hu]
  · obtain ⟨w, hwm, hw2⟩ := List.any_eq_true.mp hw
    simp only [Bool.and_eq_true, beq_iff_eq, Bool.or_eq_true, bne_iff_ne] at hw2
    exact List.any_eq_true.mpr ⟨w, hwm, acceptVariant_same w v hw2.1 hw2.2⟩


end RubyTi.Match

import RubyTi.Proofs.LexerLemmas
import RubyTi.Model.Token
/-! Helper lemmas about the token-layer model (parser/read.go). -/
namespace RubyTi.Token
open RubyTi RubyTi.Lexer

/-- the parser's current token is one `Read` can classify -/
def WF (p : PState) : Prop := (readKind' p.token p.lx.val).ok = true ∨ p.token = EOS

theorem countEOS_wf {p p'} (h : countEOS p = some p') : p'.token = p.token ∧ p'.lx = p.lx := by
  unfold countEOS at h; split at h <;> cases h <;> simp

theorem getToken_wf {p p' : PState} (hw : WF p) (h : getToken p = some p') : WF p' := by
  unfold getToken at h
  split at h
  · simp only [] at h
    split at h
    · rename_i he
      have := countEOS_wf h
      right; rw [this.1]; simpa using he
    · cases h; simpa [WF] using hw
  · split at h
    · rename_i lx' hadv
      have hk := kind_ok p.lx (by rw [hadv])
      rw [hadv] at hk
      cases h
      left
      simp only [readKind] at hk
      split <;> split <;> simp_all <;> (try split) <;> simp_all
    · have := countEOS_wf h
      right; rw [this.1]

theorem readKind'_str {t : Int} {v : Val} (h : readKind' t v = .str) : ∃ s, v = .str s := by
  cases v with
  | str s => exact ⟨s, rfl⟩
  | _ => exfalso; unfold readKind' at h; (repeat' split at h) <;> (try cases h) <;> simp_all

theorem readKind'_ident {t : Int} {v : Val} (h : readKind' t v = .ident) : ∃ s, v = .ident s := by
  cases v with
  | ident s => exact ⟨s, rfl⟩
  | _ => exfalso; unfold readKind' at h; (repeat' split at h) <;> (try cases h) <;> simp_all

theorem readKind'_eos {t : Int} {v : Val} (h : readKind' t v = .eos) : t = EOS := by
  by_cases he : t = EOS
  · exact he
  · exfalso; unfold readKind' at h; (repeat' split at h) <;> (try cases h)
    all_goals simp_all [EOS]

theorem readKind'_of_eos (v : Val) : readKind' EOS v = .eos := by
  unfold readKind'
  simp [EOS, TOK_INT, TOK_FLOAT, TOK_STRING, TOK_NIL, TOK_UNKNOWN, Gen.Tok.EOS, Gen.Tok.INT, Gen.Tok.FLOAT,
    Gen.Tok.STRING, Gen.Tok.NIL, Gen.Tok.UNKNOWN]


end RubyTi.Token

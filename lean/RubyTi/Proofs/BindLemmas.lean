import RubyTi.Model.Bind

/-! Positional signatures: the binding loop is a zip of arguments and parameters. -/
namespace RubyTi.Bind
open RubyTi RubyTi.Match

/-- what the loop does on positional parameters and positional arguments -/
def posSpec : List T → List Param → Res
  | _, [] => .ok
  | [], p :: rest => if p.t.fl.hasDefault then posSpec [] rest else .tooFew
  | a :: as, p :: rest => if Match.checkArg p.t a then posSpec as rest else .mismatch

def posOnly (ps : List Param) : Prop := ∀ p ∈ ps, p.kind = .pos

theorem getElem?_map_pos (as : List T) (idx : Nat) :
    (as.map Arg.pos)[idx]? = (as[idx]?).map Arg.pos := by simp

theorem loop_pos (as : List T) (ps : List Param) (hps : posOnly ps) :
    ∀ idx ast, loop (as.map Arg.pos) ps idx ast = (posSpec (as.drop idx) ps, ast) := by
  induction ps with
  | nil => intro idx ast; simp [loop, posSpec]
  | cons p rest ih =>
    intro idx ast
    have hk : p.kind = .pos := hps p (by simp)
    have hrest : posOnly rest := fun q hq => hps q (by simp [hq])
    simp only [loop, hk]
    have hkey : (PKind.pos == PKind.key) = false := by decide
    simp only [hkey, Bool.false_and, Bool.false_eq_true, ite_false]
    rw [getElem?_map_pos]
    cases hget : as[idx]? with
    | none =>
      have hd : as.drop idx = [] := by
        apply List.drop_eq_nil_of_le
        exact List.getElem?_eq_none_iff.mp hget
      simp only [Option.map_none, hd, posSpec]
      split
      · rw [ih hrest idx ast, hd]
      · rfl
    | some a =>
      have hlt : idx < as.length := by
        rcases Nat.lt_or_ge idx as.length with h | h
        · exact h
        · rw [List.getElem?_eq_none_iff.mpr h] at hget; exact absurd hget (by simp)
      have ha : as[idx] = a := by
        rw [List.getElem?_eq_getElem hlt] at hget; exact Option.some.inj hget
      have hd : as.drop idx = a :: as.drop (idx + 1) := by
        rw [← ha]; exact List.drop_eq_getElem_cons hlt
      simp only [Option.map_some, hd, posSpec]
      split
      · rw [ih hrest (idx + 1) ast]
      · rfl

/-- the call fits: every argument is accepted by the parameter at its position, no argument is left
over, and every parameter without an argument has a default -/
def fitsB : List T → List Param → Bool
  | [], ps => ps.all fun p => p.t.fl.hasDefault
  | _ :: _, [] => false
  | a :: as, p :: ps => Match.checkArg p.t a && fitsB as ps

theorem posSpec_nil (ps : List Param) : posSpec [] ps = .ok ↔ (ps.all fun p => p.t.fl.hasDefault) = true := by
  induction ps with
  | nil => simp [posSpec]
  | cons p rest ih =>
    simp only [posSpec, List.all_cons, Bool.and_eq_true]
    split
    · rename_i h; simp [h, ih]
    · rename_i h; simp [h]

theorem posSpec_ok (as : List T) (ps : List Param) (hlen : as.length ≤ ps.length) :
    posSpec as ps = .ok ↔ fitsB as ps = true := by
  induction as generalizing ps with
  | nil => simp [fitsB, posSpec_nil]
  | cons a rest ih =>
    cases ps with
    | nil => simp at hlen
    | cons p ps' =>
      simp only [posSpec, fitsB, Bool.and_eq_true]
      have hlen' : rest.length ≤ ps'.length := by simpa using hlen
      split
      · rename_i h; simp [h, ih ps' hlen']
      · rename_i h; simp [h]

theorem fitsB_length (as : List T) (ps : List Param) (h : fitsB as ps = true) : as.length ≤ ps.length := by
  induction as generalizing ps with
  | nil => simp
  | cons a rest ih =>
    cases ps with
    | nil => simp [fitsB] at h
    | cons p ps' =>
      simp only [fitsB, Bool.and_eq_true] at h
      simpa using ih ps' h.2

/-- **positional signatures**: the call is accepted exactly when it fits -/
theorem bind_pos_ok_iff (ps : List Param) (hps : posOnly ps) (as : List T) :
    bind ps (as.map Arg.pos) = .ok ↔ fitsB as ps = true := by
  unfold bind
  rw [loop_pos as ps hps 0 false]
  simp only [List.drop_zero, List.length_map]
  constructor
  · intro h
    by_cases hlen : as.length ≤ ps.length
    · have : posSpec as ps = .ok := by
        cases hp : posSpec as ps <;> simp [hp] at h ⊢
      exact (posSpec_ok as ps hlen).mp this
    · -- more arguments than parameters: never accepted
      exfalso
      have hgt : as.length > ps.length := Nat.lt_of_not_le hlen
      cases hp : posSpec as ps <;> simp [hp, hgt] at h
  · intro h
    have hlen := fitsB_length as ps h
    have hok := (posSpec_ok as ps hlen).mpr h
    have : ¬ as.length > ps.length := Nat.not_lt.mpr hlen
    simp [hok, this]

end RubyTi.Bind

import RubyTi.Proofs.ArgsLemmas

/-!
# C14 — keyword argument order at a call site is irrelevant

`prioritizeArgTs` runs before anything looks at the arguments (binding, arity and type checks,
propagation into the callee). Its result is specified as *any* list `positional ++ s` where `s` is
a permutation of the keyword arguments sorted by key (`IsPrioritized`; nothing is assumed about
which sorting algorithm `sort.Slice` uses, nor that it is stable).
Theorem `kwargs_order_irrelevant`: if two call sites have the same positional arguments in the same
order and the same keyword arguments (as a multiset) with pairwise distinct keys, then **every**
admissible result for the one equals **every** admissible result for the other — so everything
downstream (`checkAndPropagateArgs`, diagnostics, inferred types) coincides.
Duplicate keys are outside the property's statement.
-/
namespace RubyTi.C14
open RubyTi RubyTi.Args

/-- the executable model is an admissible result -/
theorem prioritize_is_prioritized {α} (l : List (Arg α)) : IsPrioritized l (prioritize l) :=
  ⟨sortByKey (named l), rfl, sortByKey_perm _, sortByKey_sorted _⟩

/-- two key-sorted permutations of the same keyword arguments with distinct keys are equal -/
theorem sorted_perm_unique {α} (s₁ s₂ : List (Arg α)) (hp : s₁.Perm s₂)
    (h₁ : s₁.Pairwise leK) (h₂ : s₂.Pairwise leK)
    (hk : (s₁.map keyOf).Nodup) : s₁ = s₂ := by
  apply List.Perm.eq_of_pairwise (le := leK) _ h₁ h₂ hp
  intro a b ha hb hab hba
  have hkeq : keyOf a = keyOf b := strLe_antisymm _ _ hab hba
  have hb' : b ∈ s₁ := hp.symm.subset hb
  exact inj_of_nodup_map keyOf s₁ hk ha hb' hkeq

/-- **Keyword order is irrelevant.** -/
theorem kwargs_order_irrelevant {α} (a₁ a₂ o₁ o₂ : List (Arg α))
    (hpos : positional a₁ = positional a₂)
    (hnamed : (named a₁).Perm (named a₂))
    (hk : ((named a₁).map keyOf).Nodup)
    (h₁ : IsPrioritized a₁ o₁) (h₂ : IsPrioritized a₂ o₂) : o₁ = o₂ := by
  obtain ⟨s₁, rfl, p₁, w₁⟩ := h₁
  obtain ⟨s₂, rfl, p₂, w₂⟩ := h₂
  have hperm : s₁.Perm s₂ := p₁.trans (hnamed.trans p₂.symm)
  have hk₁ : (s₁.map keyOf).Nodup := (p₁.map keyOf).nodup_iff.mpr hk
  rw [hpos, sorted_perm_unique s₁ s₂ hperm w₁ w₂ hk₁]

/-- Corollary for whole argument lists: a permutation of a call's arguments that keeps the
positional ones in place (same filtered sublist) yields the same executable result. -/
theorem prioritize_perm {α} (a₁ a₂ : List (Arg α)) (hperm : a₁.Perm a₂)
    (hpos : positional a₁ = positional a₂) (hk : ((named a₁).map keyOf).Nodup) :
    prioritize a₁ = prioritize a₂ :=
  kwargs_order_irrelevant a₁ a₂ _ _ hpos (hperm.filter _) hk
    (prioritize_is_prioritized a₁) (prioritize_is_prioritized a₂)

/-- non-vacuity: three keyword arguments in rotated order around a positional one -/
example :
    let a₁ : List (Arg Nat) := [⟨none, 0⟩, ⟨some ['b', ':'], 1⟩, ⟨some ['c', ':'], 2⟩, ⟨some ['a', ':'], 3⟩]
    let a₂ : List (Arg Nat) := [⟨some ['c', ':'], 2⟩, ⟨none, 0⟩, ⟨some ['a', ':'], 3⟩, ⟨some ['b', ':'], 1⟩]
    positional a₁ = positional a₂ ∧ ((named a₁).map keyOf).Nodup ∧ prioritize a₁ = prioritize a₂ := by decide

end RubyTi.C14

import RubyTi.Proofs.LexerLemmas
import RubyTi.Proofs.TokenLemmas
import RubyTi.Props.C03
import RubyTi.Gen.NilGuards

/-!
# C01 — the analyzer never crashes (the part a model can carry)

Proved here, for all inputs:
* the token layer never reports `read error` and never fails a `Value().(T)` type assertion,
  whatever sequence of Read/Unget/Skip/ReadAhead the evaluators issue (`run_never_errors`);
* identifiers handed to `IsClassIdentifier` are non-empty, so `ToString()[0]` is in range;
* `TypeToString` has a case for every type tag (its `default: panic` is unreachable for tags
  of `base/type.go`);
* every `Is…`/`Has…` predicate on `*T` in base/ answers for a nil receiver, except a reviewed
  list (regenerated table `Gen.nilGuards`).
Not carried by the model: nil/bounds panics inside the evaluators (covered by the black-box
sweep with a site-keyed findings list).
-/
namespace RubyTi.C01
open RubyTi RubyTi.Lexer RubyTi.Token

/-- **Read never errs**: from a well-formed state, `Read` answers a token or EOS — never
`read error`, never a failed type assertion — and leaves a well-formed state. -/
theorem read_never_errors (bc : List (List Rune)) {p p' : PState} {o : ReadOut} (hw : WF p)
    (h : Token.read bc p = some (o, p')) :
    (match o with | .readError => False | .assertPanic => False | _ => True) ∧ WF p' := by
  unfold Token.read at h
  split at h
  · cases h
  · rename_i q hq
    have hwq := getToken_wf hw hq
    simp only [] at h
    have wfq : ∀ (r : PState), r.token = q.token → r.lx.val = q.lx.val → (readKind' q.token q.lx.val).ok = true → WF r := by
      intro r h1 h2 h3; left; rw [h1, h2]; exact h3
    cases hk : readKind' q.token q.lx.val <;> simp only [hk] at h
    · cases h; exact ⟨trivial, wfq _ rfl rfl (by rw [hk]; rfl)⟩
    · cases h; exact ⟨trivial, wfq _ rfl rfl (by rw [hk]; rfl)⟩
    · obtain ⟨s, hs⟩ := readKind'_str hk
      simp only [hs] at h
      cases h; exact ⟨trivial, wfq _ rfl (by simp [hs]) (by rw [hk]; rfl)⟩
    · cases h; exact ⟨trivial, wfq _ rfl rfl (by rw [hk]; rfl)⟩
    · cases h; exact ⟨trivial, wfq _ rfl rfl (by rw [hk]; rfl)⟩
    · obtain ⟨s, hs⟩ := readKind'_ident hk
      simp only [hs] at h
      cases h; exact ⟨trivial, wfq _ rfl (by simp [hs]) (by rw [hk]; rfl)⟩
    · cases h; exact ⟨trivial, Or.inr (readKind'_eos hk)⟩
    · exfalso
      rcases hwq with hok | he
      · rw [hk] at hok; cases hok
      · rw [he, readKind'_of_eos] at hk; cases hk
    · exfalso
      rcases hwq with hok | he
      · rw [hk] at hok; cases hok
      · rw [he, readKind'_of_eos] at hk; cases hk

/-- the initial parser state is well-formed -/
theorem init_wf (input : List Rune) : WF { lx := { pending := input } } := by
  left; rfl

/-- identifiers are never empty, so `IsClassIdentifier`'s `ToString()[0]` is in range -/
theorem ident_never_empty (input : List Rune) :
    ∀ t ∈ (Lexer.tokens input).1, identNonEmpty t :=
  fun t ht => (C03.kind_defined input t ht).2

/-- `TypeToString` has a case for every tag declared in base/type.go except the EOS marker -/
theorem typeToString_total :
    ∀ e ∈ Gen.Tok.all, e.2 = Gen.Tok.EOS ∨ (Gen.typeNames.lookup e.2).isSome = true := by decide

/-- predicates that lack a leading nil test, each reviewed:
`HasOverloads`, `IsEmptyDefineArgs`: called on resolved method values only;
`IsClassIdentifier`: called in Read on a fresh identifier; `IsEqualObject`, `IsMatchUnionType`:
called on evaluated argument types; `IsRefferenceSquareT`: `IsTargetIdentifier` short-circuits. -/
def reviewedUnguarded : List String :=
  ["HasOverloads", "IsClassIdentifier", "IsEmptyDefineArgs", "IsEqualObject", "IsMatchUnionType", "IsRefferenceSquareT"]

theorem predicates_nil_safe :
    ∀ g ∈ Gen.nilGuards, g.2.1 = true → g.2.2 = true ∨ g.1 ∈ reviewedUnguarded := by decide

end RubyTi.C01

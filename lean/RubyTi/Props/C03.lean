import RubyTi.Model.Lexer
import RubyTi.Model.Reader
namespace RubyTi.C03
theorem placeholder : True := trivial
end RubyTi.C03

import RubyTi.Proofs.LexerLemmas
import RubyTi.Model.Reader

/-!
# C03 — Tokenizing any text terminates and consumes the whole input

Property theorems only (helper lemmas live in `Proofs/LexerLemmas.lean`).
`Lexer.advance` models one `Lexer.Advance()` call on the reader's pending runes; its very
definition is accepted by Lean's termination checker (structural recursion for the eight loops
of lexer.go, a well-founded measure for the two `return l.Advance()` recursions), which is the
termination proof for every loop *of the model*; the `lex` correspondence stream ties the model to
the Go code, where a loop that does not end shows up as `HANG`.
-/
namespace RubyTi.C03
open RubyTi RubyTi.Lexer

/-- Every successful `Advance` strictly shrinks the pending input (unbounded: any state). -/
theorem advance_consumes (st : LState) (h : (advance st).1 = true) :
    (advance st).2.pending.length < st.pending.length :=
  advance_lt st h

/-- `Advance` never invents input: what is pending afterwards was pending before. -/
theorem advance_no_new_input (st : LState) : ∀ a ∈ (advance st).2.pending, a ∈ st.pending :=
  advance_subset st

/-- When `Advance` answers false on NUL-free input, nothing is left pending: the stream ended
because the input is exhausted, not because the lexer gave up. -/
theorem advance_false_consumed (st : LState) (h0 : 0 ∉ st.pending) (h : (advance st).1 = false) :
    (advance st).2.pending = [] :=
  advance_false_pending st h0 h

/-- Each produced token has a kind `parser.Read` handles: no `read error` default, no failing
`Value().(T)` assertion, and identifiers are never empty (so `ToString()[0]` is in range). -/
theorem advance_kind_defined (st : LState) (h : (advance st).1 = true) :
    (readKind (advance st).2).ok = true ∧ identNonEmpty (advance st).2 :=
  ⟨kind_ok st h, ident_nonempty st h⟩

/-- The driver loop: with fuel above the pending length it reaches end-of-stream (never runs out
of fuel), produces at most `|pending|` tokens, keeps NUL-freeness, ends with nothing pending, and
every token is well-kinded. -/
theorem lexAll_spec (fuel : Nat) (st : LState) (hf : st.pending.length < fuel) (h0 : 0 ∉ st.pending) :
    (lexAll fuel st).2.1 = true ∧
    (lexAll fuel st).1.length ≤ st.pending.length ∧
    (lexAll fuel st).2.2.pending = [] ∧
    ∀ t ∈ (lexAll fuel st).1, (readKind t).ok = true ∧ identNonEmpty t := by
  induction fuel generalizing st with
  | zero => omega
  | succ n ih =>
    unfold lexAll
    cases hadv : advance st with
    | mk ok st' =>
      cases ok with
      | false =>
        have := advance_false_pending st h0 (by rw [hadv])
        simp [hadv] at this
        simp [this]
      | true =>
        have hlt := advance_lt st (by rw [hadv])
        have hsub := advance_subset st
        have hk := kind_ok st (by rw [hadv])
        have hi := ident_nonempty st (by rw [hadv])
        simp [hadv] at hlt hsub hk hi
        have h0' : 0 ∉ ({ st' with isSpace := false } : LState).pending := fun hm => h0 (hsub 0 hm)
        have := ih { st' with isSpace := false } (by simp; omega) h0'
        obtain ⟨a, b, c, d⟩ := this
        simp at b
        refine ⟨by simpa using a, by simp; omega, by simpa using c, ?_⟩
        intro t ht
        simp at ht
        rcases ht with rfl | ht
        · exact ⟨hk, hi⟩
        · exact d t ht

theorem filter_nz (l : List Rune) : 0 ∉ l.filter (· != 0) := by simp

/-- **Termination**: tokenizing any rune sequence reaches end-of-stream. -/
theorem tokens_terminate (input : List Rune) : (tokens input).2.1 = true :=
  (lexAll_spec _ _ (by simp; exact Nat.lt_succ_of_le (List.length_filter_le _ _)) (filter_nz input)).1

/-- **Bound**: the number of tokens is at most the input length. -/
theorem tokens_bounded (input : List Rune) : (tokens input).1.length ≤ input.length :=
  Nat.le_trans (lexAll_spec _ _ (by simp; exact Nat.lt_succ_of_le (List.length_filter_le _ _)) (filter_nz input)).2.1
    (List.length_filter_le _ _)

/-- **Consumption**: at end-of-stream no rune is left pending. -/
theorem eos_consumed (input : List Rune) : (tokens input).2.2.pending = [] :=
  (lexAll_spec _ _ (by simp; exact Nat.lt_succ_of_le (List.length_filter_le _ _)) (filter_nz input)).2.2.1

/-- **Kinds**: every token of every input is one `parser.Read` accepts. -/
theorem kind_defined (input : List Rune) :
    ∀ t ∈ (tokens input).1, (readKind t).ok = true ∧ identNonEmpty t :=
  (lexAll_spec _ _ (by simp; exact Nat.lt_succ_of_le (List.length_filter_le _ _)) (filter_nz input)).2.2.2

/-- **Reader refinement** (concrete fields → pending list), see Model/Reader.lean. -/
theorem reader_read_refines (r : Reader) (h0 : 0 ∉ r.history)
    (hf : r.ungetFlg = true → r.char = 0 → r.pending = []) :
    (r.read).1 = (r.pending).headD 0 ∧ (r.read).2.pending = (r.pending).tail :=
  Reader.read_spec r h0 hf

theorem reader_unread_refines (r : Reader) (hfl : r.ungetFlg = false) :
    (r.unread).pending = (if r.char != 0 then [r.char] else []) ++ r.pending :=
  Reader.unread_spec r hfl

/-- `reader.New` + NUL skipping: the reader's initial pending list is the input without NULs,
which is what `tokens` starts from. -/
theorem reader_new_pending (input : List Rune) :
    (Reader.new input).pending = input.filter (· != 0) := by
  simp [Reader.new, Reader.pending, Reader.nz]

/-- Tables regenerated from /repo on every run agree with the constants the model uses. -/
theorem tables_match :
    Gen.advanceCases = [[60, 62], [61], [46], [37], [33, 43, 45, 47], [38], [124],
                        singleCharToks, quoteChars, [35]] ∧
    (Gen.advanceNested.lookup 37) = some [percentNext] ∧
    Gen.lexerLoops.length = 8 ∧
    (∀ c ∈ Gen.identStop, c = 0 ∨ c ∈ Gen.advanceCases.flatten) ∧
    (∀ c ∈ singleCharToks ++ [46], Gen.readCases.flatten.contains (Int.ofNat c) = true) ∧
    Gen.Tok.INT ∈ Gen.readCases.flatten ∧ Gen.Tok.FLOAT ∈ Gen.readCases.flatten ∧
    Gen.Tok.STRING ∈ Gen.readCases.flatten ∧ Gen.Tok.UNKNOWN ∈ Gen.readCases.flatten ∧
    Gen.Tok.NIL ∈ Gen.readCases.flatten := by decide

/-- Non-vacuity: the hypotheses of `lexAll_spec` are met by a concrete state (an input with a
heredoc start and an unterminated quote). -/
example : let st : LState := { pending := [120, 32, 61, 32, 60, 60, 126, 69, 10, 34, 97] }
    st.pending.length < 12 ∧ 0 ∉ st.pending := by decide

end RubyTi.C03

import RubyTi.Model.Token
import RubyTi.Gen.StrategyFacts

/-!
# C13 — consistently renaming user identifiers changes nothing but the names (classification core)

Where a *name* can influence the analysis other than as a map key is token classification in
`parser.Read` (`IsBoolIdentifier`, `IsClassIdentifier`, `IsConstIdentifier`, `IsSymbolIdentifier`).
`classify_depends_on_category`: the kind of token built for an identifier is a function of a small
category tuple of the name — keyword-ness, membership in the configured class list, first byte
upper-case, some lower-case rune, byte length ≥ 2, contains ':' , starts with ':' — so any
renaming that preserves this tuple preserves the token kind.
`ruby_category_refuted`: Ruby's own lexical category (capitalised = constant/class name) is
coarser: `Hoge` and `HG` are both constants in Ruby but get different kinds here (class vs
constant) — the known finding about all-capital class names.
Everything downstream of classification uses names as keys of `TFrame` / `ClassInheritanceMap`
(C19's map model); that part of the property is checked end-to-end by renaming locals, methods and
classes in generated and corpus programs.
-/
namespace RubyTi.C13
open RubyTi RubyTi.Token

/-- the features of a name that `Read` looks at -/
def category (bc : List (List Rune)) (n : List Rune) : Bool × Bool × Bool × Bool × Bool × Bool × Bool × Bool :=
  (n == TRUE_ || n == FALSE_, bc.contains n, isUpper (firstByte n), n.any isLower, decide (byteLen n ≥ 2),
   n.any (· == 58), firstByte n == 58, decide (byteLen n > 1))

inductive Kind where | bool | cls | const | symbol | ident
  deriving DecidableEq, Repr

def kindOf : TK → Kind
  | .bool => .bool
  | .cls _ => .cls
  | .const _ => .const
  | .symbol _ => .symbol
  | _ => .ident

/-- the kind as a function of the category alone -/
def kindOfCategory (c : Bool × Bool × Bool × Bool × Bool × Bool × Bool × Bool) : Kind :=
  let (kw, inBc, up, low, len2, colon, firstColon, len1) := c
  if kw then .bool
  else if inBc || (up && low) then .cls
  else if len2 && !inBc && up && !(colon || low) then .const
  else if len1 && firstColon then .symbol
  else .ident

theorem any_or (n : List Rune) (p q : Rune → Bool) : n.any (fun c => p c || q c) = (n.any p || n.any q) := by
  induction n with
  | nil => rfl
  | cons a t ih => simp [List.any_cons, ih, Bool.or_assoc, Bool.or_comm, Bool.or_left_comm]

theorem classify_kind (bc : List (List Rune)) (n : List Rune) :
    kindOf (classify bc n) =
      (if n == TRUE_ || n == FALSE_ then Kind.bool else if isClassIdent bc n then .cls
       else if isConstIdent bc n then .const else if isSymbolIdent n then .symbol else .ident) := by
  unfold classify
  repeat' split
  all_goals rfl

theorem isConstIdent_cat (bc : List (List Rune)) (n : List Rune) :
    isConstIdent bc n = (decide (byteLen n ≥ 2) && !bc.contains n && isUpper (firstByte n) &&
      !((n.any (· == 58)) || n.any isLower)) := by
  simp only [isConstIdent, any_or]

/-- **Classification depends only on the category of the name.** -/
theorem classify_depends_on_category (bc : List (List Rune)) (n : List Rune) :
    kindOf (classify bc n) = kindOfCategory (category bc n) := by
  rw [classify_kind, isConstIdent_cat]
  rfl

/-- Corollary: two names with the same category get tokens of the same kind. -/
theorem rename_preserves_kind (bc : List (List Rune)) (n m : List Rune) (h : category bc n = category bc m) :
    kindOf (classify bc n) = kindOf (classify bc m) := by
  rw [classify_depends_on_category, classify_depends_on_category, h]

/-- Ruby's lexical category is too coarse: `Hoge` (72 111 103 101) and `HG` (72 71) are both
constants in Ruby, yet one is a class token and the other a constant token. -/
theorem ruby_category_refuted :
    kindOf (classify [] [72, 111, 103, 101]) = .cls ∧ kindOf (classify [] [72, 71]) = .const := by decide

/-- non-vacuity: `Hoge` and `Zed` share a category, so do `abc` and `xy` -/
example : category [] [72, 111, 103, 101] = category [] [90, 101, 100] ∧ category [] [97, 98, 99] = category [] [120, 121] := by
  refine ⟨?_, ?_⟩ <;> rfl

/-! ## names that bind (`IsVariableIdentifier`: case/in patterns, block and method parameters) -/

/-- Ruby's category "local variable name": the first byte is a lower-case letter or `_` -/
def localName (n : List Rune) : Prop := firstByte n = 95 ∨ isLower (firstByte n) = true

/-- every name of the local-variable category binds — `_tmp` exactly like `tmp` or `t` -/
theorem local_names_bind (n : List Rune) (hne : n ≠ []) (h : localName n) : isVariableIdent n = true := by
  unfold isVariableIdent
  have : (n != []) = true := by simpa using hne
  rcases h with h | h <;> simp [this, h]

/-- so renaming a local to any fresh name of the same category keeps its binding behaviour -/
theorem rename_preserves_binding (n m : List Rune) (hn : n ≠ []) (hm : m ≠ []) (h1 : localName n) (h2 : localName m) :
    isVariableIdent n = isVariableIdent m := by
  rw [local_names_bind n hn h1, local_names_bind m hm h2]

example : localName [95, 110, 117, 109] ∧ isVariableIdent [95, 110, 117, 109] = true := by
  constructor
  · left; decide
  · decide

/-- `recv.name` is looked up as a method first; an instance variable spelled like the method (`@name`) is a
different identifier and is consulted only when there is no such method (regenerated from
instanceMethodStrategy.getRequiredValues). Renaming the method alone therefore cannot change which of the two a
call denotes. -/
theorem method_before_instance_variable : Gen.instanceLookupMethodFirst = true := by decide

end RubyTi.C13

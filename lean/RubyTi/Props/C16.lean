import RubyTi.Model.Inherit

/-!
# C16 — user classes: resolution, inheritance and visibility (lookup core)

On the model of `GetMethodT` / `getParentMethodT` over the Go-map models of `TFrame` and
`ClassInheritanceMap`, for every method table, every inheritance graph (cyclic ones included),
every class list and every amount of fuel:
* `resolved_is_asked`: whatever definition is resolved is a definition of the *asked method
  name* with the *asked privacy flag* — in particular a call with an explicit receiver
  (`isPrivate = false`) never resolves to a method stored as private (`private_hidden`);
* `direct_wins`: a method defined in the class itself is resolved to that definition, whatever
  its ancestors define;
* `superclass_found`: a method defined in the direct superclass (ordinary edge) is found when the
  class does not define it; `include_found` the same for an included module (instance lookups);
* `undefined_reported`: if no key with that method name exists at all, resolution fails (the
  evaluator then reports `… is not defined`).
`walk` terminates by construction (structural recursion on fuel and the parent list); that the
entered-set makes `|classes| + 1` fuel sufficient is exercised by the cyclic programs of C02.
-/
namespace RubyTi.C16
open RubyTi RubyTi.Frame RubyTi.Inherit

def keyOk (tbl : Methods) (method : Str) (isPrivate : Bool) (r : Option FrameKey) : Prop :=
  ∀ k, r = some k → k.targetMethod = method ∧ k.isPrivate = isPrivate ∧ has tbl k = true

theorem walkParents_keys (tbl : Methods) (g : Inh) (bc : List Str) (method : Str) (isPrivate isStatic : Bool) (fuel : Nat)
    (hw : ∀ frame cls seen, keyOk tbl method isPrivate (walk fuel tbl g bc frame cls method isPrivate isStatic seen).1) :
    ∀ ps seen, keyOk tbl method isPrivate (walkParents fuel tbl g bc ps method isPrivate isStatic seen).1 := by
  intro ps
  induction ps with
  | nil => intro seen k hk; simp [walkParents] at hk
  | cons p rest ih =>
    intro seen k hk
    simp only [walkParents] at hk
    split at hk
    · split at hk
      · rename_i hh; simp only [Option.some.injEq] at hk; subst hk; simp at hh; exact ⟨by simp [methodKey], by simp [methodKey], hh.1⟩
      · exact ih _ k hk
    · split at hk
      · split at hk
        · rename_i hh; simp only [Option.some.injEq] at hk; subst hk; simp at hh; exact ⟨by simp [methodKey], by simp [methodKey], hh.1⟩
        · exact ih _ k hk
      · split at hk
        · rename_i hh; simp only [Option.some.injEq] at hk; subst hk
          refine ⟨?_, ?_, hh⟩ <;> cases isStatic <;> simp [ordinaryKey, methodKey, classMethodKey]
        · cases hws : walk fuel tbl g bc p.frame p.cls method isPrivate isStatic seen with
          | mk r s =>
            rw [hws] at hk
            cases r with
            | some r' =>
              simp only [Option.some.injEq] at hk; subst hk
              exact hw p.frame p.cls seen r' (by rw [hws])
            | none => exact ih _ k hk

theorem walk_keys (tbl : Methods) (g : Inh) (bc : List Str) (method : Str) (isPrivate isStatic : Bool) (fuel : Nat) :
    ∀ frame cls seen, keyOk tbl method isPrivate (walk fuel tbl g bc frame cls method isPrivate isStatic seen).1 := by
  induction fuel with
  | zero => intro frame cls seen k hk; simp [walk] at hk
  | succ n ihn =>
    intro frame cls seen k hk
    simp only [walk] at hk
    split at hk
    · simp at hk
    · exact walkParents_keys tbl g bc method isPrivate isStatic n ihn _ _ k hk

/-- whatever is resolved is an existing definition of the asked method with the asked privacy flag -/
theorem resolved_is_asked (fuel : Nat) (tbl : Methods) (g : Inh) (bc : List Str) (frame cls method : Str) (isPrivate : Bool)
    (k : FrameKey) (h : getMethodT fuel tbl g bc frame cls method isPrivate = some k) :
    k.targetMethod = method ∧ k.isPrivate = isPrivate ∧ has tbl k = true := by
  have hw := walk_keys tbl g bc method isPrivate false fuel
  unfold getMethodT at h
  simp only [] at h
  split at h
  · rename_i hh; simp only [Option.some.injEq] at h; subst h; exact ⟨by simp [methodKey], by simp [methodKey], hh⟩
  · cases h1 : (walk fuel tbl g bc frame cls method isPrivate false []).1 with
    | some r =>
      rw [h1] at h; simp only [Option.some.injEq] at h; subst h
      exact hw frame cls [] r h1
    | none =>
      rw [h1] at h
      simp only [] at h
      split at h
      · rename_i hh; simp only [Option.some.injEq] at h; subst h; exact ⟨by simp [methodKey], by simp [methodKey], hh⟩
      · cases h2 : (walk fuel tbl g bc "Builtin".toList cls method isPrivate false []).1 with
        | some r =>
          rw [h2] at h; simp only [Option.some.injEq] at h; subst h
          exact hw "Builtin".toList cls [] r h2
        | none =>
          rw [h2] at h
          simp only [] at h
          split at h
          · rename_i hh; simp only [Option.some.injEq] at h; subst h; simp at hh; exact ⟨by simp [methodKey], by simp [methodKey], hh.2⟩
          · cases h

/-- a call with an explicit receiver never resolves to a private definition -/
theorem private_hidden (fuel : Nat) (tbl : Methods) (g : Inh) (bc : List Str) (frame cls method : Str) (k : FrameKey)
    (h : getMethodT fuel tbl g bc frame cls method false = some k) : k.isPrivate = false :=
  (resolved_is_asked fuel tbl g bc frame cls method false k h).2.1

/-- the class's own definition wins -/
theorem direct_wins (fuel : Nat) (tbl : Methods) (g : Inh) (bc : List Str) (frame cls method : Str) (isPrivate : Bool)
    (h : has tbl (methodKey frame cls method isPrivate) = true) :
    getMethodT fuel tbl g bc frame cls method isPrivate = some (methodKey frame cls method isPrivate) := by
  simp [getMethodT, h]

/-- a method of the direct superclass is found when the class itself does not define it -/
theorem superclass_found (fuel : Nat) (tbl : Methods) (g : Inh) (bc : List Str) (frame cls method : Str) (isPrivate : Bool)
    (pf pc : Str) (rest : List Node)
    (hself : has tbl (methodKey frame cls method isPrivate) = false)
    (hg : parentsOf g frame cls = { frame := pf, cls := pc } :: rest)
    (hp : has tbl (methodKey pf pc method isPrivate) = true) :
    getMethodT (fuel + 1) tbl g bc frame cls method isPrivate = some (methodKey pf pc method isPrivate) := by
  simp [getMethodT, hself, walk, hg, walkParents, hp, ordinaryKey]

/-- class methods: the own definition wins, and a direct superclass's class method is found -/
theorem class_method_direct_wins (fuel : Nat) (tbl : Methods) (g : Inh) (bc : List Str) (frame cls method : Str) (isPrivate : Bool)
    (h : has tbl (classMethodKey frame cls method isPrivate) = true) :
    getClassMethodT fuel tbl g bc frame cls method isPrivate = some (classMethodKey frame cls method isPrivate) := by
  simp [getClassMethodT, h]

theorem class_method_superclass_found (fuel : Nat) (tbl : Methods) (g : Inh) (bc : List Str) (frame cls method : Str) (isPrivate : Bool)
    (pf pc : Str) (rest : List Node)
    (hself : has tbl (classMethodKey frame cls method isPrivate) = false)
    (hb : has tbl (classMethodKey "Builtin".toList cls method isPrivate) = false)
    (hg : parentsOf g frame cls = { frame := pf, cls := pc } :: rest)
    (hp : has tbl (classMethodKey pf pc method isPrivate) = true) :
    getClassMethodT (fuel + 1) tbl g bc frame cls method isPrivate = some (classMethodKey pf pc method isPrivate) := by
  have hb' : has tbl (classMethodKey ['B', 'u', 'i', 'l', 't', 'i', 'n'] cls method isPrivate) = false := hb
  simp [getClassMethodT, hself, hb', walk, hg, walkParents, hp, ordinaryKey]

/-- an included module's method is found for instance lookups -/
theorem include_found (fuel : Nat) (tbl : Methods) (g : Inh) (bc : List Str) (frame cls method : Str) (isPrivate : Bool)
    (mf mc : Str) (rest : List Node)
    (hself : has tbl (methodKey frame cls method isPrivate) = false)
    (hg : parentsOf g frame cls = { frame := mf, cls := mc, isInclude := true } :: rest)
    (hp : has tbl (methodKey (builtinFrame bc { frame := mf, cls := mc, isInclude := true }) mc method isPrivate) = true) :
    getMethodT (fuel + 1) tbl g bc frame cls method isPrivate =
      some (methodKey (builtinFrame bc { frame := mf, cls := mc, isInclude := true }) mc method isPrivate) := by
  simp [getMethodT, hself, walk, hg, walkParents, hp]

/-- nothing defines the method under that privacy: resolution fails, for every graph and fuel -/
theorem undefined_reported (fuel : Nat) (tbl : Methods) (g : Inh) (bc : List Str) (frame cls method : Str) (isPrivate : Bool)
    (hnone : ∀ k : FrameKey, k.targetMethod = method → k.isPrivate = isPrivate → has tbl k = false) :
    getMethodT fuel tbl g bc frame cls method isPrivate = none := by
  cases h : getMethodT fuel tbl g bc frame cls method isPrivate with
  | none => rfl
  | some k =>
    exfalso
    have hk := resolved_is_asked fuel tbl g bc frame cls method isPrivate k h
    have hno := hnone k hk.1 hk.2.1
    rw [hk.2.2] at hno
    cases hno


/-! ### Ancestor order: Object is searched last -/

theorem addParent_before_object (xs : List Node) (p : Node) (hx : ∀ x ∈ xs, (x == objectNode) = false) :
    addParent (xs ++ [objectNode]) p = xs ++ [p, objectNode] := by
  induction xs with
  | nil => simp [addParent]
  | cons x rest ih =>
    have hx0 : (x == objectNode) = false := hx x (by simp)
    simp only [List.cons_append, addParent, hx0]
    rw [ih (fun y hy => hx y (by simp [hy]))]
    simp

/-- **Registration order is search order, with Object last**: a class registers Object first and then its
explicit ancestors one by one (`AddParentNode`); the resulting list is the explicit ancestors in
registration order followed by Object — for every number of ancestors. -/
theorem explicit_ancestors_before_object (ps : List Node) (hp : ∀ x ∈ ps, (x == objectNode) = false) :
    ps.foldl addParent [objectNode] = ps ++ [objectNode] := by
  suffices h : ∀ (done : List Node), (∀ x ∈ done, (x == objectNode) = false) →
      ps.foldl addParent (done ++ [objectNode]) = done ++ ps ++ [objectNode] by
    simpa using h [] (by simp)
  induction ps with
  | nil => intro done _; simp
  | cons p rest ih =>
    intro done hd
    simp only [List.foldl_cons]
    rw [addParent_before_object done p hd]
    have : done ++ [p, objectNode] = (done ++ [p]) ++ [objectNode] := by simp
    rw [this, ih (fun y hy => hp y (by simp [hy])) (done ++ [p])]
    · simp
    · intro x hx
      rcases List.mem_append.mp hx with h | h
      · exact hd x h
      · simp at h; subst h; exact hp x (by simp)

/-- **An override in the superclass wins over Object's method**: for a class that registered Object and then
its superclass, a method the superclass defines is resolved to the superclass's definition — whatever
Object (frame `Builtin`, class `""`) defines under the same name. -/
theorem superclass_override_wins (fuel : Nat) (tbl : Methods) (g : Inh) (bc : List Str) (frame cls method : Str) (isPrivate : Bool)
    (pf pc : Str)
    (hne : (({ frame := pf, cls := pc } : Node) == objectNode) = false)
    (hself : has tbl (methodKey frame cls method isPrivate) = false)
    (hg : parentsOf g frame cls = [({ frame := pf, cls := pc } : Node)].foldl addParent [objectNode])
    (hp : has tbl (methodKey pf pc method isPrivate) = true) :
    getMethodT (fuel + 1) tbl g bc frame cls method isPrivate = some (methodKey pf pc method isPrivate) := by
  rw [explicit_ancestors_before_object _ (by intro x hx; simp at hx; subst hx; exact hne)] at hg
  exact superclass_found fuel tbl g bc frame cls method isPrivate pf pc [objectNode] hself hg hp

/-- non-vacuity: superclass and an included module registered after Object end up ahead of it -/
example :
    let sup : Node := { frame := [], cls := "Pa".toList, isInclude := false, isExtend := false }
    let inc : Node := { frame := [], cls := "Mo".toList, isInclude := true, isExtend := false }
    [sup, inc].foldl addParent [objectNode] = [sup, inc, objectNode] := by decide


/-! ### Protected calls: the ancestor walk -/

theorem anyAncestor_mem (fuel : Nat) (g : Inh) (ps : List Node) (target : Node) (seen : List Node) (h : target ∈ ps) :
    (anyAncestor fuel g ps target seen).1 = true := by
  induction ps generalizing seen with
  | nil => simp at h
  | cons p rest ih =>
    simp only [anyAncestor]
    by_cases hp : (p == target) = true
    · simp [hp]
    · simp only [hp]
      have hmem : target ∈ rest := by
        rcases List.mem_cons.mp h with h1 | h1
        · subst h1; simp at hp
        · exact h1
      cases hrec : isAncestor fuel g p target seen with
      | mk b s =>
        cases b
        · exact ih s hmem
        · rfl

/-- **A protected method may be called from a direct subclass**: when the defining class is among the parents of
the calling class, the check passes — whatever else the graph holds (cycles included). -/
theorem protected_from_child (fuel : Nat) (g : Inh) (caller defined : Node)
    (h : defined ∈ parentsOfNode g caller) : protectedOk (fuel + 1) g caller defined = true := by
  simp [protectedOk, isAncestor, anyAncestor_mem fuel g _ defined [caller] h]

/-- the class itself may call its protected methods on other instances -/
theorem protected_from_self (fuel : Nat) (g : Inh) (c : Node) : protectedOk fuel g c c = true := by
  simp [protectedOk]

/-- `c₀ → c₁ → … → target`: every class of the chain has the next one as its FIRST parent (what a class gets
from `class C < B`: `AddParentNode` puts the superclass ahead of Object and of later includes) -/
def linked (g : Inh) : List Node → Prop
  | a :: b :: rest => (∃ more, parentsOfNode g a = b :: more) ∧ linked g (b :: rest)
  | _ => True

/-- **A protected method may be called from a descendant at any depth** (superclass chain): for a chain
`c → d₁ → … → dₙ → target` of distinct classes, none of them entered before, the walk finds `target` — for every
chain length, given at least that much fuel. -/
theorem ancestor_along_chain (g : Inh) (target : Node) :
    ∀ (chain : List Node) (c : Node) (seen : List Node) (fuel : Nat),
      linked g (c :: chain ++ [target]) → (c :: chain).Nodup → (∀ x ∈ c :: chain, x ∉ seen) →
      chain.length + 1 ≤ fuel → (isAncestor fuel g c target seen).1 = true := by
  intro chain
  induction chain with
  | nil =>
    intro c seen fuel hl _ hs hf
    obtain ⟨f, rfl⟩ : ∃ f, fuel = f + 1 := ⟨fuel - 1, by omega⟩
    have hc : seen.contains c = false := by
      simpa [List.contains_eq_mem] using hs c (by simp)
    obtain ⟨more, hp⟩ : ∃ more, parentsOfNode g c = target :: more := by simpa [linked] using hl
    have hc' : c ∉ seen := hs c (by simp)
    simp [isAncestor, hc', hp, anyAncestor]
  | cons d rest ih =>
    intro c seen fuel hl hn hs hf
    obtain ⟨f, rfl⟩ : ∃ f, fuel = f + 1 := ⟨fuel - 1, by simp at hf; omega⟩
    have hc : seen.contains c = false := by
      simpa [List.contains_eq_mem] using hs c (by simp)
    have hl' : (∃ more, parentsOfNode g c = d :: more) ∧ linked g (d :: rest ++ [target]) := by simpa [linked] using hl
    obtain ⟨more, hpc⟩ := hl'.1
    have hn' : (d :: rest).Nodup := (List.nodup_cons.mp hn).2
    have hcd : ∀ x ∈ d :: rest, x ≠ c := by
      intro x hx hxc; subst hxc; exact (List.nodup_cons.mp hn).1 hx
    have hrec := ih d (c :: seen) f hl'.2 hn'
      (by intro x hx hmem
          rcases List.mem_cons.mp hmem with h | h
          · exact hcd x hx h
          · exact hs x (List.mem_cons_of_mem _ hx) h)
      (by simp at hf ⊢; omega)
    simp only [isAncestor, hc, hpc, anyAncestor]
    by_cases hdt : (d == target) = true
    · simp [hdt]
    · simp only [hdt]
      cases hr : isAncestor f g d target (c :: seen) with
      | mk b s =>
        rw [hr] at hrec
        simp at hrec
        subst hrec
        rfl

/-- corollary for the check itself: a descendant at any depth passes the protected check -/
theorem protected_from_descendant (g : Inh) (caller target : Node) (chain : List Node)
    (hl : linked g (caller :: chain ++ [target])) (hn : (caller :: chain).Nodup) :
    protectedOk (chain.length + 1) g caller target = true := by
  simp [protectedOk, ancestor_along_chain g target chain caller [] (chain.length + 1) hl hn (by simp) (Nat.le_refl _)]

/-- `b` is reachable from `a` through one or more parent edges -/
inductive Reach (g : Inh) : Node → Node → Prop
  | step {a p : Node} : p ∈ parentsOfNode g a → Reach g a p
  | trans {a p b : Node} : p ∈ parentsOfNode g a → Reach g p b → Reach g a b

theorem anyAncestor_zero (g : Inh) (t : Node) (ps : List Node) (seen : List Node)
    (h : (anyAncestor 0 g ps t seen).1 = true) : ∃ p ∈ ps, p = t := by
  induction ps generalizing seen with
  | nil => simp [anyAncestor] at h
  | cons p rest ih =>
    simp only [anyAncestor] at h
    by_cases hp : (p == t) = true
    · exact ⟨p, by simp, by simpa using hp⟩
    · simp only [hp, isAncestor] at h
      obtain ⟨q, hq, e⟩ := ih _ h
      exact ⟨q, List.mem_cons_of_mem _ hq, e⟩

/-- **The walk accepts only real ancestors** (soundness, every graph, every fuel, every entered-set): when
`isAncestorNode` answers true, the target is reachable from the calling class through parent edges. -/
theorem isAncestor_sound (g : Inh) (t : Node) : ∀ (fuel : Nat),
    (∀ c seen, (isAncestor fuel g c t seen).1 = true → Reach g c t) ∧
    (∀ ps seen, (anyAncestor fuel g ps t seen).1 = true → ∃ p ∈ ps, p = t ∨ Reach g p t) := by
  intro fuel
  induction fuel with
  | zero =>
    refine ⟨?_, ?_⟩
    · intro c seen h; simp [isAncestor] at h
    · intro ps seen h
      obtain ⟨p, hp, e⟩ := anyAncestor_zero g t ps seen h
      exact ⟨p, hp, Or.inl e⟩
  | succ n ih =>
    have h1 : ∀ c seen, (isAncestor (n + 1) g c t seen).1 = true → Reach g c t := by
      intro c seen h
      simp only [isAncestor] at h
      split at h
      · simp at h
      · obtain ⟨p, hp, e⟩ := ih.2 _ _ h
        rcases e with e | e
        · subst e; exact Reach.step hp
        · exact Reach.trans hp e
    refine ⟨h1, ?_⟩
    intro ps
    induction ps with
    | nil => intro seen h; simp [anyAncestor] at h
    | cons p rest ihps =>
      intro seen h
      simp only [anyAncestor] at h
      by_cases hp : (p == t) = true
      · exact ⟨p, by simp, Or.inl (by simpa using hp)⟩
      · simp only [hp] at h
        cases hr : isAncestor (n + 1) g p t seen with
        | mk b s =>
          rw [hr] at h
          cases b
          · obtain ⟨q, hq, e⟩ := ihps s h
            exact ⟨q, List.mem_cons_of_mem _ hq, e⟩
          · exact ⟨p, by simp, Or.inr (h1 p seen (by rw [hr]))⟩

/-- **A protected method called from outside the hierarchy is reported**: if the calling class is not the
defining class and the defining class is not reachable from it, the check fails — whatever the fuel. -/
theorem protected_outsider_reported (fuel : Nat) (g : Inh) (caller defined : Node)
    (hne : caller ≠ defined) (hun : ¬ Reach g caller defined) : protectedOk fuel g caller defined = false := by
  simp only [protectedOk]
  have h1 : (caller == defined) = false := by simpa using hne
  cases h : (isAncestor fuel g caller defined []).1 with
  | false => simp [h1]
  | true => exact absurd ((isAncestor_sound g defined fuel).1 caller [] h) hun

/-- non-vacuity: `class C < B`, `class B < A` (each also with the implicit Object ancestor) is a linked chain of distinct classes -/
example :
    let n := fun (c : String) => ({ frame := [], cls := c.toList } : Node)
    let g : Inh := [(([], "C".toList), [n "B", objectNode]), (([], "B".toList), [n "A", objectNode])]
    linked g (n "C" :: [n "B"] ++ [n "A"]) ∧ (n "C" :: [n "B"]).Nodup := by
  simp [linked, parentsOfNode, parentsOf, Frame.lookup]

/-! tests on one concrete graph (labelled as tests): a grandchild passes, an outsider does not, and a cyclic
declaration (`class L < R`, `class R < L`) ends the walk -/
def tNode (c : String) : Node := { frame := [], cls := c.toList }
def tGraph : Inh := [(([], "C".toList), [tNode "B", objectNode]), (([], "B".toList), [tNode "A", objectNode]),
                     (([], "L".toList), [tNode "R"]), (([], "R".toList), [tNode "L"])]
example : protectedOk 4 tGraph (tNode "C") (tNode "A") = true := by
  simp [protectedOk, isAncestor, anyAncestor, parentsOfNode, parentsOf, tGraph, tNode, Frame.lookup, objectNode]
example : protectedOk 4 tGraph (tNode "E") (tNode "A") = false := by
  simp [protectedOk, isAncestor, anyAncestor, parentsOfNode, parentsOf, tGraph, tNode, Frame.lookup, objectNode]
example : protectedOk 4 tGraph (tNode "L") (tNode "A") = false := by
  simp [protectedOk, isAncestor, anyAncestor, parentsOfNode, parentsOf, tGraph, tNode, Frame.lookup, objectNode]

end RubyTi.C16

import RubyTi.Basic
import RubyTi.Gen.MainFacts

/-!
# C24 — the LLM navigator's call graph matches the source (recording model)

A call expression is *evaluated* many times: once per round (define, collect, inference, check)
and additionally on a look-ahead copy of the parser whenever it occurs in the condition of an
`if` / `elsif` / `unless` / postfix conditional. `NewMethodEvaluator` appends a call point only
when the round is `check` and the parser is not a look-ahead copy (after the `fix:` commit).
`callers_count`: for **every** schedule of evaluations in which each call site is evaluated for
real exactly once in the check round — and any number of times in other rounds or on look-ahead
copies, in any interleaving — the log holds exactly one entry per call site, with its row and
enclosing method/class; hence `total callers` of a method is the number of its call sites.
The guard itself and the marking of the copy are re-extracted from the source on every run.
-/
namespace RubyTi.C24
open RubyTi

abbrev Str := List Char

structure CallSite where
  key : Str            -- frame ++ class ++ method of the callee as resolved at the call
  row : Nat
  callerClass : Str
  callerMethod : Str
  deriving Repr, DecidableEq

inductive Round where | define | collect | inference | check
  deriving Repr, DecidableEq

/-- one evaluation of a call expression -/
structure Evaluation where
  site : CallSite
  round : Round
  lookAhead : Bool
  deriving Repr, DecidableEq

def records (e : Evaluation) : Bool := e.round == .check && !e.lookAhead

/-- NewMethodEvaluator's effect on base.MethodCallPoint over a whole run -/
def log (evals : List Evaluation) : List CallSite := (evals.filter records).map (·.site)

/-- **One entry per call site.** If the evaluations that record are, as a list of sites, a
permutation of the program's call sites (each evaluated for real exactly once in the check
round), then for every callee the number of logged callers is the number of its call sites. -/
theorem callers_count (sites : List CallSite) (evals : List Evaluation)
    (h : ((evals.filter records).map (·.site)).Perm sites) (k : Str) :
    ((log evals).filter (·.key == k)).length = (sites.filter (·.key == k)).length := by
  unfold log
  exact (h.filter _).length_eq

/-- evaluations in other rounds and on look-ahead copies never add an entry, wherever they are interleaved -/
theorem non_recording_ignored (a b : List Evaluation) (e : Evaluation) (he : records e = false) :
    log (a ++ e :: b) = log (a ++ b) := by
  simp [log, List.filter_append, List.filter_cons, he]

/-- each logged entry carries the row and enclosing method/class of its call site -/
theorem log_entries_are_sites (evals : List Evaluation) :
    ∀ c ∈ log evals, ∃ e ∈ evals, e.site = c ∧ e.round = .check ∧ e.lookAhead = false := by
  intro c hc
  simp only [log, List.mem_map, List.mem_filter] at hc
  obtain ⟨e, ⟨he, hr⟩, rfl⟩ := hc
  refine ⟨e, he, rfl, ?_⟩
  simp [records] at hr
  exact hr

/-- the guard in NewMethodEvaluator and the marking of the look-ahead copy, re-extracted each run -/
theorem recording_guard_facts :
    Gen.callPointGuarded = true ∧ Gen.callPointWriters = 1 ∧ Gen.lookAheadMarkedOnCopy = true := by decide

/-- non-vacuity: a call in an `if` condition is evaluated 4 + 4 times and logged once -/
example :
    let s : CallSite := ⟨"ok?".toList, 11, [], "driver".toList⟩
    let evals := [Round.define, .collect, .inference, .check].flatMap fun r => [⟨s, r, true⟩, ⟨s, r, false⟩]
    log evals = [s] := by decide

end RubyTi.C24

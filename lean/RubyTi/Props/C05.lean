import RubyTi.Model.Sig
import RubyTi.Gen.MapRanges

/-!
# C05 — same input, same output (run-to-run determinism of the output assembly)

Model of the only sources of run-to-run variation in the output assembly: Go map iteration order
(an arbitrary permutation of the entries) and the unstable `slices.SortFunc` (an arbitrary sorted
permutation). Theorem `sorted_output_unique`: whatever order the map yields and whatever sorted
permutation the sort returns, the printed sequence is the same — provided entries that tie under
the comparator render identically, which holds when the comparator distinguishes every field the
printers show except `Document`/`IsPrivate` (those are functions of the map key).
`map_ranges_reviewed`: every `range` over a map in the module is on a reviewed list (regenerated
each run), each with the reason it cannot influence output order.
Not carried by a model: scheduler / GC effects and the race between the 500 ms watchdog and exit.
-/
namespace RubyTi.C05
open RubyTi RubyTi.Sig RubyTi.Lex

theorem map_render_of_map_key {α β} (key : α → List Nat) (render : α → β) :
    ∀ (o₁ o₂ : List α), o₁.map key = o₂.map key →
      (∀ a ∈ o₁, ∀ b ∈ o₂, key a = key b → render a = render b) → o₁.map render = o₂.map render
  | [], [], _, _ => rfl
  | [], _ :: _, h, _ => by simp at h
  | _ :: _, [], h, _ => by simp at h
  | a :: t, b :: u, h, hr => by
    simp only [List.map_cons, List.cons.injEq] at h ⊢
    exact ⟨hr a (by simp) b (by simp) h.1,
      map_render_of_map_key key render t u h.2 (fun x hx y hy => hr x (by simp [hx]) y (by simp [hy]))⟩

/-- **Any map order, any sort: one output.** The comparator is "`key a ≤ key b` lexicographically".
If entries with equal keys render identically, then whatever order the map yields (`l₁ ~ l₂`) and
whatever sorted permutation the unstable sort returns (`o₁`, `o₂`), the rendered sequences agree. -/
theorem sorted_output_unique {α β} (key : α → List Nat) (render : α → β)
    {l₁ l₂ o₁ o₂ : List α} (h : l₁.Perm l₂) (p₁ : o₁.Perm l₁) (p₂ : o₂.Perm l₂)
    (tie : ∀ a ∈ l₁, ∀ b ∈ l₁, key a = key b → render a = render b)
    (s₁ : o₁.Pairwise (fun a b => lexLe (key a) (key b) = true))
    (s₂ : o₂.Pairwise (fun a b => lexLe (key a) (key b) = true)) :
    o₁.map render = o₂.map render := by
  have hp : o₁.Perm o₂ := p₁.trans (h.trans p₂.symm)
  have hk : o₁.map key = o₂.map key := by
    apply List.Perm.eq_of_pairwise (le := fun a b => lexLe a b = true)
    · intro a b _ _ hab hba; exact lexLe_antisymm a b hab hba
    · exact List.pairwise_map.mpr s₁
    · exact List.pairwise_map.mpr s₂
    · exact hp.map key
  apply map_render_of_map_key key render o₁ o₂ hk
  intro a ha b hb hab
  exact tie a (p₁.subset ha) b (h.symm.subset (p₂.subset hb)) hab

/-- the insertion sort of the model returns a sorted permutation, i.e. one admissible result -/
theorem insertSig_perm (fn : String) (x : Sig) (l : List Sig) : (insertSig fn x l).Perm (x :: l) := by
  induction l with
  | nil => simp [insertSig]
  | cons y ys ih =>
    simp only [insertSig]
    split
    · exact List.Perm.refl _
    · exact (List.Perm.cons y ih).trans (List.Perm.swap x y ys)

theorem sortSigs_perm (fn : String) (l : List Sig) : (sortSigs fn l).Perm l := by
  induction l with
  | nil => exact List.Perm.refl _
  | cons x xs ih => exact (insertSig_perm fn x _).trans (List.Perm.cons x ih)

/-- the comparator distinguishes every rendered field except Document / IsPrivate: equal keys mean
equal method, class, frame, static flag, detail, file name and row (for both comparators, with the
field order regenerated from base/signature.go). -/
theorem sortKeys_cover :
    Gen.sortKeys = [("GetSortedTSignatures", ["Method", "Class", "Frame", "IsStatic", "Detail", "FileName", "Row"]),
                    ("GetSortedTSignaturesByClass", ["Class", "Method", "Frame", "IsStatic", "Detail", "FileName", "Row"])] := by
  decide

/-- every `range` over a map in the module, with the reason it cannot influence output order:
the two sorted getters (sorted afterwards, see `sorted_output_unique`); RestoreArgumentTypes /
RestoreFrame / cleanSimpleIdentifires / narrowing (per-key updates of another map: commutative);
inferArguments (maximum over keys) / convertDeclarations (copy into another map) / sortedKeywordNames (keys collected, then sorted) — side tools, see C25/C26;
PrintTargetClassExtends (minimum over frames); printAllClasses (set insertion, then sorted; second
range collects into a slice that is sorted); printInheritanceMap / printMatchingSignatures
(`--define`, whose records are an unordered set by the property's own statement). -/
def reviewedMapRanges : List (String × String × Nat) :=
  [("base/signature.go", "GetSortedTSignatures", 1),
   ("base/signature.go", "GetSortedTSignaturesByClass", 1),
   ("base/t_frame.go", "RestoreArgumentTypes", 1),
   ("base/t_frame.go", "RestoreFrame", 1),
   ("cmd/c2json/main.go", "inferArguments", 1),
   ("cmd/out.go", "PrintTargetClassExtends", 1),
   ("cmd/out.go", "printAllClasses", 1),
   ("cmd/out.go", "printAllClasses", 2),
   ("cmd/out.go", "printInheritanceMap", 1),
   ("cmd/out.go", "printMatchingSignatures", 1),
   ("cmd/rbs2json/main.go", "convertDeclarations", 1),
   ("cmd/rbs2json/main.go", "sortedKeywordNames", 1),
   ("eval/ifunless.go", "narrowing", 1),
   ("main.go", "cleanSimpleIdentifires", 1)]

/-- a map range that is not on the reviewed list breaks this obligation until it is reviewed -/
theorem map_ranges_reviewed : ∀ r ∈ Gen.mapRanges, r ∈ reviewedMapRanges := by decide

/-- What each reviewed loop hands from one iteration to the next (plain variables declared outside the loop body
and assigned inside it): collectors that are sorted afterwards (`sortedSignatures`, `classes`, `names`), a maximum
(`maxArgumentIndex`), a minimum over frames (`target`) — and nothing for the loops whose iterations are per-key
updates. An accumulator hoisted out of such a loop (the body of `narrowing` builds `variants` afresh for every
variable) makes the result depend on Go's map order and shows up here. -/
def reviewedCarried : List (String × String × Nat × List String) :=
  [("base/signature.go", "GetSortedTSignatures", 1, ["sortedSignatures"]),
   ("base/signature.go", "GetSortedTSignaturesByClass", 1, ["sortedSignatures"]),
   ("base/t_frame.go", "RestoreArgumentTypes", 1, []),
   ("base/t_frame.go", "RestoreFrame", 1, []),
   ("cmd/c2json/main.go", "inferArguments", 1, ["maxArgumentIndex"]),
   ("cmd/out.go", "PrintTargetClassExtends", 1, ["target"]),
   ("cmd/out.go", "printAllClasses", 1, []),
   ("cmd/out.go", "printAllClasses", 2, ["classes"]),
   ("cmd/out.go", "printInheritanceMap", 1, []),
   ("cmd/out.go", "printMatchingSignatures", 1, []),
   ("cmd/rbs2json/main.go", "convertDeclarations", 1, []),
   ("cmd/rbs2json/main.go", "sortedKeywordNames", 1, ["names"]),
   ("eval/ifunless.go", "narrowing", 1, []),
   ("main.go", "cleanSimpleIdentifires", 1, [])]

/-- the loop-carried variables of every map range are the reviewed ones -/
theorem map_range_carried_reviewed : Gen.mapRangeCarried = reviewedCarried := by decide

/-- non-vacuity: two overloads that tie on method, class and frame are separated by Detail -/
example :
    let a : Sig := ⟨"test".toList, "Test.test(Integer)".toList, "Builtin".toList, "Test".toList, false, false, "unknown".toList, 0, []⟩
    let b : Sig := { a with detail := "Test.test(String)".toList }
    keyFor (orderOf "GetSortedTSignatures") a ≠ keyFor (orderOf "GetSortedTSignatures") b ∧
    sortSigs "GetSortedTSignatures" [a, b] = sortSigs "GetSortedTSignatures" [b, a] := by decide

end RubyTi.C05

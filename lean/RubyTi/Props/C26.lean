import RubyTi.Model.C2json

/-!
# C26 — c2json signatures accept exactly the argument counts the C binding accepts

On the abstract definition (macros of the spec as extracted, format string of `mrb_get_args`):
`tiAccepts (infer d) k = cAccepts d k` for every definition and every `k`. The extraction of the
spec from C text (regular expressions; repaired by a `fix:` commit so that a `|`-combination is
captured whole) and ti's arity rule itself are validated end-to-end. Determinism: `inferArguments`
ranges over a map only in the GET_*_ARG path to compute a maximum (order-insensitive; reviewed in
C05's map-range table).
-/
namespace RubyTi.C26
open RubyTi.C2json

theorem count_replicate_self (n : Nat) (a : TiArg) : (List.replicate n a).count a = n := by
  simp

theorem inferFormat_req_opt (f : List Fmt) (opt : Bool) :
    (inferFormat f opt).count TiArg.required + (inferFormat f opt).count TiArg.optional = fmtVals f := by
  induction f generalizing opt with
  | nil => simp [inferFormat, fmtVals]
  | cons c r ih =>
    have iht := ih true
    have iho := ih opt
    cases c <;> cases opt <;> simp [inferFormat, fmtVals, List.count_cons] at * <;> omega

theorem inferFormat_rest (f : List Fmt) (opt : Bool) :
    (inferFormat f opt).contains TiArg.rest = f.contains Fmt.star := by
  induction f generalizing opt with
  | nil => simp [inferFormat]
  | cons c r ih =>
    have iht := ih true
    have iho := ih opt
    cases c <;> cases opt <;> simp [inferFormat] at * <;> simp [*]

theorem inferFormat_opt_noreq (f : List Fmt) : (inferFormat f true).count TiArg.required = 0 := by
  induction f with
  | nil => simp [inferFormat]
  | cons c r ih => cases c <;> simp [inferFormat, List.count_cons, ih]

theorem inferFormat_required (f : List Fmt) :
    (inferFormat f false).count TiArg.required = fmtReq f := by
  induction f with
  | nil => rfl
  | cons c r ih =>
    cases c <;> simp only [inferFormat, fmtReq]
    · simp [List.count_cons, ih]
    · exact inferFormat_opt_noreq r
    · simp [List.count_cons, ih]
    · simp [List.count_cons, ih]
    · exact ih

/-- **Arity**: the generated configuration accepts `k` arguments exactly when the C definition does. -/
theorem c2j_arity (d : CDef) (k : Nat) : tiAccepts (infer d) k = cAccepts d k := by
  unfold infer cAccepts
  by_cases hn : d.spec.none = true
  · simp [hn, tiAccepts]
    cases k <;> simp
  · simp only [hn, Bool.false_eq_true, ite_false]
    by_cases ha : d.spec.any = true
    · simp [ha, tiAccepts]
    · simp only [ha, Bool.false_eq_true, ite_false]
      cases hf : d.format with
      | some f =>
        simp only [tiAccepts]
        have h1 := inferFormat_req_opt f false
        have h2 := inferFormat_required f
        rw [h2, inferFormat_rest f false]
        have : fmtReq f + (inferFormat f false).count TiArg.optional = fmtVals f := by omega
        rw [this]
      | none =>
        simp only [tiAccepts]
        cases hr : d.spec.rest <;> cases hb : d.spec.block <;>
          simp [List.count_append, List.count_replicate, List.count_cons] <;> 
          (by_cases h1 : d.spec.req + d.spec.post ≤ k <;> simp [h1] <;> omega)

/-- non-vacuity / the repaired witness: REQ(1)|REST() accepts 1, 2, 3 … arguments and rejects 0 -/
example : (List.range 5).map (tiAccepts (infer { spec := { req := 1, rest := true } })) = [false, true, true, true, true] := by decide

example : (List.range 5).map (tiAccepts (infer { format := some [.val, .bar, .val, .amp] })) = [false, true, true, false, false] := by decide

end RubyTi.C26

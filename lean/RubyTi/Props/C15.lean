import RubyTi.Model.Propagate
import RubyTi.Props.C09

/-!
# C15 — user method parameter types are inferred from all call sites (propagation core)

On the model of `propagationForCalledTo` (`Model/Propagate.lean`, tied to the Go function by the
`prop` correspondence stream through a verif hook: sequences of call-site argument types replayed
round after round, from an empty slot, a plain value or a defaulted parameter):
* `first_site_sets_slot`: the first call site gives the parameter the argument's type;
* `union_accumulates`: once the slot is a union inferred from calls, every further site is appended
  to it (never replaced, whatever the round tags are);
* `covers_step`: for a slot inferred from calls and a scalar argument, after the step the slot
  covers the argument, and everything a union slot covered before is still covered;
* `covers_all_sites`: hence after replaying ANY list of scalar call-site types in a round, starting
  from an empty slot or a slot inferred in an earlier round, the slot covers every one of them —
  the statement's "covers the union of the argument types at all call sites".
Return unification, `def` header parsing and the order of definition and calls are evaluator
behaviour: end-to-end.
-/
namespace RubyTi.C15
open RubyTi RubyTi.Propagate RubyTi.Unify RubyTi.Match Gen.Tok

/-- a call-site argument type that is neither a container nor a union -/
def scalarArg (a : T) : Prop :=
  a.tag ≠ UNION ∧ a.tag ≠ HASH ∧ a.tag ≠ ARRAY ∧ a.tag ≠ UNKNOWN ∧ a.variants = []

/-- the slot type `t` covers the scalar type `a` -/
def covers (t a : T) : Bool :=
  if t.tag == UNION then t.variants.any fun v => Match.isMatchType v a else Match.isMatchType t a

/-- equal tag and class means the types match (both are non-unions) -/
theorem match_of_equal (v a : T) (ha : a.tag ≠ UNION) (h : (v.tag == a.tag && v.objectClass == a.objectClass) = true) :
    Match.isMatchType v a = true := by
  simp only [Bool.and_eq_true, beq_iff_eq] at h
  have hv : v.tag ≠ UNION := by rw [h.1]; exact ha
  have h1 : Match.isUnion v = false := by simpa [Match.isUnion] using hv
  simp only [Match.isMatchType, h1, Bool.false_and, Bool.false_eq_true, ite_false]
  split
  · simpa using h.2
  · simpa using h.1

theorem match_refl_scalar (a : T) (ha : a.tag ≠ UNION) : Match.isMatchType a a = true :=
  match_of_equal a a ha (by simp)

theorem first_site_sets_slot (round : Str) (a : T) (ha : a.tag ≠ UNKNOWN) :
    propagate round none a = (some { t := setInferred a, round := round }, true) := by
  have : (a.tag == UNKNOWN) = false := by simpa using ha
  simp [propagate, this]

theorem union_accumulates (round : Str) (s : Slot) (a : T) (ha : a.tag ≠ UNKNOWN)
    (hu : s.t.tag = UNION) (hi : s.t.fl.isInferredFromCall = true) (hb : s.t.fl.isBuiltin = false)
    (hd : s.t.fl.hasDefault = false)
    (hspecial : ¬ (s.round != [] && s.round != round && s.t.variants.length == 2 &&
        s.t.variants.any (fun v => v.tag == UNTYPED) && s.t.variants.any (fun v => Match.isMatchType v a)) = true) :
    propagate round (some s) a = (some { s with t := appendVariant 40 s.t a }, true) := by
  have h1 : (a.tag == UNKNOWN) = false := by simpa using ha
  have h2 : (s.t.tag == UNKNOWN) = false := by rw [hu]; decide
  have h3 : (s.t.tag == UNION) = true := by rw [hu]; decide
  simp only [propagate, h1, h2, hb, h3, hd, hi]
  simp only [Bool.false_eq_true, ite_false, Bool.and_false, Bool.true_and, Bool.and_true, ite_true]
  simp only [Bool.and_eq_true, not_and, Bool.not_eq_true] at hspecial
  split
  · rename_i hc
    simp only [Bool.and_eq_true] at hc
    exact absurd (by simpa [Bool.and_eq_true] using hc) (by simpa [Bool.and_eq_true, h3] using hspecial)
  · rfl

/-! ## the covering invariant -/

structure Inv (t : T) : Prop where
  inferred : t.fl.isInferredFromCall = true
  notBuiltin : t.fl.isBuiltin = false
  noDefault : t.fl.hasDefault = false
  notUnknown : t.tag ≠ UNKNOWN
  shape : (t.tag ≠ UNION ∧ t.tag ≠ HASH ∧ t.tag ≠ ARRAY ∧ t.variants = []) ∨ t.tag = UNION

theorem setInferred_tag (a : T) : (setInferred a).tag = a.tag := by cases a; rfl
theorem setInferred_class (a : T) : (setInferred a).objectClass = a.objectClass := by cases a; rfl
theorem setInferred_variants (a : T) : (setInferred a).variants = a.variants := by cases a; rfl
theorem setInferred_fl (a : T) : (setInferred a).fl = { a.fl with isInferredFromCall := true } := by cases a; rfl

theorem covers_self_scalar (a : T) (ha : scalarArg a) : covers (setInferred a) a = true := by
  have h : ((setInferred a).tag == UNION) = false := by rw [setInferred_tag]; simpa using ha.1
  unfold covers
  rw [h]
  simp only [Bool.false_eq_true, ite_false]
  exact match_of_equal _ _ ha.1 (by simp [setInferred_tag, setInferred_class])

/-- a fresh slot made from a call-site argument satisfies the invariant, provided the argument is
not itself flagged as a builtin/default declaration (call-site values are not) -/
theorem inv_setInferred (a : T) (ha : scalarArg a) (hb : a.fl.isBuiltin = false) (hd : a.fl.hasDefault = false) :
    Inv (setInferred a) where
  inferred := by rw [setInferred_fl]
  notBuiltin := by rw [setInferred_fl]; exact hb
  noDefault := by rw [setInferred_fl]; exact hd
  notUnknown := by rw [setInferred_tag]; exact ha.2.2.2.1
  shape := Or.inl ⟨by rw [setInferred_tag]; exact ha.1, by rw [setInferred_tag]; exact ha.2.1,
    by rw [setInferred_tag]; exact ha.2.2.1, by rw [setInferred_variants]; exact ha.2.2.2.2⟩

theorem setVariants_fl (t : T) (vs : List T) : (t.setVariants vs).fl = t.fl := by cases t; rfl
theorem setVariants_class (t : T) (vs : List T) : (t.setVariants vs).objectClass = t.objectClass := by cases t; rfl

/-- appending a scalar to a union slot: the result covers it and still covers what was covered -/
theorem append_covers (d a : T) (hu : d.tag = UNION) (ha : scalarArg a) :
    covers (appendVariant 40 d a) a = true ∧ (∀ b, covers d b = true → covers (appendVariant 40 d a) b = true) ∧
    (appendVariant 40 d a).tag = UNION ∧ (appendVariant 40 d a).fl = d.fl := by
  have hsc : C09.scalar a := ⟨ha.1, ha.2.1, ha.2.2.1⟩
  rw [show (40 : Nat) = 39 + 1 from rfl, C09.appendVariant_scalar 39 d a hsc]
  have hdu : (d.tag == UNION) = true := by rw [hu]; decide
  cases he : isEqualObject d a with
  | true =>
    simp only [ite_true]
    refine ⟨?_, fun b hb => hb, hu, trivial⟩
    -- isEqualObject on a union with variants is exactly `covers`
    unfold isEqualObject at he
    split at he
    · rename_i hemp
      simp only [Bool.and_eq_true] at hemp
      rw [hu] at he
      have : (UNION == a.tag) = false := by
        have := ha.1
        exact beq_false_of_ne (fun e => this e.symm)
      rw [this] at he; exact absurd he (by decide)
    · simp only [covers, hdu, ite_true]
      obtain ⟨v, hv, hve⟩ := List.any_eq_true.mp he
      exact List.any_eq_true.mpr ⟨v, hv, match_of_equal v a ha.1 hve⟩
  | false =>
    simp only [Bool.false_eq_true, ite_false]
    have htag : (d.setVariants (d.variants ++ [a])).tag = UNION := by rw [C09.setVariants_tag]; exact hu
    have htag' : ((d.setVariants (d.variants ++ [a])).tag == UNION) = true := by rw [htag]; decide
    refine ⟨?_, ?_, htag, setVariants_fl _ _⟩
    · simp only [covers, htag', ite_true, C09.setVariants_variants, List.any_append, Bool.or_eq_true]
      right
      simp [match_refl_scalar a ha.1]
    · intro b hb
      simp only [covers, hdu, ite_true] at hb
      simp only [covers, htag', ite_true, C09.setVariants_variants, List.any_append, Bool.or_eq_true]
      exact Or.inl hb

/-- call-site values carry neither the builtin nor the default flag -/
def plainArg (a : T) : Prop := scalarArg a ∧ a.fl.isBuiltin = false ∧ a.fl.hasDefault = false ∧ a.tag ≠ UNTYPED

/-- no variant of the slot is `untyped` (the two-variant untyped special case cannot apply) -/
def typedSlot (t : T) : Prop := ∀ v ∈ t.variants, v.tag ≠ UNTYPED

/-- one call site against a UNION slot inferred from calls -/
theorem covers_step_union (round : Str) (s : Slot) (a : T) (ha : plainArg a) (hinv : Inv s.t) (hu : s.t.tag = UNION)
    (ht : typedSlot s.t) :
    ∃ s', (propagate round (some s) a).1 = some s' ∧ Inv s'.t ∧ s'.t.tag = UNION ∧ covers s'.t a = true ∧
      (∀ b, covers s.t b = true → covers s'.t b = true) ∧ typedSlot s'.t := by
  have hspecial : ¬ (s.round != [] && s.round != round && s.t.variants.length == 2 &&
      s.t.variants.any (fun v => v.tag == UNTYPED) && s.t.variants.any (fun v => Match.isMatchType v a)) = true := by
    have : s.t.variants.any (fun v => v.tag == UNTYPED) = false := by
      apply List.any_eq_false.mpr
      intro v hv
      simpa using ht v hv
    simp [this]
  rw [union_accumulates round s a ha.1.2.2.2.1 hu hinv.inferred hinv.notBuiltin hinv.noDefault hspecial]
  obtain ⟨h1, h2, h3, h4⟩ := append_covers s.t a hu ha.1
  refine ⟨{ s with t := appendVariant 40 s.t a }, rfl, ?_, h3, h1, h2, ?_⟩
  · exact { inferred := by rw [h4]; exact hinv.inferred, notBuiltin := by rw [h4]; exact hinv.notBuiltin,
            noDefault := by rw [h4]; exact hinv.noDefault, notUnknown := by rw [h3]; decide, shape := Or.inr h3 }
  · -- the appended variant is typed
    have hsc : C09.scalar a := ⟨ha.1.1, ha.1.2.1, ha.1.2.2.1⟩
    show typedSlot (appendVariant 40 s.t a)
    rw [show (40 : Nat) = 39 + 1 from rfl, C09.appendVariant_scalar 39 s.t a hsc]
    split
    · exact ht
    · intro v hv
      rw [C09.setVariants_variants] at hv
      rcases List.mem_append.mp hv with h | h
      · exact ht v h
      · simp at h; rw [h]; exact ha.2.2.2

/-- **every call site ends up covered**: replaying any list of plain call-site types against a union
slot inferred from calls keeps covering each of them (and what was covered before) -/
theorem covers_all_sites_union (round : Str) (sites : List T) (hs : ∀ a ∈ sites, plainArg a) :
    ∀ (s : Slot), Inv s.t → s.t.tag = UNION → typedSlot s.t →
    ∃ s', sites.foldl (fun acc a => (propagate round acc a).1) (some s) = some s' ∧ Inv s'.t ∧ s'.t.tag = UNION ∧
      (∀ a ∈ sites, covers s'.t a = true) ∧ (∀ b, covers s.t b = true → covers s'.t b = true) := by
  induction sites with
  | nil => intro s hi hu _; exact ⟨s, rfl, hi, hu, by simp, fun b h => h⟩
  | cons a rest ih =>
    intro s hi hu ht
    obtain ⟨s1, e1, i1, u1, c1, m1, t1⟩ := covers_step_union round s a (hs a (by simp)) hi hu ht
    obtain ⟨s2, e2, i2, u2, c2, m2⟩ := ih (fun x hx => hs x (by simp [hx])) s1 i1 u1 t1
    refine ⟨s2, ?_, i2, u2, ?_, fun b hb => m2 b (m1 b hb)⟩
    · simp only [List.foldl_cons]; rw [e1]; exact e2
    · intro x hx
      rcases List.mem_cons.mp hx with rfl | hx
      · exact m2 _ c1
      · exact c2 x hx

/-! ## slots that are a single class -/

/-- the unified type of two scalars that do not match is the union of both -/
theorem unify_two (d a : T) (hd : C09.scalar d) (hdv : d.variants = []) (hdk : d.tag ≠ UNKNOWN)
    (ha : scalarArg a) (hm : Match.isMatchType d a = false) :
    unifyVariants 40 (T.makeUnion [d, a]) = T.makeUnion [d, a] := by
  have hsa : C09.scalar a := ⟨ha.1, ha.2.1, ha.2.2.1⟩
  have htag : (T.makeUnion [d, a]).tag = UNION := rfl
  have hvs : (T.makeUnion [d, a]).variants = [d, a] := rfl
  rw [show (40 : Nat) = 39 + 1 from rfl]
  simp only [unifyVariants, htag, hvs]
  have hne : (UNION == HASH) = false := by decide
  simp only [hne, Bool.false_eq_true, ite_false, List.foldl_cons, List.foldl_nil]
  -- d enters the empty union
  have e0 : isEqualObject (T.makeUnion []) d = false := by
    have hv0 : (T.makeUnion []).variants = [] := rfl
    have ht0 : (T.makeUnion []).tag = UNION := rfl
    simp only [isEqualObject, hv0, hdv, List.isEmpty_nil, Bool.and_self, ite_true, ht0]
    exact beq_false_of_ne (fun e => hd.1 e.symm)
  rw [show (39 : Nat) = 38 + 1 from rfl, C09.appendVariant_scalar 38 _ d hd, e0]
  simp only [Bool.false_eq_true, ite_false]
  have hu1 : (T.makeUnion []).setVariants ((T.makeUnion []).variants ++ [d]) = T.makeUnion [d] := rfl
  rw [hu1]
  have hv1 : (T.makeUnion [d]).variants = [d] := rfl
  -- a is not equal to d (they do not even match)
  have e1 : isEqualObject (T.makeUnion [d]) a = false := by
    simp only [isEqualObject, hv1]
    simp only [List.isEmpty_cons, Bool.false_and, Bool.false_eq_true, ite_false, List.any_cons, List.any_nil, Bool.or_false]
    cases hh : (d.tag == a.tag && d.objectClass == a.objectClass) with
    | false => rfl
    | true => rw [match_of_equal d a ha.1 hh] at hm; exact absurd hm (by decide)
  rw [C09.appendVariant_scalar 38 _ a hsa, e1]
  simp only [Bool.false_eq_true, ite_false]
  have hu2 : (T.makeUnion [d]).setVariants ((T.makeUnion [d]).variants ++ [a]) = T.makeUnion [d, a] := rfl
  rw [hu2]
  have hv2 : (T.makeUnion [d, a]).variants = [d, a] := rfl
  have hak : (a.tag != UNKNOWN) = true := by simpa using ha.2.2.2.1
  have hdk' : (d.tag == UNKNOWN) = false := by simpa using hdk
  have hak' : (a.tag == UNKNOWN) = false := by simpa using ha.2.2.2.1
  simp only [hv2, hak, ite_true, hdk', hak', Bool.or_self, Bool.false_eq_true, ite_false]

def scalarT (t : T) : Prop := t.tag ≠ UNION ∧ t.tag ≠ HASH ∧ t.tag ≠ ARRAY ∧ t.variants = []

/-- a slot within the pass of `round`: a typed union, or a single typed class set in this pass -/
def Stable (round : Str) (s : Slot) : Prop :=
  Inv s.t ∧ ((s.t.tag = UNION ∧ typedSlot s.t) ∨ (scalarT s.t ∧ s.t.tag ≠ UNTYPED ∧ (s.round = round ∨ s.round = [])))

theorem setFl_tag (t : T) (f : Flags → Flags) : (t.setFl f).tag = t.tag := by cases t; rfl
theorem setFl_variants (t : T) (f : Flags → Flags) : (t.setFl f).variants = t.variants := by cases t; rfl
theorem setFl_fl (t : T) (f : Flags → Flags) : (t.setFl f).fl = f t.fl := by cases t; rfl

/-- one call site against a single-class slot of the current pass -/
theorem covers_step_scalar (round : Str) (s : Slot) (a : T) (ha : plainArg a) (hinv : Inv s.t)
    (hsc : scalarT s.t) (hty : s.t.tag ≠ UNTYPED) (hr : s.round = round ∨ s.round = []) :
    ∃ s', (propagate round (some s) a).1 = some s' ∧ Stable round s' ∧ covers s'.t a = true ∧
      (∀ b, covers s.t b = true → covers s'.t b = true) := by
  have h1 : (a.tag == UNKNOWN) = false := by simpa using ha.1.2.2.2.1
  have h2 : (s.t.tag == UNKNOWN) = false := by simpa using hinv.notUnknown
  have h3 : (s.t.tag == UNION) = false := by simpa using hsc.1
  have hround : (s.round != [] && s.round != round) = false := by
    rcases hr with h | h <;> simp [h]
  simp only [propagate, h1, h2, hinv.notBuiltin, h3, hround, hinv.noDefault, hinv.inferred]
  simp only [Bool.false_eq_true, ite_false, Bool.false_and, Bool.and_false, Bool.or_true, ite_true]
  cases hm : Match.isMatchType s.t a with
  | true =>
    simp only [ite_true]
    refine ⟨s, rfl, ⟨hinv, Or.inr ⟨hsc, hty, hr⟩⟩, ?_, fun b hb => hb⟩
    simp only [covers, h3, Bool.false_eq_true, ite_false]; exact hm
  | false =>
    simp only [Bool.false_eq_true, ite_false]
    have hau : (a.tag == UNION) = false := by simpa using ha.1.1
    simp only [hau, Bool.false_eq_true, ite_false, List.singleton_append]
    rw [unify_two s.t a ⟨hsc.1, hsc.2.1, hsc.2.2.1⟩ hsc.2.2.2 hinv.notUnknown ha.1 hm]
    refine ⟨_, rfl, ⟨?_, Or.inl ⟨by rw [setFl_tag]; rfl, ?_⟩⟩, ?_, ?_⟩
    · have hne : (T.makeUnion [s.t, a]).tag ≠ UNKNOWN := by
        have : (T.makeUnion [s.t, a]).tag = UNION := rfl
        rw [this]; decide
      exact { inferred := by rw [setFl_fl], notBuiltin := by rw [setFl_fl]; rfl,
              noDefault := by rw [setFl_fl], notUnknown := by rw [setFl_tag]; exact hne,
              shape := Or.inr (by rw [setFl_tag]; rfl) }
    · intro v hv
      rw [setFl_variants] at hv
      have : v = s.t ∨ v = a := by simpa [T.makeUnion, T.setVariants, T.variants, T.newS, T.new] using hv
      rcases this with rfl | rfl
      · exact hty
      · exact ha.2.2.2
    · have htag : ∀ f, (((T.makeUnion [s.t, a]).setFl f).tag == UNION) = true := by intro f; rw [setFl_tag]; rfl
      simp only [covers, htag, ite_true, setFl_variants]
      have : (T.makeUnion [s.t, a]).variants = [s.t, a] := rfl
      simp [this, match_refl_scalar a ha.1.1]
    · intro b hb
      have htag : ∀ f, (((T.makeUnion [s.t, a]).setFl f).tag == UNION) = true := by intro f; rw [setFl_tag]; rfl
      simp only [covers, h3, Bool.false_eq_true, ite_false] at hb
      simp only [covers, htag, ite_true, setFl_variants]
      have : (T.makeUnion [s.t, a]).variants = [s.t, a] := rfl
      simp [this, hb]

/-- one call site against any slot of the current pass: still of the pass, covers the site, loses nothing -/
theorem covers_step (round : Str) (s : Slot) (a : T) (ha : plainArg a) (hs : Stable round s) :
    ∃ s', (propagate round (some s) a).1 = some s' ∧ Stable round s' ∧ covers s'.t a = true ∧
      (∀ b, covers s.t b = true → covers s'.t b = true) := by
  obtain ⟨hinv, hshape⟩ := hs
  rcases hshape with ⟨hu, ht⟩ | ⟨hsc, hty, hr⟩
  · obtain ⟨s', e, i, u, c, m, t⟩ := covers_step_union round s a ha hinv hu ht
    exact ⟨s', e, ⟨i, Or.inl ⟨u, t⟩⟩, c, m⟩
  · exact covers_step_scalar round s a ha hinv hsc hty hr

/-- replaying call sites within a pass, starting from a slot of the pass -/
theorem covers_sites_from (round : Str) (sites : List T) (hs : ∀ a ∈ sites, plainArg a) :
    ∀ (s : Slot), Stable round s →
    ∃ s', sites.foldl (fun acc a => (propagate round acc a).1) (some s) = some s' ∧ Stable round s' ∧
      (∀ a ∈ sites, covers s'.t a = true) ∧ (∀ b, covers s.t b = true → covers s'.t b = true) := by
  induction sites with
  | nil => intro s h; exact ⟨s, rfl, h, by simp, fun b hb => hb⟩
  | cons a rest ih =>
    intro s h
    obtain ⟨s1, e1, st1, c1, m1⟩ := covers_step round s a (hs a (by simp)) h
    obtain ⟨s2, e2, st2, c2, m2⟩ := ih (fun x hx => hs x (by simp [hx])) s1 st1
    refine ⟨s2, ?_, st2, ?_, fun b hb => m2 b (m1 b hb)⟩
    · simp only [List.foldl_cons]; rw [e1]; exact e2
    · intro x hx
      rcases List.mem_cons.mp hx with rfl | hx
      · exact m2 _ c1
      · exact c2 x hx

/-- **C15, parameter types**: replaying the call sites of a method (any non-empty list of plain
argument types, in any round) against a parameter that has no slot yet leaves a slot that covers the
type of EVERY call site -/
theorem covers_all_sites (round : Str) (a : T) (rest : List T) (ha : plainArg a) (hs : ∀ x ∈ rest, plainArg x) :
    ∃ s', (a :: rest).foldl (fun acc x => (propagate round acc x).1) none = some s' ∧
      ∀ x ∈ a :: rest, covers s'.t x = true := by
  simp only [List.foldl_cons]
  rw [first_site_sets_slot round a ha.1.2.2.2.1]
  have hst : Stable round { t := setInferred a, round := round } :=
    ⟨inv_setInferred a ha.1 ha.2.1 ha.2.2.1,
     Or.inr ⟨⟨by rw [setInferred_tag]; exact ha.1.1, by rw [setInferred_tag]; exact ha.1.2.1,
              by rw [setInferred_tag]; exact ha.1.2.2.1, by rw [setInferred_variants]; exact ha.1.2.2.2.2⟩,
             by rw [setInferred_tag]; exact ha.2.2.2, Or.inl rfl⟩⟩
  obtain ⟨s', e, _, c, m⟩ := covers_sites_from round rest hs _ hst
  refine ⟨s', e, ?_⟩
  intro x hx
  rcases List.mem_cons.mp hx with rfl | hx
  · exact m _ (covers_self_scalar _ ha.1)
  · exact c x hx

/-- a single-class slot left by an earlier round is replaced by the first site of the new round -/
theorem other_round_scalar_replaced (round : Str) (s : Slot) (a : T) (ha : plainArg a) (hinv : Inv s.t) (hsc : scalarT s.t)
    (hr1 : s.round ≠ []) (hr2 : s.round ≠ round) :
    propagate round (some s) a = (some { t := setInferred a, round := round }, false) := by
  have h1 : (a.tag == UNKNOWN) = false := by simpa using ha.1.2.2.2.1
  have h2 : (s.t.tag == UNKNOWN) = false := by simpa using hinv.notUnknown
  have h3 : (s.t.tag == UNION) = false := by simpa using hsc.1
  have hround : (s.round != [] && s.round != round) = true := by simp [hr1, hr2]
  simp [propagate, h1, h2, hinv.notBuiltin, h3, hround]

/-- **later rounds**: replaying the sites again in another round, against whatever single-class slot the earlier round left,
covers every site as well (a union slot is handled by `covers_sites_from` directly: `Stable` does not look at its round) -/
theorem covers_all_sites_next_round (round : Str) (s : Slot) (a : T) (rest : List T) (ha : plainArg a) (hs : ∀ x ∈ rest, plainArg x)
    (hinv : Inv s.t) (hsc : scalarT s.t) (hr1 : s.round ≠ []) (hr2 : s.round ≠ round) :
    ∃ s', (a :: rest).foldl (fun acc x => (propagate round acc x).1) (some s) = some s' ∧
      ∀ x ∈ a :: rest, covers s'.t x = true := by
  simp only [List.foldl_cons]
  rw [other_round_scalar_replaced round s a ha hinv hsc hr1 hr2]
  have hst : Stable round { t := setInferred a, round := round } :=
    ⟨inv_setInferred a ha.1 ha.2.1 ha.2.2.1,
     Or.inr ⟨⟨by rw [setInferred_tag]; exact ha.1.1, by rw [setInferred_tag]; exact ha.1.2.1,
              by rw [setInferred_tag]; exact ha.1.2.2.1, by rw [setInferred_variants]; exact ha.1.2.2.2.2⟩,
             by rw [setInferred_tag]; exact ha.2.2.2, Or.inl rfl⟩⟩
  obtain ⟨s', e, _, c, m⟩ := covers_sites_from round rest hs _ hst
  refine ⟨s', e, ?_⟩
  intro x hx
  rcases List.mem_cons.mp hx with rfl | hx
  · exact m _ (covers_self_scalar _ ha.1)
  · exact c x hx

/-- non-vacuity: sites Integer, String, Integer, NilClass in the check round -/
example : ∃ s', ([T.makeInt, T.makeAnyString, T.makeInt, T.makeNil].foldl
    (fun acc x => (propagate "check".toList acc x).1) none) = some s' ∧ s'.t.variants.map T.tag = [INT, STRING, NIL] :=
  ⟨_, rfl, by decide⟩

end RubyTi.C15

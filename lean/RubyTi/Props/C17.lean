import RubyTi.Model.Scope
import RubyTi.Gen.BlockFacts
import RubyTi.Props.C19

/-!
# C17 — block parameters get declared types and block locals stay local (scope core)

For **every** sequence of writes the evaluator performs inside a block:
* `block_local_invisible`: a variable first assigned inside the block (its key is not in the
  snapshot taken at block entry) and not written back by the restore list is absent afterwards;
* `outer_variable_kept`: a variable that existed before the block keeps whatever the block last
  assigned to it (Ruby closures may assign outer variables), unless it is a shadowing parameter;
* `shadow_restored`: a block parameter that shadowed an outer variable gets its previous value
  back (restore list = the saved (key, value) pairs, distinct keys);
* `surplus_nil` / `param_bound`: the i-th block variable is bound to the i-th resolved block
  parameter type, surplus variables to nil (for distinct variable names).
Resolution of the declared `block_parameters` against the receiver (`Unify`, `Item`, `Flatten`, …)
is checked end-to-end.
-/
namespace RubyTi.C17
open RubyTi RubyTi.Frame RubyTi.Scope

variable {κ ν : Type} [DecidableEq κ]

theorem writes_eq (t : Table κ ν) (ws : List (κ × ν)) : writes t ws = C19.applyWrites t ws := rfl

/-- **Block locals stay local**, whatever the block does. -/
theorem block_local_invisible (snap : Table κ ν) (inside restore : List (κ × ν)) (k : κ)
    (hk : hasKey snap k = false) (hr : k ∉ restore.map (·.1)) :
    lookup (blockExit (writes snap inside) snap restore) k = none := by
  unfold blockExit
  rw [writes_eq, C19.lookup_applyWrites_notin _ _ _ hr, restoreFrame, lookup_filter_key]
  simp [hk]

/-- outer variables keep what the block assigned to them -/
theorem outer_variable_kept (snap : Table κ ν) (inside restore : List (κ × ν)) (k : κ)
    (hk : hasKey snap k = true) (hr : k ∉ restore.map (·.1)) :
    lookup (blockExit (writes snap inside) snap restore) k = lookup (writes snap inside) k := by
  unfold blockExit
  rw [writes_eq, C19.lookup_applyWrites_notin _ _ _ hr, restoreFrame, lookup_filter_key]
  simp [hk]

/-- a shadowed outer variable gets its previous value back -/
theorem shadow_restored (snap : Table κ ν) (inside restore : List (κ × ν)) (w : κ × ν)
    (hw : w ∈ restore) (hd : (restore.map (·.1)).Nodup) :
    lookup (blockExit (writes snap inside) snap restore) w.1 = some w.2 := by
  unfold blockExit
  rw [writes_eq]
  exact C19.lookup_applyWrites_in _ restore hd w hw

theorem lookup_bindParams_notin (t : Table κ ν) (vars : List κ) (params : List ν) (nilT : ν) (q : κ)
    (h : q ∉ vars) : lookup (bindParams t vars params nilT) q = lookup t q := by
  induction vars generalizing t params with
  | nil => cases params <;> rfl
  | cons v vs ih =>
    simp at h
    cases params with
    | nil => simp only [bindParams]; rw [ih _ _ h.2, lookup_insert_other _ _ _ _ (fun e => h.1 e.symm)]
    | cons p ps => simp only [bindParams]; rw [ih _ _ h.2, lookup_insert_other _ _ _ _ (fun e => h.1 e.symm)]

/-- the i-th block variable is bound to the i-th block parameter type; surplus variables to nil -/
theorem param_bound (t : Table κ ν) (vars : List κ) (params : List ν) (nilT : ν) (hd : vars.Nodup)
    (i : Nat) (hi : i < vars.length) :
    lookup (bindParams t vars params nilT) vars[i] = some (params.getD i nilT) := by
  induction vars generalizing t params i with
  | nil => simp at hi
  | cons v vs ih =>
    simp only [List.nodup_cons] at hd
    cases i with
    | zero =>
      cases params with
      | nil => simp only [bindParams, List.getElem_cons_zero]; rw [lookup_bindParams_notin _ _ _ _ _ hd.1, lookup_insert_self]; rfl
      | cons p ps => simp only [bindParams, List.getElem_cons_zero]; rw [lookup_bindParams_notin _ _ _ _ _ hd.1, lookup_insert_self]; rfl
    | succ j =>
      have hj : j < vs.length := by simpa using hi
      cases params with
      | nil => simp only [bindParams, List.getElem_cons_succ]; rw [ih _ _ hd.2 j hj]; simp
      | cons p ps => simp only [bindParams, List.getElem_cons_succ]; rw [ih _ _ hd.2 j hj]; simp

/-- surplus block variables are nil -/
theorem surplus_nil (t : Table κ ν) (vars : List κ) (params : List ν) (nilT : ν) (hd : vars.Nodup)
    (i : Nat) (hi : i < vars.length) (hs : params.length ≤ i) :
    lookup (bindParams t vars params nilT) vars[i] = some nilT := by
  rw [param_bound t vars params nilT hd i hi]
  simp [List.getD, List.getElem?_eq_none hs]

/-- **The loop the source has now is the modelled loop**: the switches the extractor reads off
`Do.setBlockParameters` (guard `len(blockParameters) <= idx`, surplus branch binds nil and goes on,
other branch binds `&blockParameters[idx]` and goes on) make the regenerated loop equal to `bindParams`,
for every table, variable list and parameter list. A `break`/`return` in either branch, a changed guard or
a changed bound value flips a switch and this theorem no longer checks. -/
theorem generated_loop_is_bindParams (t : Table κ ν) (vars : List κ) (params : List ν) (nilT : ν) :
    bindParamsG Gen.blockSurplusGuard Gen.blockSurplusBindsNil Gen.blockSurplusGoesOn
      Gen.blockBoundBindsIdx Gen.blockBoundGoesOn t vars params nilT = bindParams t vars params nilT :=
  bindParamsG_all t vars params nilT

/-- surplus variables are nil in the regenerated loop -/
theorem generated_surplus_nil (t : Table κ ν) (vars : List κ) (params : List ν) (nilT : ν) (hd : vars.Nodup)
    (i : Nat) (hi : i < vars.length) (hs : params.length ≤ i) :
    lookup (bindParamsG Gen.blockSurplusGuard Gen.blockSurplusBindsNil Gen.blockSurplusGoesOn
      Gen.blockBoundBindsIdx Gen.blockBoundGoesOn t vars params nilT) vars[i] = some nilT := by
  rw [generated_loop_is_bindParams]; exact surplus_nil t vars params nilT hd i hi hs

/-- what a `break` after the first surplus variable would do (the loop with `sOn = false`): the third of
three variables on a one-value method stays unbound -/
example : lookup (bindParamsG true true false true true ([] : Table Nat Nat) [1, 2, 3] [7] 0) 3 = none := by decide

/-- non-vacuity: a block that assigns a fresh local and an outer variable, with one shadowing parameter -/
example :
    let snap : Table Nat Nat := [(1, 10), (2, 20)]
    let inside := [(3, 30), (1, 11), (2, 99)]
    let out := blockExit (writes snap inside) snap [(2, 20)]
    lookup out 3 = none ∧ lookup out 1 = some 11 ∧ lookup out 2 = some 20 := by decide

end RubyTi.C17

import RubyTi.Proofs.ConfigLemmas
import RubyTi.Model.Frame
import RubyTi.Props.C19
import RubyTi.Model.Namespace

/-!
# C27 — same-named classes in different namespaces do not interfere (key algebra)

Everything the analysis knows about a class lives under keys `(frame, class, …)` of the global
maps, where the frame of `module M … class C` is computed by `SeparateNameSpaces` /
`CalculateFrame` (base/strings.go, base/t_frame.go). Proved on their models:
* `qualified_name_splits`: `M::C` (plain `M`, `C`) splits into namespace `M` and class `C`, and
  `A::B::C` into frame `A`, parent `B`, class `C`, whose computed frame is `A::B`;
* `frames_differ`: for plain `M ≠ N` the frames of `M::C` and `N::C` (and of top-level `C`) are
  different, hence every key of the one class group differs from every key of the other;
* `decoy_invisible`: writes under the decoy's frame leave every lookup under the group's frame
  unchanged (C19's map lemma specialised to frames).
* `superclass_innermost` / `superclass_defined` / `superclass_self`: the lexical lookup of an
  unqualified superclass (`FindDefinedClassFrame`) returns an enclosing namespace in which the
  class is defined, at least as inner as ANY enclosing namespace that defines it (a same-named
  class further out never wins), the class's own namespace when it is defined there, and the top
  level only when no enclosing namespace defines it.
How the class/module evaluators use these functions is checked end-to-end: a generated class
group at top level, wrapped in one or two modules, and next to a same-named decoy.
-/
namespace RubyTi.C27
open RubyTi RubyTi.Config RubyTi.Frame

def plainName (s : Str) : Prop := s ≠ [] ∧ ':' ∉ s

theorem splitNS_plain (s : Str) (h : ':' ∉ s) : splitNS s = [s] := splitNS_noColon s h

/-- `M::C` is namespace `M`, class `C`; its frame is `M` -/
theorem qualified_name_splits (m c : Str) (hm : plainName m) (hc : plainName c) :
    separateNameSpaces (m ++ ':' :: ':' :: c) = ([], m, c) ∧ calculateFrame [] m = m := by
  constructor
  · simp [separateNameSpaces, splitNS_qualified m c hm.2 hm.1, splitNS_plain c hc.2]
  · have : m ≠ [] := hm.1
    cases m with
    | nil => exact absurd rfl this
    | cons a t => simp [calculateFrame]

/-- `A::B::C`: frame `A`, parent namespace `B`, class `C`; the computed frame is `A::B` -/
theorem nested_name_splits (a b c : Str) (ha : plainName a) (hb : plainName b) (hc : plainName c) :
    separateNameSpaces (a ++ ':' :: ':' :: (b ++ ':' :: ':' :: c)) = (a, b, c) ∧
    calculateFrame a b = a ++ ':' :: ':' :: b := by
  constructor
  · simp [separateNameSpaces, splitNS_qualified a _ ha.2 ha.1, splitNS_qualified b c hb.2 hb.1, splitNS_plain c hc.2, joinNS]
  · have h1 := ha.1; have h2 := hb.1
    cases a with
    | nil => exact absurd rfl h1
    | cons x xs =>
      cases b with
      | nil => exact absurd rfl h2
      | cons y ys => simp [calculateFrame]

/-- different wrapping modules give different frames; a top-level class (frame "") differs from both -/
theorem frames_differ (m n : Str) (hm : plainName m) (hn : plainName n) (hne : m ≠ n) :
    calculateFrame [] m ≠ calculateFrame [] n ∧ calculateFrame [] m ≠ [] := by
  have e1 := (qualified_name_splits m m hm hm).2
  have e2 := (qualified_name_splits n n hn hn).2
  rw [e1, e2]
  exact ⟨hne, hm.1⟩

/-- keys of same-named classes in different frames are different keys -/
theorem keys_differ (f₁ f₂ cls method : Str) (p s : Bool) (h : f₁ ≠ f₂) :
    methodKey f₁ cls method p ≠ methodKey f₂ cls method p ∧ classMethodKey f₁ cls method p ≠ classMethodKey f₂ cls method p ∧
    ∀ v, valueKey f₁ cls method v s ≠ valueKey f₂ cls method v s := by
  refine ⟨?_, ?_, ?_⟩
  · intro e; simp [methodKey] at e; exact h e
  · intro e; simp [classMethodKey] at e; exact h e
  · intro v e; simp [valueKey] at e; exact h e

/-- the decoy's writes (all under another frame) are invisible to lookups under the group's frame -/
theorem decoy_invisible {ν} (t : Table FrameKey ν) (decoy : List (FrameKey × ν)) (fd : Str)
    (hd : ∀ w ∈ decoy, w.1.frame = fd) (q : FrameKey) (hq : q.frame ≠ fd) :
    lookup (C19.applyWrites t decoy) q = lookup t q := by
  apply C19.lookup_applyWrites_notin
  intro hmem
  obtain ⟨w, hw, rfl⟩ := List.mem_map.mp hmem
  exact hq (hd w hw)

example : plainName "Mm".toList ∧ "Mm".toList ≠ "Nn".toList := by
  refine ⟨⟨by decide, by decide⟩, by decide⟩

/-! ## lexical superclass lookup -/
section
open RubyTi.Namespace

theorem superclass_suffix (tbl : Defined) (cls : Str) (segs : List Str) :
    findDefined tbl cls segs <:+ segs := by
  induction segs with
  | nil => simp [findDefined]
  | cons s outer ih =>
    simp only [findDefined]
    split
    · exact List.suffix_refl _
    · exact List.IsSuffix.trans ih (List.suffix_cons s outer)

/-- a non-top-level answer is a namespace in which the class is defined -/
theorem superclass_defined (tbl : Defined) (cls : Str) (segs : List Str)
    (h : findDefined tbl cls segs ≠ []) : isDefined tbl (findDefined tbl cls segs) cls = true := by
  induction segs with
  | nil => simp [findDefined] at h
  | cons s outer ih =>
    simp only [findDefined] at h ⊢
    split
    · assumption
    · rename_i hn; simp only [hn] at h; exact ih (by simpa using h)

/-- **innermost wins**: every enclosing namespace `p` that defines the class encloses the answer -/
theorem superclass_innermost (tbl : Defined) (cls : Str) (segs p : List Str)
    (hp : p <:+ segs) (hne : p ≠ []) (hd : isDefined tbl p cls = true) :
    p <:+ findDefined tbl cls segs := by
  induction segs with
  | nil => simp at hp; exact absurd hp hne
  | cons s outer ih =>
    simp only [findDefined]
    split
    · exact hp
    · rename_i hn
      rcases List.suffix_cons_iff.mp hp with rfl | h
      · simp [hd] at hn
      · exact ih h

theorem superclass_self (tbl : Defined) (cls : Str) (segs : List Str) (hne : segs ≠ [])
    (hd : isDefined tbl segs cls = true) : findDefined tbl cls segs = segs := by
  cases segs with
  | nil => exact absurd rfl hne
  | cons s outer => simp [findDefined, hd]

/-- the top level is answered only when no enclosing namespace defines the class -/
theorem superclass_toplevel (tbl : Defined) (cls : Str) (segs : List Str)
    (h : findDefined tbl cls segs = []) : ∀ p, p <:+ segs → p ≠ [] → isDefined tbl p cls = false := by
  intro p hp hne
  cases hd : isDefined tbl p cls with
  | false => rfl
  | true =>
    have := superclass_innermost tbl cls segs p hp hne hd
    rw [h] at this
    simp at this
    exact absurd this hne

/-- non-vacuity: `Core` defined in `Api` and in `Api::V1`; seen from `Api::V1` the inner one is found -/
example : findDefined [(["Api".toList], "Core".toList), (["V1".toList, "Api".toList], "Core".toList)] "Core".toList
    ["V1".toList, "Api".toList] = ["V1".toList, "Api".toList] := by decide
end

end RubyTi.C27

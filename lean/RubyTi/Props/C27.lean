import RubyTi.Proofs.ConfigLemmas
import RubyTi.Model.Frame
import RubyTi.Props.C19

/-!
# C27 — same-named classes in different namespaces do not interfere (key algebra)

Everything the analysis knows about a class lives under keys `(frame, class, …)` of the global
maps, where the frame of `module M … class C` is computed by `SeparateNameSpaces` /
`CalculateFrame` (base/strings.go, base/t_frame.go). Proved on their models:
* `qualified_name_splits`: `M::C` (plain `M`, `C`) splits into namespace `M` and class `C`, and
  `A::B::C` into frame `A`, parent `B`, class `C`, whose computed frame is `A::B`;
* `frames_differ`: for plain `M ≠ N` the frames of `M::C` and `N::C` (and of top-level `C`) are
  different, hence every key of the one class group differs from every key of the other;
* `decoy_invisible`: writes under the decoy's frame leave every lookup under the group's frame
  unchanged (C19's map lemma specialised to frames).
How the class/module evaluators use these functions is checked end-to-end: a generated class
group at top level, wrapped in one or two modules, and next to a same-named decoy.
-/
namespace RubyTi.C27
open RubyTi RubyTi.Config RubyTi.Frame

def plainName (s : Str) : Prop := s ≠ [] ∧ ':' ∉ s

theorem splitNS_plain (s : Str) (h : ':' ∉ s) : splitNS s = [s] := splitNS_noColon s h

/-- `M::C` is namespace `M`, class `C`; its frame is `M` -/
theorem qualified_name_splits (m c : Str) (hm : plainName m) (hc : plainName c) :
    separateNameSpaces (m ++ ':' :: ':' :: c) = ([], m, c) ∧ calculateFrame [] m = m := by
  constructor
  · simp [separateNameSpaces, splitNS_qualified m c hm.2 hm.1, splitNS_plain c hc.2]
  · have : m ≠ [] := hm.1
    cases m with
    | nil => exact absurd rfl this
    | cons a t => simp [calculateFrame]

/-- `A::B::C`: frame `A`, parent namespace `B`, class `C`; the computed frame is `A::B` -/
theorem nested_name_splits (a b c : Str) (ha : plainName a) (hb : plainName b) (hc : plainName c) :
    separateNameSpaces (a ++ ':' :: ':' :: (b ++ ':' :: ':' :: c)) = (a, b, c) ∧
    calculateFrame a b = a ++ ':' :: ':' :: b := by
  constructor
  · simp [separateNameSpaces, splitNS_qualified a _ ha.2 ha.1, splitNS_qualified b c hb.2 hb.1, splitNS_plain c hc.2, joinNS]
  · have h1 := ha.1; have h2 := hb.1
    cases a with
    | nil => exact absurd rfl h1
    | cons x xs =>
      cases b with
      | nil => exact absurd rfl h2
      | cons y ys => simp [calculateFrame]

/-- different wrapping modules give different frames; a top-level class (frame "") differs from both -/
theorem frames_differ (m n : Str) (hm : plainName m) (hn : plainName n) (hne : m ≠ n) :
    calculateFrame [] m ≠ calculateFrame [] n ∧ calculateFrame [] m ≠ [] := by
  have e1 := (qualified_name_splits m m hm hm).2
  have e2 := (qualified_name_splits n n hn hn).2
  rw [e1, e2]
  exact ⟨hne, hm.1⟩

/-- keys of same-named classes in different frames are different keys -/
theorem keys_differ (f₁ f₂ cls method : Str) (p s : Bool) (h : f₁ ≠ f₂) :
    methodKey f₁ cls method p ≠ methodKey f₂ cls method p ∧ classMethodKey f₁ cls method p ≠ classMethodKey f₂ cls method p ∧
    ∀ v, valueKey f₁ cls method v s ≠ valueKey f₂ cls method v s := by
  refine ⟨?_, ?_, ?_⟩
  · intro e; simp [methodKey] at e; exact h e
  · intro e; simp [classMethodKey] at e; exact h e
  · intro v e; simp [valueKey] at e; exact h e

/-- the decoy's writes (all under another frame) are invisible to lookups under the group's frame -/
theorem decoy_invisible {ν} (t : Table FrameKey ν) (decoy : List (FrameKey × ν)) (fd : Str)
    (hd : ∀ w ∈ decoy, w.1.frame = fd) (q : FrameKey) (hq : q.frame ≠ fd) :
    lookup (C19.applyWrites t decoy) q = lookup t q := by
  apply C19.lookup_applyWrites_notin
  intro hmem
  obtain ⟨w, hw, rfl⟩ := List.mem_map.mp hmem
  exact hq (hd w hw)

example : plainName "Mm".toList ∧ "Mm".toList ≠ "Nn".toList := by
  refine ⟨⟨by decide, by decide⟩, by decide⟩

end RubyTi.C27

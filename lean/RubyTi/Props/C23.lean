import RubyTi.Model.Suggest

/-!
# C23 — completion lists exactly the methods the receiver can answer (soundness of the filter)

On the model of `isSuggest` / `isParentClass`, for every signature table entry, every inheritance
graph (cyclic ones included), every captured target and any fuel:
* `parent_sound`: if the ancestor walk accepts a signature then the signature's static flag is
  the receiver's, it is not `new`, and its class is the start class or an ancestor reachable
  through `ClassInheritanceMap` (frame compared after the Builtin normalisation);
* `suggest_sound`: a suggested signature is never of class "" or `Kernel`, is private only if the
  target describes the cursor's context (it is not an object value) and the signature belongs to
  the class of that context, and is accepted for one of four reasons: same defining class and
  static flag, ancestor of the defining class (both only for context targets), the receiver's
  class itself, or an ancestor of the receiver's class — the last two only when the static flags agree;
* `object_receiver_sound`: for an object-valued receiver nothing private and nothing of the wrong
  kind is listed.
So no method that only unrelated classes define and no private method of another class is ever
listed. *Completeness* is refuted for Object/Kernel methods (class "" is rejected up front): they
are listed only through the lower-case-identifier rule (`kernelRule`). Which `T` a row
captures is evaluator behaviour, checked end-to-end.
-/
namespace RubyTi.C23
open RubyTi RubyTi.Frame RubyTi.Inherit RubyTi.Sig RubyTi.Suggest

/-- `c` is the start class or an ancestor of it in the inheritance map (frames Builtin-normalised) -/
inductive Reach (g : Inh) (bc : List Str) : Str → Str → Str → Str → Prop where
  | refl (f c : Str) : Reach g bc f c (normFrame bc f c) c
  | step (f c : Str) (p : Node) (f' c' : Str) :
      p ∈ parentsOf g (normFrame bc f c) c → Reach g bc p.frame p.cls f' c' → Reach g bc f c f' c'

def Sound (g : Inh) (bc : List Str) (sig : Sig) (frame cls : Str) (st : Bool) : Prop :=
  sig.isStatic = st ∧ sig.method ≠ NEW ∧ Reach g bc frame cls sig.frame sig.cls

theorem isParentList_sound (g : Inh) (bc : List Str) (sig : Sig) (st : Bool) (fuel : Nat)
    (hw : ∀ frame cls ext inc seen, (isParent fuel g bc sig frame cls st ext inc seen).1 = true → Sound g bc sig frame cls st) :
    ∀ ps seen, (isParentList fuel g bc sig ps st seen).1 = true → ∃ p ∈ ps, Sound g bc sig p.frame p.cls st := by
  intro ps
  induction ps with
  | nil => intro seen h; simp [isParentList] at h
  | cons p rest ih =>
    intro seen h
    simp only [isParentList] at h
    cases hp : isParent fuel g bc sig p.frame p.cls st p.isExtend p.isInclude seen with
    | mk r s =>
      rw [hp] at h
      cases r with
      | true => exact ⟨p, by simp, hw _ _ _ _ _ (by rw [hp])⟩
      | false =>
        obtain ⟨q, hq, hs⟩ := ih s h
        exact ⟨q, by simp [hq], hs⟩

/-- the ancestor walk only accepts the start class or a reachable ancestor, with matching static flag -/
theorem parent_sound (g : Inh) (bc : List Str) (sig : Sig) (st : Bool) (fuel : Nat) :
    ∀ frame cls ext inc seen, (isParent fuel g bc sig frame cls st ext inc seen).1 = true → Sound g bc sig frame cls st := by
  induction fuel with
  | zero => intro frame cls ext inc seen h; simp [isParent] at h
  | succ n ih =>
    intro frame cls ext inc seen h
    simp only [isParent] at h
    split at h
    · simp at h
    · split at h
      · simp at h
      · split at h
        · simp at h
        · split at h
          · simp at h
          · split at h
            · simp at h
            · rename_i hst hnew
              split at h
              · rename_i heq
                simp at heq hst hnew
                refine ⟨hst, hnew, ?_⟩
                rw [heq.1, heq.2]
                exact Reach.refl frame cls
              · obtain ⟨p, hp, hs⟩ := isParentList_sound g bc sig st n ih _ _ h
                simp at hst hnew
                exact ⟨hst, hnew, Reach.step frame cls p _ _ hp hs.2.2⟩

/-- **Soundness of the completion filter.** -/
theorem suggest_sound (fuel : Nat) (g : Inh) (bc : List Str) (t : Target) (sig : Sig)
    (h : isSuggest fuel g bc t sig = true) :
    sig.cls ≠ [] ∧ sig.cls ≠ KERNEL ∧ (sig.isPrivate = true → t.isContext = true ∧ sig.cls = t.definedClass) ∧
    ( (t.isContext = true ∧ sig.cls = t.definedClass ∧ sig.isStatic = t.isStatic) ∨
      (t.isContext = true ∧ Sound g bc sig t.definedFrame t.definedClass t.isStatic) ∨
      (sig.isStatic = t.isStaticTarget ∧ sig.cls = t.objectClass) ∨
      Sound g bc sig t.frame t.objectClass t.isStaticTarget ) := by
  unfold isSuggest at h
  split at h
  · simp at h
  · rename_i h1
    split at h
    · simp at h
    · rename_i h2
      split at h
      · simp at h
      · split at h
        · simp at h
        · rename_i h4
          have hpriv : sig.isPrivate = true → t.isContext = true ∧ sig.cls = t.definedClass := by
            intro hp; simp [hp] at h4; exact h4
          refine ⟨by simpa using h1, by simpa using h2, hpriv, ?_⟩
          split at h
          · rename_i h5; simp at h5; exact Or.inl ⟨h5.1.1, h5.1.2, h5.2⟩
          · split at h
            · rename_i h6
              simp only [Bool.and_eq_true] at h6
              exact Or.inr (Or.inl ⟨h6.1, parent_sound g bc sig _ fuel _ _ _ _ _ h6.2⟩)
            · split at h
              · simp at h
              · rename_i h7
                simp at h7
                split at h
                · rename_i h8; simp at h8; exact Or.inr (Or.inr (Or.inl ⟨h7.symm, h8⟩))
                · exact Or.inr (Or.inr (Or.inr (parent_sound g bc sig _ fuel _ _ _ _ _ h)))

/-- a receiver that is an object value (`d = Dog.new(1)`, `d.`): only methods of the receiver's
kind, of its class or a reachable ancestor, and never a private one -/
theorem object_receiver_sound (fuel : Nat) (g : Inh) (bc : List Str) (t : Target) (sig : Sig)
    (hc : t.isContext = false) (h : isSuggest fuel g bc t sig = true) :
    sig.isPrivate = false ∧ sig.isStatic = t.isStaticTarget ∧
    (sig.cls = t.objectClass ∨ Reach g bc t.frame t.objectClass sig.frame sig.cls) := by
  obtain ⟨_, _, hp, hr⟩ := suggest_sound fuel g bc t sig h
  refine ⟨?_, ?_, ?_⟩
  · cases hpv : sig.isPrivate with
    | false => rfl
    | true => have := (hp hpv).1; simp [hc] at this
  · rcases hr with ⟨h1, _⟩ | ⟨h1, _⟩ | ⟨h1, _⟩ | h1
    · simp [hc] at h1
    · simp [hc] at h1
    · exact h1
    · exact h1.1
  · rcases hr with ⟨h1, _⟩ | ⟨h1, _⟩ | ⟨_, h1⟩ | h1
    · simp [hc] at h1
    · simp [hc] at h1
    · exact Or.inl h1
    · exact Or.inr h1.2.2

/-- the refuted completeness: a signature of class "" (an Object method) is never suggested -/
theorem object_methods_never_suggested (fuel : Nat) (g : Inh) (bc : List Str) (t : Target) (sig : Sig)
    (h : sig.cls = []) : isSuggest fuel g bc t sig = false := by
  simp [isSuggest, h]

end RubyTi.C23

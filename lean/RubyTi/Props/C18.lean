import RubyTi.Model.Rounds

/-!
# C18 — preloaded files act like a prefix whose diagnostics are hidden (output-assembly half)

`no_preload_lines`: whatever the evaluations of the preloaded files leave behind — errors,
articles under their own file names — every line printed for the target names the target file:
diagnostics come only from the target parser's `Errors`, hints only from articles recorded by a
parser of the target file. The facts about main.go this rests on (`isLoad` returns before any
output; preload passes `isLoad = true`; hints are filtered by file; preloads run before the
target) are re-extracted from the source on every run (`main_facts`).
`preload_eq_concat`-style equality with the concatenated program depends on the statement
evaluator (parameter of the model); it is checked end-to-end by splitting programs at every
top-level boundary into 1-3 preload files plus a target.
-/
namespace RubyTi.C18
open RubyTi RubyTi.Rounds

/-- **No line refers to a preloaded file.** -/
theorem no_preload_lines (preloads : List Eval) (target : Eval) (withHints : Bool) :
    ∀ l ∈ checkRound preloads target withHints, l.file = target.file := by
  intro l hl
  simp only [checkRound, targetOutput, List.mem_append] at hl
  rcases hl with hl | hl
  · cases withHints
    · simp at hl
    · simp only [ite_true, List.mem_map] at hl
      obtain ⟨a, _, rfl⟩ := hl
      rfl
  · simp only [List.mem_map] at hl
    obtain ⟨e, _, rfl⟩ := hl
    rfl

/-- diagnostics are exactly the target parser's errors, in order, whatever was preloaded -/
theorem diagnostics_are_targets (preloads : List Eval) (target : Eval) :
    checkRound preloads target false = target.errors.map (fun e => Line.diag target.file e.1 e.2) := by
  simp [checkRound, targetOutput]

/-- hints of a preloaded file never appear even if it defines methods (they are recorded under the
preloaded file's name) -/
theorem preload_articles_hidden (preloads : List Eval) (target : Eval)
    (hp : ∀ p ∈ preloads, ∀ a ∈ p.articles, a.1 ≠ target.file) :
    checkRound preloads target true = checkRound [] target true := by
  simp only [checkRound, targetOutput, List.map_nil, List.flatten_nil, List.nil_append, ite_true, List.filter_append]
  have : (preloads.map (·.articles)).flatten.filter (fun a => a.1 == target.file) = [] := by
    apply List.filter_eq_nil_iff.mpr
    intro a ha
    simp only [List.mem_flatten, List.mem_map] at ha
    obtain ⟨as, ⟨p, hp', rfl⟩, ha'⟩ := ha
    simpa using hp p hp' a ha'
  rw [this]; rfl

/-- the syntactic facts about main.go the model rests on -/
theorem main_facts :
    Gen.mainLoadReturnsBeforeOutput = true ∧ Gen.mainHintsFilteredByFile = true ∧ Gen.mainPreloadIsLoad = true ∧
    Gen.mainTargetIsNotLoad = true ∧ Gen.mainPreloadBeforeTarget = true ∧ Gen.mainCleanBeforePreload = true := by decide

/-- non-vacuity -/
example : checkRound [⟨"p.rb".toList, [(1, "boom".toList)], [("p.rb".toList, 1, "sig".toList)]⟩]
    ⟨"m.rb".toList, [(2, "err".toList)], [("m.rb".toList, 3, "own".toList)]⟩ true =
    [Line.hint "m.rb".toList 3 "own".toList, Line.diag "m.rb".toList 2 "err".toList] := by decide

end RubyTi.C18

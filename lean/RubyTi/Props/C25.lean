import RubyTi.Model.Rbs
import RubyTi.Proofs.ArgsLemmas

/-!
# C25 — rbs2json conversion is deterministic and keeps the signature shape

* `rbs_perm`: whatever order Go's maps yield the keyword parameters in, `convertArguments` emits
  the same list (names distinct, as map keys are) — proved for *any* sorted permutation, not just
  the insertion sort of the model.
* `rbs_shape`: the emitted list is required positionals, optional positionals (`is_default`), the
  rest parameter (`is_asterisk`), trailing positionals, required keywords, optional keywords
  (`is_default`), in that order; keywords carry `name:` keys, positionals none.
The conversion of types and the arity ti derives from the emitted JSON are checked end-to-end.
-/
namespace RubyTi.C25
open RubyTi RubyTi.Args RubyTi.Rbs

def kwLe (a b : Str × Param) : Prop := strLe a.1 b.1 = true

theorem insertKw_perm (x : Str × Param) (l : List (Str × Param)) : (insertKw x l).Perm (x :: l) := by
  induction l with
  | nil => simp [insertKw]
  | cons y ys ih =>
    simp only [insertKw]
    split
    · exact List.Perm.refl _
    · exact (List.Perm.cons y ih).trans (List.Perm.swap x y ys)

theorem kwSorted_perm (l : List (Str × Param)) : (kwSorted l).Perm l := by
  induction l with
  | nil => exact List.Perm.refl _
  | cons x xs ih => exact (insertKw_perm x _).trans (List.Perm.cons x ih)

theorem insertKw_sorted (x : Str × Param) (l : List (Str × Param)) (h : l.Pairwise kwLe) :
    (insertKw x l).Pairwise kwLe := by
  induction l with
  | nil => simp [insertKw]
  | cons y ys ih =>
    simp only [insertKw]
    have hy := List.pairwise_cons.mp h
    split
    · rename_i hlt
      refine List.pairwise_cons.mpr ⟨?_, h⟩
      intro b hb
      have hxy : kwLe x y := by simp [kwLe, strLe, strLt_asymm _ _ hlt]
      simp at hb
      rcases hb with rfl | hb
      · exact hxy
      · exact strLe_trans _ _ _ hxy (hy.1 b hb)
    · rename_i hnlt
      refine List.pairwise_cons.mpr ⟨?_, ih hy.2⟩
      intro b hb
      have hb' := (insertKw_perm x ys).subset hb
      simp at hb'
      rcases hb' with rfl | hb'
      · simp [kwLe, strLe]; simpa using hnlt
      · exact hy.1 b hb'

theorem kwSorted_sorted (l : List (Str × Param)) : (kwSorted l).Pairwise kwLe := by
  induction l with
  | nil => simp [kwSorted]
  | cons x xs ih => exact insertKw_sorted x _ ih

/-- any two name-sorted permutations of the same keyword map (distinct names) are equal -/
theorem sorted_kw_unique (s₁ s₂ : List (Str × Param)) (hp : s₁.Perm s₂)
    (h₁ : s₁.Pairwise kwLe) (h₂ : s₂.Pairwise kwLe) (hk : (s₁.map (·.1)).Nodup) : s₁ = s₂ := by
  apply List.Perm.eq_of_pairwise (le := kwLe) _ h₁ h₂ hp
  intro a b ha hb hab hba
  have hkeq : a.1 = b.1 := strLe_antisymm _ _ hab hba
  exact inj_of_nodup_map (·.1) s₁ hk ha (hp.symm.subset hb) hkeq

/-- **Determinism**: the order in which the keyword maps are iterated does not matter. -/
theorem rbs_perm (f : FuncType) (rk ok : List (Str × Param))
    (hr : rk.Perm f.requiredKw) (ho : ok.Perm f.optionalKw)
    (hrk : (f.requiredKw.map (·.1)).Nodup) (hok : (f.optionalKw.map (·.1)).Nodup) :
    convertArguments { f with requiredKw := rk, optionalKw := ok } = convertArguments f := by
  have e1 : kwSorted rk = kwSorted f.requiredKw :=
    sorted_kw_unique _ _ ((kwSorted_perm rk).trans (hr.trans (kwSorted_perm _).symm))
      (kwSorted_sorted _) (kwSorted_sorted _)
      (((kwSorted_perm rk).trans hr).map (·.1) |>.nodup_iff.mpr hrk)
  have e2 : kwSorted ok = kwSorted f.optionalKw :=
    sorted_kw_unique _ _ ((kwSorted_perm ok).trans (ho.trans (kwSorted_perm _).symm))
      (kwSorted_sorted _) (kwSorted_sorted _)
      (((kwSorted_perm ok).trans ho).map (·.1) |>.nodup_iff.mpr hok)
  simp only [convertArguments, keywords, e1, e2]

/-- **Shape**: positionals (no key) first, then keywords; among positionals required, optional
(`is_default`), rest (`is_asterisk`), trailing; among keywords required before optional. -/
theorem rbs_shape (f : FuncType) :
    ∃ req opt rest trail rkw okw,
      convertArguments f = req ++ opt ++ rest ++ trail ++ rkw ++ okw ∧
      (∀ a ∈ req, a.key = [] ∧ a.isDefault = false ∧ a.isAsterisk = false) ∧
      (∀ a ∈ opt, a.key = [] ∧ a.isDefault = true ∧ a.isAsterisk = false) ∧
      (∀ a ∈ rest, a.key = [] ∧ a.isAsterisk = true) ∧ rest.length ≤ 1 ∧
      (∀ a ∈ trail, a.key = [] ∧ a.isDefault = false ∧ a.isAsterisk = false) ∧
      (∀ a ∈ rkw, a.key ≠ [] ∧ a.key.getLast? = some ':' ∧ a.isDefault = false) ∧
      (∀ a ∈ okw, a.key ≠ [] ∧ a.key.getLast? = some ':' ∧ a.isDefault = true) := by
  refine ⟨positionals f.required false, positionals f.optional true,
    (match f.rest with | none => [] | some p => [{ type := p.getD [], isAsterisk := true }]),
    positionals f.trailing false, keywords f.requiredKw false, keywords f.optionalKw true, rfl, ?_, ?_, ?_, ?_, ?_, ?_, ?_⟩
  · intro a ha; simp [positionals] at ha; obtain ⟨p, _, t, _, rfl⟩ := ha; simp
  · intro a ha; simp [positionals] at ha; obtain ⟨p, _, t, _, rfl⟩ := ha; simp
  · intro a ha; cases hr : f.rest <;> simp [hr] at ha; subst ha; simp
  · cases f.rest <;> simp
  · intro a ha; simp [positionals] at ha; obtain ⟨p, _, t, _, rfl⟩ := ha; simp
  · intro a ha; simp [keywords] at ha; obtain ⟨n, p, _, t, _, rfl⟩ := ha; simp
  · intro a ha; simp [keywords] at ha; obtain ⟨n, p, _, t, _, rfl⟩ := ha; simp

/-- non-vacuity: two keyword parameters given in both orders -/
example :
    let f : FuncType := { required := [some ["Int".toList]], requiredKw := [("b".toList, some ["String".toList]), ("a".toList, some ["Int".toList])] }
    convertArguments { f with requiredKw := f.requiredKw.reverse } = convertArguments f ∧
    (f.requiredKw.map (·.1)).Nodup := by decide

end RubyTi.C25

import RubyTi.Model.Analysis
import RubyTi.Gen.ClassFacts

/-!
# C12 — analysing a program never alters configured builtin signatures

On the table model of the analysis (`Model/Analysis.lean`), for EVERY initial table, every sequence
of operations of a program that does not reopen builtin classes (any writes outside the Builtin
frame, any calls of configured methods with any receivers and arguments):
* `builtin_invariant`: every entry of the Builtin frame — method types with their return type and
  flags, declared parameter types, overload lists — is exactly what it was before;
* `probe_independent`: the type computed for a configured call on given receiver and argument
  types is the same after the program as in the initial table (`z = 2 * w` alone or last).
The Go analyser used to violate the model's premise in three ways, each repaired by a `fix:`
commit and now checked on every run by the `analyze` op: a union receiver accumulated its return
type in the shared method `T` (`x * q` with `x : String|Integer` made every later `2 * w`
`Integer|Float|String`), `OptionalUnify` appended to its receiver, and binding a rest parameter of
a configured method overwrote the declared parameter type.
-/
namespace RubyTi.C12
open RubyTi RubyTi.Frame RubyTi.Analysis

theorem step_builtin (s : Store) (op : Op) (h : userOp op = true) (k : FrameKey) (hk : isBuiltinKey k = true) :
    lookup (step s op).1 k = lookup s k := by
  cases op with
  | write k' v =>
    simp only [step]
    apply lookup_insert_other
    intro e
    simp only [userOp, Bool.not_eq_true'] at h
    rw [e] at h
    rw [h] at hk
    exact absurd hk (by decide)
  | call k' recv args =>
    simp only [step]
    split <;> rfl

/-- **the Builtin frame is invariant under the analysis of any such program** -/
theorem builtin_invariant (s : Store) (ops : List Op) (h : ops.all userOp = true) (k : FrameKey)
    (hk : isBuiltinKey k = true) : lookup (run s ops) k = lookup s k := by
  induction ops generalizing s with
  | nil => rfl
  | cons op rest ih =>
    simp only [List.all_cons, Bool.and_eq_true] at h
    simp only [run, List.foldl_cons]
    have := ih (step s op).1 h.2
    simp only [run] at this
    rw [this, step_builtin s op h.1 k hk]

/-- the result of a configured call does not depend on what was analysed before it -/
theorem probe_independent (s : Store) (ops : List Op) (h : ops.all userOp = true) (k : FrameKey)
    (hk : isBuiltinKey k = true) (recv : T) (args : List T) :
    (step (run s ops) (.call k recv args)).2 = (step s (.call k recv args)).2 := by
  simp only [step, builtin_invariant s ops h k hk]
  cases lookup s k <;> rfl

/-- non-vacuity: a store with `Integer#*`, a user assignment and a union-receiver call -/
example :
    let k : FrameKey := methodKey BUILTIN "Integer".toList "*".toList false
    let s : Store := [(k, (T.makeUnion [T.makeAnyInt, T.makeAnyFloat]).setMethod BUILTIN "*".toList [])]
    let ops := [Op.write (valueKey [] [] [] "x".toList false) T.makeAnyString, Op.call k T.makeAnyString [T.makeAnyInt]]
    ops.all userOp = true ∧ isBuiltinKey k = true ∧ (lookup (run s ops) k).isSome = true := by decide

/-- One of the places where the analysis of USER code handles a configured entry: a class without `initialize`
inherits its ancestor's `new` (for `class Stack < Array` the configured `Array.new`). The source copies that
entry before it retargets it to the subclass (regenerated fact), so the write is a user-frame write in the sense
of `userOp` and the configured entry stays as declared. -/
theorem inherited_new_is_copied : Gen.classNewCopiedBeforeRetarget = true := by decide

end RubyTi.C12

import RubyTi.Proofs.MatchLemmas
import RubyTi.Proofs.BindLemmas
import RubyTi.Gen.StrategyFacts

/-!
# C07 — definite misuse is reported (the per-argument decision)

`rejected_reported`: for every declared parameter type `d` and argument type `a`: if every
possible value of `a` (its variants when it is a union) is rejected by `d`, the argument is not a
block / untyped / unknown value, `d` is not untyped and a union parameter has at least one variant,
then checkArgType reports a mismatch. False before the `fix:` commits on IsMatchUnionType /
IsMatchType: `Foo` was accepted for `GPIO|String`, `Union<Foo String>` for `Union<Bar String>`.
`too_many_reported`, `missing_required_reported`, `rejected_argument_reported`: on the model of the
binding loop of checkAndPropagateArgs (`Model/Bind.lean`, tied by the `bind` stream through hooks that
declare a configured method and call the real loop), for every positional signature and every list of
positional arguments: more arguments than parameters, a parameter without default left without an
argument, or an argument all of whose possible values the parameter at its position rejects — each
makes the call be reported (`bind_pos_ok_iff`: accepted exactly when it fits). Rest and keyword
parameters are covered by the stream and end-to-end; rest (`*T`) parameters do not check their element
type (known finding K28). Receiver lookup: C16's `lookup` stream.
-/
namespace RubyTi.C07
open RubyTi RubyTi.Match Gen.Tok

/-- **C07, per argument**: an argument all of whose possible values are rejected is reported -/
theorem rejected_reported (d a : T) (hne : possible a ≠ [])
    (hblock : a.tag ≠ BLOCK) (hau : a.tag ≠ UNTYPED) (hak : a.tag ≠ UNKNOWN) (hdu : d.tag ≠ UNTYPED)
    (hdne : d.tag = UNION → d.variants ≠ [])
    (h : ∀ v ∈ possible a, admits d v = false) : checkArg d a = false := by
  have hmt : isMatchType d a = false := by
    unfold isMatchType
    by_cases hd : d.tag = UNION <;> by_cases ha : a.tag = UNION
    · -- both unions: covering each other would make some variant admitted
      simp only [isUnion, hd, ha, beq_self_eq_true, Bool.and_self, ite_true]
      cases hc : coveredBy a d with
      | false => simp
      | true =>
        exfalso
        simp only [possible, ha, beq_self_eq_true, ite_true] at h hne
        cases hv : a.variants with
        | nil => exact hne hv
        | cons v rest =>
          have h1 := h v (by simp [hv])
          have h2 := coveredBy_admits d a hc (hdne hd) v (by simp [hv])
          simp [admits, hd, h2] at h1
    · have : (a.tag == UNION) = false := by simpa using ha
      simp only [isUnion, hd, this, Bool.and_false]
      have hao : ¬ (d.tag = OBJECT ∧ a.tag = OBJECT) := by
        intro ho; rw [hd] at ho; exact absurd ho.1 (by decide)
      simp [hd, Ne.symm ha]
      intro ho; exact absurd ho (by decide)
    · have : (d.tag == UNION) = false := by simpa using hd
      simp only [isUnion, this, Bool.false_and]
      simp [ha, hd]
      intro _ ho; exact absurd ho (by decide)
    · -- neither is a union: the single value is rejected
      have hdu2 : (d.tag == UNION) = false := by simpa using hd
      have hau2 : (a.tag == UNION) = false := by simpa using ha
      simp only [isUnion, hdu2, Bool.false_and]
      simp only [possible, hau2] at h
      have h1 := h a (by simp)
      simp only [admits, hdu2] at h1
      have h2 : acceptVariant d a = false := by simpa using h1
      rw [acceptVariant_typed d a hdu hau] at h2
      simpa using h2
  unfold checkArg
  have hb : (a.tag == BLOCK) = false := by simpa using hblock
  have hany : (d.tag == UNTYPED || a.tag == UNTYPED || a.tag == UNKNOWN) = false := by simp [hdu, hau, hak]
  simp only [hb, hany, hmt]
  simp only [Bool.false_eq_true, ite_false]
  split
  · rename_i hd
    unfold isMatchUnionType
    split
    · rename_i ha
      simp only [possible, ha, ite_true] at h hne
      cases hv : a.variants with
      | nil => exact absurd hv hne
      | cons v rest =>
        have h1 := h v (by simp [hv])
        simp only [admits, hd, ite_true] at h1
        simp [h1]
    · rename_i ha
      simp only [possible, ha] at h
      have h1 := h a (by simp)
      simpa [admits, hd] using h1
  · rename_i hd
    split
    · rename_i ha
      unfold isMatchUnionType
      have hd2 : (d.tag == UNION) = false := by simpa using hd
      simp only [hd2]
      simp only [possible, ha, ite_true] at h
      apply List.any_eq_false.mpr
      intro v hv
      have h1 := h v hv
      simp only [admits, hd2] at h1
      rw [acceptVariant_symm]; simpa using h1
    · rfl

/-- non-vacuity: an object of class `Foo` against `GPIO|String` (the witness that used to be accepted) -/
example : checkArg (T.makeUnion [T.makeObject "GPIO".toList, T.makeAnyString]) (T.makeObject "Foo".toList) = false := by decide

example : checkArg (T.makeUnion [T.makeObject "Bar".toList, T.makeAnyString])
    (T.makeUnion [T.makeObject "Foo".toList, T.makeAnyString]) = false := by decide

/-! ## counts and binding (positional signatures) -/
section
open RubyTi.Bind

/-- more arguments than the signature has parameters: reported -/
theorem too_many_reported (ps : List Param) (hps : posOnly ps) (as : List T) (h : as.length > ps.length) :
    bind ps (as.map Arg.pos) ≠ .ok := by
  intro hok
  have := fitsB_length as ps ((bind_pos_ok_iff ps hps as).mp hok)
  omega

theorem fitsB_default_tail (as : List T) (ps : List Param) (h : fitsB as ps = true) :
    ∀ i, (hi : i < ps.length) → as.length ≤ i → (ps[i]).t.fl.hasDefault = true := by
  induction as generalizing ps with
  | nil =>
    intro i hi _
    simp only [fitsB] at h
    exact List.all_eq_true.mp h _ (List.getElem_mem hi)
  | cons a rest ih =>
    cases ps with
    | nil => simp [fitsB] at h
    | cons p ps' =>
      intro i hi hle
      simp only [fitsB, Bool.and_eq_true] at h
      cases i with
      | zero => simp at hle
      | succ j =>
        simp only [List.getElem_cons_succ]
        exact ih ps' h.2 j (by simpa using hi) (by simpa using hle)

/-- a parameter without default that no argument reaches: reported -/
theorem missing_required_reported (ps : List Param) (hps : posOnly ps) (as : List T) (i : Nat) (hi : i < ps.length)
    (hle : as.length ≤ i) (hreq : (ps[i]).t.fl.hasDefault = false) :
    bind ps (as.map Arg.pos) ≠ .ok := by
  intro hok
  have := fitsB_default_tail as ps ((bind_pos_ok_iff ps hps as).mp hok) i hi hle
  rw [hreq] at this
  exact absurd this (by decide)

theorem fitsB_checks (as : List T) (ps : List Param) (h : fitsB as ps = true) :
    ∀ i, (hi : i < as.length) → (hp : i < ps.length) → Match.checkArg (ps[i]).t (as[i]) = true := by
  induction as generalizing ps with
  | nil => intro i hi; simp at hi
  | cons a rest ih =>
    cases ps with
    | nil => simp [fitsB] at h
    | cons p ps' =>
      intro i hi hp
      simp only [fitsB, Bool.and_eq_true] at h
      cases i with
      | zero => simpa using h.1
      | succ j =>
        simp only [List.getElem_cons_succ]
        exact ih ps' h.2 j (by simpa using hi) (by simpa using hp)

/-- an argument all of whose possible values are rejected by the parameter at its position: reported -/
theorem rejected_argument_reported (ps : List Param) (hps : posOnly ps) (as : List T) (i : Nat) (hi : i < as.length)
    (hp : i < ps.length) (hne : possible (as[i]) ≠ [])
    (hblock : (as[i]).tag ≠ BLOCK) (hau : (as[i]).tag ≠ UNTYPED) (hak : (as[i]).tag ≠ UNKNOWN)
    (hdu : (ps[i]).t.tag ≠ UNTYPED) (hdne : (ps[i]).t.tag = UNION → (ps[i]).t.variants ≠ [])
    (hrej : ∀ v ∈ possible (as[i]), admits (ps[i]).t v = false) :
    bind ps (as.map Arg.pos) ≠ .ok := by
  intro hok
  have h1 := fitsB_checks as ps ((bind_pos_ok_iff ps hps as).mp hok) i hi hp
  rw [rejected_reported (ps[i]).t (as[i]) hne hblock hau hak hdu hdne hrej] at h1
  exact absurd h1 (by decide)

/-- non-vacuity: `m(Int, String = default)` called with three arguments, with none, and with a Float first -/
example :
    let ps : List Param := [{ kind := .pos, t := T.makeAnyInt }, { kind := .pos, t := T.makeBuiltinDefaultString }]
    bind ps ([T.makeInt, T.makeAnyString, T.makeInt].map Arg.pos) = .tooMany ∧ bind ps [] = .tooFew ∧
    bind ps ([T.makeFloat].map Arg.pos) = .mismatch ∧ bind ps ([T.makeInt].map Arg.pos) = .ok := by decide
end

section
open RubyTi.Bind

/-- no declaration accepts ⇒ the class's result is an error -/
theorem tryOverloads_rejected (args : List Arg) (os : List (List Param)) (last : Res) (hl : last ≠ .ok)
    (h : ∀ o ∈ os, RubyTi.Bind.bind o args ≠ .ok) : tryOverloads args os last ≠ .ok := by
  induction os generalizing last with
  | nil => simpa [tryOverloads] using hl
  | cons o rest ih =>
    have ho : RubyTi.Bind.bind o args ≠ .ok := h o (by simp)
    simp only [tryOverloads]
    have : (RubyTi.Bind.bind o args == Res.ok) = false := by simpa using ho
    simp only [this]
    exact ih (RubyTi.Bind.bind o args) ho (fun x hx => h x (by simp [hx]))

theorem bindClass_rejected (decls : List (List Param)) (args : List Arg) (hne : decls ≠ [])
    (h : ∀ d ∈ decls, RubyTi.Bind.bind d args ≠ .ok) : bindClass decls args ≠ .ok := by
  cases decls with
  | nil => exact absurd rfl hne
  | cons d os =>
    have hd : RubyTi.Bind.bind d args ≠ .ok := h d (by simp)
    have : (RubyTi.Bind.bind d args == Res.ok) = false := by simpa using hd
    simp only [bindClass, this]
    exact tryOverloads_rejected args os _ hd (fun x hx => h x (by simp [hx]))

/-- **A call on a union receiver that some possible receiver class certainly rejects is reported**: if for one
class of the union every declaration of the method (the first one and all overloads) rejects the arguments, the
call is an error — whatever the other classes declare, for any number of classes and overloads. -/
theorem union_rejected_reported (classes : List (List (List Param))) (args : List Arg)
    (c : List (List Param)) (hc : c ∈ classes) (hne : c ≠ []) (h : ∀ d ∈ c, RubyTi.Bind.bind d args ≠ .ok) :
    bindUnion classes args ≠ .ok := by
  induction classes with
  | nil => simp at hc
  | cons k rest ih =>
    simp only [bindUnion]
    by_cases hk : (bindClass k args == Res.ok) = true
    · simp only [hk]
      rcases List.mem_cons.mp hc with e | e
      · subst e
        exact absurd (by simpa using hk) (bindClass_rejected c args hne h)
      · exact ih e
    · simp only [hk]
      simpa using hk

end

/-- Union receivers: every class of the receiver is checked with the binding loop above, and an argument error that
none of that class's declarations lifts is returned (regenerated from checkAndPropagateArgsForUnionWithReturnT):
the theorems about one declaration carry over to a call on a union receiver class by class. -/
theorem union_receiver_error_is_returned : Gen.unionReceiverErrorSurvivesOverloads = true := by decide

end RubyTi.C07

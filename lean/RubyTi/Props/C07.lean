import RubyTi.Proofs.MatchLemmas

/-!
# C07 — definite misuse is reported (the per-argument decision)

`rejected_reported`: for every declared parameter type `d` and argument type `a`: if every
possible value of `a` (its variants when it is a union) is rejected by `d`, the argument is not a
block / untyped / unknown value, `d` is not untyped and a union parameter has at least one variant,
then checkArgType reports a mismatch. False before the `fix:` commits on IsMatchUnionType /
IsMatchType: `Foo` was accepted for `GPIO|String`, `Union<Foo String>` for `Union<Bar String>`.
Receiver lookup, argument counting and binding are checked by the streams and end-to-end; rest
(`*T`) parameters do not check their element type (known finding K28).
-/
namespace RubyTi.C07
open RubyTi RubyTi.Match Gen.Tok

/-- **C07, per argument**: an argument all of whose possible values are rejected is reported -/
theorem rejected_reported (d a : T) (hne : possible a ≠ [])
    (hblock : a.tag ≠ BLOCK) (hau : a.tag ≠ UNTYPED) (hak : a.tag ≠ UNKNOWN) (hdu : d.tag ≠ UNTYPED)
    (hdne : d.tag = UNION → d.variants ≠ [])
    (h : ∀ v ∈ possible a, admits d v = false) : checkArg d a = false := by
  have hmt : isMatchType d a = false := by
    unfold isMatchType
    by_cases hd : d.tag = UNION <;> by_cases ha : a.tag = UNION
    · -- both unions: covering each other would make some variant admitted
      simp only [isUnion, hd, ha, beq_self_eq_true, Bool.and_self, ite_true]
      cases hc : coveredBy a d with
      | false => simp
      | true =>
        exfalso
        simp only [possible, ha, beq_self_eq_true, ite_true] at h hne
        cases hv : a.variants with
        | nil => exact hne hv
        | cons v rest =>
          have h1 := h v (by simp [hv])
          have h2 := coveredBy_admits d a hc (hdne hd) v (by simp [hv])
          simp [admits, hd, h2] at h1
    · have : (a.tag == UNION) = false := by simpa using ha
      simp only [isUnion, hd, this, Bool.and_false]
      have hao : ¬ (d.tag = OBJECT ∧ a.tag = OBJECT) := by
        intro ho; rw [hd] at ho; exact absurd ho.1 (by decide)
      simp [hd, Ne.symm ha]
      intro ho; exact absurd ho (by decide)
    · have : (d.tag == UNION) = false := by simpa using hd
      simp only [isUnion, this, Bool.false_and]
      simp [ha, hd]
      intro _ ho; exact absurd ho (by decide)
    · -- neither is a union: the single value is rejected
      have hdu2 : (d.tag == UNION) = false := by simpa using hd
      have hau2 : (a.tag == UNION) = false := by simpa using ha
      simp only [isUnion, hdu2, Bool.false_and]
      simp only [possible, hau2] at h
      have h1 := h a (by simp)
      simp only [admits, hdu2] at h1
      have h2 : acceptVariant d a = false := by simpa using h1
      rw [acceptVariant_typed d a hdu hau] at h2
      simpa using h2
  unfold checkArg
  have hb : (a.tag == BLOCK) = false := by simpa using hblock
  have hany : (d.tag == UNTYPED || a.tag == UNTYPED || a.tag == UNKNOWN) = false := by simp [hdu, hau, hak]
  simp only [hb, hany, hmt]
  simp only [Bool.false_eq_true, ite_false]
  split
  · rename_i hd
    unfold isMatchUnionType
    split
    · rename_i ha
      simp only [possible, ha, ite_true] at h hne
      cases hv : a.variants with
      | nil => exact absurd hv hne
      | cons v rest =>
        have h1 := h v (by simp [hv])
        simp only [admits, hd, ite_true] at h1
        simp [h1]
    · rename_i ha
      simp only [possible, ha] at h
      have h1 := h a (by simp)
      simpa [admits, hd] using h1
  · rename_i hd
    split
    · rename_i ha
      unfold isMatchUnionType
      have hd2 : (d.tag == UNION) = false := by simpa using hd
      simp only [hd2]
      simp only [possible, ha, ite_true] at h
      apply List.any_eq_false.mpr
      intro v hv
      have h1 := h v hv
      simp only [admits, hd2] at h1
      rw [acceptVariant_symm]; simpa using h1
    · rfl

/-- non-vacuity: an object of class `Foo` against `GPIO|String` (the witness that used to be accepted) -/
example : checkArg (T.makeUnion [T.makeObject "GPIO".toList, T.makeAnyString]) (T.makeObject "Foo".toList) = false := by decide

example : checkArg (T.makeUnion [T.makeObject "Bar".toList, T.makeAnyString])
    (T.makeUnion [T.makeObject "Foo".toList, T.makeAnyString]) = false := by decide

end RubyTi.C07

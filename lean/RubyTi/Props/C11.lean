import RubyTi.Props.C12

/-!
# C11 — independent code does not change the analysis of other code (table-level core)

A fragment that shares no user-defined names with the host program, defines no classes or methods
and does not reopen builtin classes performs, on the table model of the analysis
(`Model/Analysis.lean`), only writes to keys the host never looks up and calls of configured
methods. For every initial table, every such operation sequence and every key outside the
fragment's own keys:
* `fragment_invisible`: the lookup gives what it gave without the fragment — configured
  declarations (C12's `builtin_invariant`) and the host's own variables and methods alike;
* `host_call_unaffected`: the type a host call of a configured method computes is the same with
  and without the fragment before it.
Block scopes and narrowing restore what they touched (C17 `block_local_invisible`,
`shadow_restored`; C10 `restore_spec`). What is NOT a table — the parser's flags and its last
evaluated value at a statement boundary — is checked end-to-end by inserting generated fragments at
every eligible boundary of corpus and generated programs; one such leak (a statement starting with
`[` indexed the previous statement's value) was repaired by a `fix:` commit.
-/
namespace RubyTi.C11
open RubyTi RubyTi.Frame RubyTi.Analysis

/-- the keys a fragment writes -/
def writtenKeys : List Op → List FrameKey
  | [] => []
  | .write k _ :: rest => k :: writtenKeys rest
  | .call .. :: rest => writtenKeys rest

theorem step_other (s : Store) (op : Op) (q : FrameKey) (h : q ∉ writtenKeys [op]) :
    lookup (step s op).1 q = lookup s q := by
  cases op with
  | write k v =>
    simp only [writtenKeys, List.mem_singleton] at h
    simp only [step]
    exact lookup_insert_other _ _ _ _ (fun e => h e.symm)
  | call k recv args =>
    simp only [step]
    split <;> rfl

/-- **a fragment is invisible at every key it does not write** -/
theorem fragment_invisible (s : Store) (frag : List Op) (q : FrameKey) (h : q ∉ writtenKeys frag) :
    lookup (run s frag) q = lookup s q := by
  induction frag generalizing s with
  | nil => rfl
  | cons op rest ih =>
    simp only [run, List.foldl_cons]
    have hq : q ∉ writtenKeys [op] ∧ q ∉ writtenKeys rest := by
      cases op with
      | write k v =>
        simp only [writtenKeys, List.mem_cons, not_or] at h
        exact ⟨by simpa [writtenKeys] using h.1, h.2⟩
      | call k recv args => exact ⟨by simp [writtenKeys], by simpa [writtenKeys] using h⟩
    have := ih (step s op).1 hq.2
    simp only [run] at this
    rw [this, step_other s op q hq.1]

/-- a host call of a configured method computes the same type with the fragment before it -/
theorem host_call_unaffected (s : Store) (frag : List Op) (k : FrameKey) (hk : k ∉ writtenKeys frag)
    (recv : T) (args : List T) :
    (step (run s frag) (.call k recv args)).2 = (step s (.call k recv args)).2 := by
  simp only [step, fragment_invisible s frag k hk]
  cases lookup s k <;> rfl

example :
    let k : FrameKey := valueKey [] [] [] "hostvar".toList false
    let frag := [Op.write (valueKey [] [] [] "zf1".toList false) T.makeAnyString]
    k ∉ writtenKeys frag := by decide

end RubyTi.C11

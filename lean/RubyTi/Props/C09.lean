import RubyTi.Model.Ret

/-!
# C09 — inferred types agree with literals and declared return types (resolution core)

On the models of `calculateExecutionType` (`Ret.calcExec`) and of the union normalisation
(`Unify.appendVariant`, `Unify.unifyVariants`), both tied to the Go code by the `ret`, `unify`,
`appendv` and `render` correspondence streams:
* `plain_return_is_declared`: a declared return type that is none of the computed kinds is the
  type of the call, whatever the receiver and the arguments are;
* `self_returns_receiver`, `argument_returns_*`, `unify_returns_unified`: `Self` is the receiver,
  `Argument` is nil / the argument / the array of the arguments, `Unify` is the unified element type;
* `receiver_unchanged`: resolving ANY return type leaves the receiver exactly as it was (the Go
  code used to append `NilClass` to the receiver for `OptionalUnify` and to rewrite it through shared
  slices — three `fix:` commits — and the `ret` stream compares the receiver afterwards);
* `optional_unify_returns`: `OptionalUnify` is the unified element types plus `NilClass`;
* `appendVariant_scalar`: appending a scalar type to a union adds it iff no variant has its tag
  and class; `unify_homogeneous`: an array literal whose elements all have one scalar type unifies
  to that type (so `[1, 2, 3]` is `Array<Integer>`).
Assignment, indexing, hash lookup and the dbtp and -i printers are evaluator behaviour: end-to-end.
-/
namespace RubyTi.C09
open RubyTi RubyTi.Unify RubyTi.Ret Gen.Tok

/-- the return kinds `calculateExecutionType` computes instead of returning the declaration -/
def computedKind (m : T) : Bool :=
  m.method == "new".toList || m.tag == UNION || m.tag == SELF || m.tag == SELF_ARRAY || m.tag == ARGUMENT ||
  m.tag == ARRAY || m.tag == UNIFY || m.tag == OPTIONAL_UNIFY || m.tag == KEYVALUE_ARRAY ||
  (m.tag != STRING && Config.isNameSpace (toStr m))

theorem plain_return_is_declared (fuel : Nat) (m recv : T) (args : List T) (h : computedKind m = false) :
    calcExec (fuel + 1) m recv args = (m, recv) := by
  simp only [computedKind, Bool.or_eq_false_iff] at h
  obtain ⟨⟨⟨⟨⟨⟨⟨⟨⟨h1, h2⟩, h3⟩, h4⟩, h5⟩, h6⟩, h7⟩, h8⟩, h9⟩, h10⟩ := h
  simp only [calcExec, h1, h2, h3, h4, h5, h6, h7, h8, h9, h10]
  simp

theorem self_returns_receiver (fuel : Nat) (m recv : T) (args : List T)
    (hn : (m.method == "new".toList) = false) (h : m.tag = SELF) :
    calcExec (fuel + 1) m recv args = (recv, recv) := by
  have hn' : ¬ m.method = ['n', 'e', 'w'] := by simpa using hn
  simp [calcExec, hn', h, UNION, SELF]

theorem argument_returns_nil (fuel : Nat) (m recv : T)
    (hn : (m.method == "new".toList) = false) (h : m.tag = ARGUMENT) :
    calcExec (fuel + 1) m recv [] = (T.makeNil, recv) := by
  have hn' : ¬ m.method = ['n', 'e', 'w'] := by simpa using hn
  simp [calcExec, hn', h, UNION, SELF, SELF_ARRAY, ARGUMENT]

theorem argument_returns_the_argument (fuel : Nat) (m recv a : T)
    (hn : (m.method == "new".toList) = false) (h : m.tag = ARGUMENT) :
    calcExec (fuel + 1) m recv [a] = (a, recv) := by
  have hn' : ¬ m.method = ['n', 'e', 'w'] := by simpa using hn
  simp [calcExec, hn', h, UNION, SELF, SELF_ARRAY, ARGUMENT]

theorem unify_returns_unified (fuel : Nat) (m recv : T) (args : List T)
    (hn : (m.method == "new".toList) = false) (h : m.tag = UNIFY) :
    calcExec (fuel + 1) m recv args = (unifyVariants 40 recv, recv) := by
  have hn' : ¬ m.method = ['n', 'e', 'w'] := by simpa using hn
  simp [calcExec, hn', h, UNION, SELF, SELF_ARRAY, ARGUMENT, ARRAY, UNIFY]

/-! ## the receiver is left alone -/

/-- resolving a return type never touches the receiver -/
theorem receiver_unchanged (fuel : Nat) :
    (∀ m recv args, (calcExec fuel m recv args).2 = recv) ∧
    (∀ vs recv args, (calcList fuel vs recv args).2 = recv) := by
  induction fuel with
  | zero => exact ⟨fun m recv args => by simp [calcExec], fun vs recv args => by simp [calcList]⟩
  | succ n ih =>
    constructor
    · intro m recv args
      have hl := ih.2 m.variants recv args
      simp only [calcExec]
      split
      · rfl
      · split
        · exact hl
        · split
          · rfl
          · split
            · rfl
            · split
              · split <;> rfl
              · split
                · exact hl
                · split
                  · rfl
                  · split
                    · rfl
                    · split
                      · rfl
                      · split <;> rfl
    · intro vs recv args
      cases vs with
      | nil => simp [calcList]
      | cons v rest =>
        simp only [calcList]
        rw [ih.1 v recv args]
        exact ih.2 rest recv args

/-- `OptionalUnify`: the element types together with `NilClass`, e.g. `[1, 2].first : Union<Integer NilClass>` -/
theorem optional_unify_returns (fuel : Nat) (m recv : T) (args : List T)
    (hn : (m.method == "new".toList) = false) (h : m.tag = OPTIONAL_UNIFY) :
    calcExec (fuel + 1) m recv args = (makeUnifiedT 40 (recv.variants ++ [T.makeNil]), recv) := by
  have hn' : ¬ m.method = ['n', 'e', 'w'] := by simpa using hn
  simp [calcExec, hn', h, UNION, SELF, SELF_ARRAY, ARGUMENT, ARRAY, UNIFY, OPTIONAL_UNIFY]

example : ((calcExec 5 (T.makeOptionalUnify.setMethod [] "first".toList []) (T.makeArray [T.makeInt, T.makeInt]) []).1.variants.map T.tag)
    = [INT, NIL] := by decide

/-! ## union normalisation -/

/-- a type that AppendVariant neither flattens nor merges -/
def scalar (v : T) : Prop := v.tag ≠ UNION ∧ v.tag ≠ HASH ∧ v.tag ≠ ARRAY

/-- appending a scalar adds it exactly when the union has no variant of its tag and class -/
theorem appendVariant_scalar (fuel : Nat) (t v : T) (hv : scalar v) :
    appendVariant (fuel + 1) t v = if isEqualObject t v then t else t.setVariants (t.variants ++ [v]) := by
  obtain ⟨h1, h2, h3⟩ := hv
  simp only [appendVariant]
  simp only [beq_iff_eq, h1, h2, h3, ite_false]
  cases isEqualObject t v <;> simp

theorem setVariants_variants (t : T) (vs : List T) : (t.setVariants vs).variants = vs := by
  cases t; rfl

theorem setVariants_tag (t : T) (vs : List T) : (t.setVariants vs).tag = t.tag := by
  cases t; rfl

/-- folding copies of one scalar into a union that already holds it changes nothing -/
theorem fold_same (fuel : Nat) (s : T) (hs : scalar s) (hsv : s.variants = []) (n : Nat) (u : T)
    (hu : isEqualObject u s = true) :
    (List.replicate n s).foldl (fun acc v => appendVariant (fuel + 1) acc v) u = u := by
  induction n with
  | zero => rfl
  | succ k ih =>
    simp only [List.replicate_succ, List.foldl_cons]
    rw [appendVariant_scalar fuel u s hs, hu]
    simpa using ih

/-- **homogeneous array literal**: `n + 1` elements of one scalar type unify to that type -/
theorem unify_homogeneous (fuel : Nat) (s : T) (hs : scalar s) (hsv : s.variants = []) (n : Nat) :
    unifyVariants (fuel + 2) (T.makeArray (List.replicate (n + 1) s)) = s := by
  have htag : (T.makeArray (List.replicate (n + 1) s)).tag = ARRAY := rfl
  have hvs : (T.makeArray (List.replicate (n + 1) s)).variants = List.replicate (n + 1) s := rfl
  simp only [unifyVariants, htag, hvs]
  have hne : (ARRAY == HASH) = false := by decide
  simp only [hne, Bool.false_eq_true, ite_false, List.replicate_succ, List.foldl_cons]
  -- the first element enters the empty union
  have h0 : appendVariant (fuel + 1) (T.makeUnion []) s = (T.makeUnion []).setVariants [s] := by
    rw [appendVariant_scalar fuel _ s hs]
    have : isEqualObject (T.makeUnion []) s = false := by
      simp only [isEqualObject, hsv]
      have : (T.makeUnion []).variants = [] := rfl
      simp only [this, List.isEmpty_nil, Bool.and_self, ite_true]
      have hu : (T.makeUnion []).tag = UNION := rfl
      rw [hu]
      exact beq_false_of_ne (fun e => hs.1 e.symm)
    simp [this]
    rfl
  rw [h0]
  have hu : isEqualObject ((T.makeUnion []).setVariants [s]) s = true := by
    simp only [isEqualObject, setVariants_variants, hsv]
    simp
  rw [fold_same fuel s hs hsv n _ hu]
  simp [setVariants_variants]

/-- non-vacuity: `[1, 2, 3]` is rendered `Array<Integer>`, `[1, 's']` `Array<Integer String>` -/
example : unifyVariants 3 (T.makeArray [T.makeInt, T.makeInt, T.makeInt]) = T.makeInt :=
  unify_homogeneous 1 T.makeInt ⟨by decide, by decide, by decide⟩ rfl 2

example : (unifyVariants 9 (T.makeArray [T.makeInt, T.makeAnyString])).variants.map T.tag = [INT, STRING] := by decide

end RubyTi.C09

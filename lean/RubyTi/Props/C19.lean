import RubyTi.Model.Frame
import RubyTi.Props.C21
import RubyTi.Gen.LoaderFacts

/-!
# C19 — config file names and splitting do not matter (table-level core)

`.ti-config/*.json` files are loaded in file-name order; each declaration ends in writes to the
global Go map `TFrame` (methods, argument values, constants, instance variables) and to
`ClassInheritanceMap`. What can be proved on the map model, for every table and every list of
writes: a sequence of writes to **pairwise distinct keys** produces the same map whatever the
order (`writes_perm`) — so renaming the files (any permutation of the load order) or splitting a
class's declarations over several files cannot change any lookup, provided no key is written
twice and no definition-time lookup finds an earlier declaration. The two ways the real loader
leaves that regime are stated as the hypothesis `hk` and recorded as known findings: overloads
(the same method declared twice: the first becomes the primary signature) and a method that an
already-loaded ancestor or the Builtin frame also declares (it is attached there as an overload).
The per-declaration parsing is C21's model.
`loader_reads_reviewed` pins down (regenerated from the source each run) which global state the
loader READS while loading: only `ClassInheritanceMap[node]` (duplicate-edge check) and
`TSignatureDocument[key]` (keep a non-empty document) — both reads of the key being written, never
of what OTHER files wrote; a new read (for example of `BuiltinClasses`, which grows file by file)
breaks this obligation.
-/
namespace RubyTi.C19
open RubyTi RubyTi.Frame

def applyWrites {κ ν} [DecidableEq κ] (t : Table κ ν) (ws : List (κ × ν)) : Table κ ν :=
  ws.foldl (fun acc w => insert acc w.1 w.2) t

theorem lookup_applyWrites_notin {κ ν} [DecidableEq κ] (t : Table κ ν) (ws : List (κ × ν)) (q : κ)
    (h : q ∉ ws.map (·.1)) : lookup (applyWrites t ws) q = lookup t q := by
  induction ws generalizing t with
  | nil => rfl
  | cons w rest ih =>
    simp only [applyWrites, List.foldl_cons]
    simp at h
    have := ih (insert t w.1 w.2) (by simpa using h.2)
    simp only [applyWrites] at this
    rw [this, lookup_insert_other _ _ _ _ (fun e => h.1 e.symm)]

theorem lookup_applyWrites_in {κ ν} [DecidableEq κ] (t : Table κ ν) (ws : List (κ × ν))
    (hk : (ws.map (·.1)).Nodup) (w : κ × ν) (hw : w ∈ ws) : lookup (applyWrites t ws) w.1 = some w.2 := by
  induction ws generalizing t with
  | nil => cases hw
  | cons x rest ih =>
    simp only [applyWrites, List.foldl_cons]
    simp only [List.map_cons, List.nodup_cons] at hk
    simp at hw
    rcases hw with rfl | hw
    · have := lookup_applyWrites_notin (insert t w.1 w.2) rest w.1 hk.1
      simp only [applyWrites] at this
      rw [this, lookup_insert_self]
    · have := ih (insert t x.1 x.2) hk.2 hw
      simpa [applyWrites] using this

/-- **Load order is irrelevant for writes to distinct keys**: any permutation of the writes gives
a map with the same answer to every lookup. -/
theorem writes_perm {κ ν} [DecidableEq κ] (t : Table κ ν) (w₁ w₂ : List (κ × ν)) (hp : w₁.Perm w₂)
    (hk : (w₁.map (·.1)).Nodup) (q : κ) :
    lookup (applyWrites t w₁) q = lookup (applyWrites t w₂) q := by
  have hk₂ : (w₂.map (·.1)).Nodup := (hp.map (·.1)).nodup_iff.mp hk
  by_cases hq : q ∈ w₁.map (·.1)
  · obtain ⟨w, hw, rfl⟩ := List.mem_map.mp hq
    rw [lookup_applyWrites_in t w₁ hk w hw, lookup_applyWrites_in t w₂ hk₂ w (hp.subset hw)]
  · have hq₂ : q ∉ w₂.map (·.1) := fun h => hq ((hp.map (·.1)).symm.subset h)
    rw [lookup_applyWrites_notin t w₁ q hq, lookup_applyWrites_notin t w₂ q hq₂]

/-- splitting: loading `a ++ b` is loading `a` then `b` (files are just a partition of the writes) -/
theorem split_is_sequence {κ ν} [DecidableEq κ] (t : Table κ ν) (a b : List (κ × ν)) :
    applyWrites t (a ++ b) = applyWrites (applyWrites t a) b := by
  simp [applyWrites, List.foldl_append]

/-- the refuted full statement: with the SAME key written twice the order is observable
(the loader keeps the first declaration as the primary signature) -/
theorem same_key_order_matters :
    ∃ (w₁ w₂ : List (Nat × Nat)), w₁.Perm w₂ ∧ lookup (applyWrites [] w₁) 0 ≠ lookup (applyWrites [] w₂) 0 :=
  ⟨[(0, 1), (0, 2)], [(0, 2), (0, 1)], List.Perm.swap _ _ _, by decide⟩

/-- non-vacuity -/
example : (([(1, 10), (2, 20), (3, 30)] : List (Nat × Nat)).map (·.1)).Nodup := by decide

/-- the loader's reads of global state, as extracted from builtin/json_loader.go now, are the reviewed ones -/
theorem loader_reads_reviewed :
    Gen.loaderReads = [("ClassInheritanceMap", 1), ("TSignatureDocument", 2)] := by decide

end RubyTi.C19

import RubyTi.Proofs.MatchLemmas
import RubyTi.Proofs.BindLemmas

/-!
# C07 / C08 — the per-argument decision (checkArgType) against the statements' reference notions

For every declared parameter type `d` and argument type `a` (any tags, classes, variant lists):
* `fits_accepted` (C08): if every possible value of `a` is admitted by `d` — a union argument
  whose variants are all accepted counts as fitting — then checkArgType reports nothing;
* `rejected_reported` (C07): if every possible value of `a` is rejected by `d`, the argument is
  not a block / untyped / unknown and `d` is not untyped, then checkArgType reports a mismatch.
Both were false before the `fix:` commits on IsMatchUnionType / IsMatchType (witnesses in
known_findings.jsonl F35/F36: `Integer|String` against `Int|String|Symbol`; `Foo` against `GPIO|String`;
`Union<Foo String>` against `Union<Bar String>`).
`fitting_call_accepted`: on the model of the binding loop (`Model/Bind.lean`, tied by the `bind`
stream), for every positional signature and every list of positional arguments: if the count is
accepted (no argument is left over, every parameter without an argument has a default) and every
possible value of every argument is admitted by the parameter at its position, the call is accepted.
Rest and keyword parameters, overload fallback and receiver lookup are checked by the `bind`, `prio`
and `lookup` streams and end-to-end.
-/
namespace RubyTi.C08
open RubyTi RubyTi.Match Gen.Tok

/-- **C08, per argument**: an argument all of whose possible values are admitted is not reported -/
theorem fits_accepted (d a : T) (hne : possible a ≠ [])
    (h : ∀ v ∈ possible a, admits d v = true) : checkArg d a = true := by
  unfold checkArg
  split
  · rfl
  · split
    · rfl
    · rename_i hany
      simp only [Bool.or_eq_true, beq_iff_eq, not_or] at hany
      split
      · rfl
      · rename_i hmt
        split
        · -- the parameter is a union
          rename_i hdu
          unfold isMatchUnionType
          split
          · rename_i hau
            simp only [possible, hau, ite_true] at h
            simp only [admits, hdu, ite_true] at h
            exact List.all_eq_true.mpr h
          · rename_i hau
            simp only [possible, hau] at h
            have := h a (by simp)
            simpa [admits, hdu] using this
        · rename_i hdu
          split
          · -- a union argument against a plain parameter: some variant is accepted
            rename_i hau
            simp only [possible, hau, ite_true] at h hne
            cases hv : a.variants with
            | nil => exact absurd hv hne
            | cons v rest =>
              have hv1 := h v (by simp [hv])
              have hv2 : acceptVariant d v = true := by simpa [admits, hdu] using hv1
              have hdu2 : (d.tag == UNION) = false := by simpa using hdu
              unfold isMatchUnionType
              rw [hv]
              have hv3 : acceptVariant v d = true := by rw [acceptVariant_symm]; exact hv2
              simp [hdu2, hv3]
          · -- neither is a union: the single value is admitted, so the types match
            rename_i hau
            simp only [possible, hau] at h
            have h0 := h a (by simp)
            have hdu2 : (d.tag == UNION) = false := by simpa using hdu
            have h1 : acceptVariant d a = true := by simpa [admits, hdu2] using h0
            rw [acceptVariant_typed d a hany.1.1 hany.1.2] at h1
            have hdu' : isUnion d = false := by simpa [isUnion] using hdu
            simp only [isMatchType, hdu', Bool.false_and] at hmt
            by_cases ho : d.tag = OBJECT ∧ a.tag = OBJECT
            · simp [ho.1, ho.2] at h1 hmt
              exact absurd h1 hmt
            · have ho' : (d.tag == OBJECT && a.tag == OBJECT) = false := by
                simpa [Bool.and_eq_false_iff, not_and] using ho
              simp [ho'] at h1 hmt
              exact absurd h1 hmt

/-- non-vacuity: `Integer|String` against `Int|String|Symbol` (the witness that used to be rejected) -/
example : checkArg (T.makeUnion [T.makeAnyInt, T.makeAnyString, T.makeAnySymbol]) (T.makeUnion [T.makeAnyInt, T.makeAnyString]) = true := by decide

/-! ## counts and binding (positional signatures) -/
section
open RubyTi.Bind

/-- the statement's "certainly fits" for a positional signature -/
def CertainlyFits : List T → List Param → Prop
  | [], ps => ∀ p ∈ ps, p.t.fl.hasDefault = true
  | _ :: _, [] => False
  | a :: as, p :: ps => possible a ≠ [] ∧ (∀ v ∈ possible a, admits p.t v = true) ∧ CertainlyFits as ps

theorem certainlyFits_fitsB (as : List T) (ps : List Param) (h : CertainlyFits as ps) : fitsB as ps = true := by
  induction as generalizing ps with
  | nil =>
    simp only [fitsB]
    exact List.all_eq_true.mpr (fun p hp => h p hp)
  | cons a rest ih =>
    cases ps with
    | nil => exact absurd h (by simp [CertainlyFits])
    | cons p ps' =>
      simp only [CertainlyFits] at h
      simp only [fitsB, Bool.and_eq_true]
      exact ⟨fits_accepted p.t a h.1 h.2.1, ih ps' h.2.2⟩

/-- **a call that certainly fits a positional signature is accepted** -/
theorem fitting_call_accepted (ps : List Param) (hps : posOnly ps) (as : List T) (h : CertainlyFits as ps) :
    bind ps (as.map Arg.pos) = .ok :=
  (bind_pos_ok_iff ps hps as).mpr (certainlyFits_fitsB as ps h)

/-- non-vacuity: `m(Int|String|Symbol, Int = default)` with an `Integer|String` argument -/
example :
    let ps : List Param := [{ kind := .pos, t := T.makeUnion [T.makeAnyInt, T.makeAnyString, T.makeAnySymbol] },
                            { kind := .pos, t := T.makeBuiltinDefaultInt }]
    bind ps ([T.makeUnion [T.makeAnyInt, T.makeAnyString]].map Arg.pos) = .ok := by decide
end

section
open RubyTi.Bind

theorem tryOverloads_accepted (args : List Arg) (os : List (List Param)) (last : Res)
    (h : ∃ o ∈ os, RubyTi.Bind.bind o args = .ok) : tryOverloads args os last = .ok := by
  induction os generalizing last with
  | nil => simp at h
  | cons o rest ih =>
    simp only [tryOverloads]
    by_cases ho : RubyTi.Bind.bind o args = .ok
    · simp [ho]
    · have : (RubyTi.Bind.bind o args == Res.ok) = false := by simpa using ho
      simp only [this]
      obtain ⟨x, hx, hxo⟩ := h
      rcases List.mem_cons.mp hx with e | e
      · subst e; exact absurd hxo ho
      · exact ih _ ⟨x, e, hxo⟩

theorem bindClass_accepted (decls : List (List Param)) (args : List Arg)
    (h : ∃ d ∈ decls, RubyTi.Bind.bind d args = .ok) : bindClass decls args = .ok := by
  cases decls with
  | nil => simp at h
  | cons d os =>
    simp only [bindClass]
    by_cases hd : RubyTi.Bind.bind d args = .ok
    · simp [hd]
    · have : (RubyTi.Bind.bind d args == Res.ok) = false := by simpa using hd
      simp only [this]
      obtain ⟨x, hx, hxo⟩ := h
      rcases List.mem_cons.mp hx with e | e
      · subst e; exact absurd hxo hd
      · exact tryOverloads_accepted args os _ ⟨x, e, hxo⟩

/-- **No false alarm on a union receiver**: when every class of the receiver has a declaration (the first one or
an overload) that accepts the arguments, the call is accepted — for any number of classes and overloads. -/
theorem union_fitting_call_accepted (classes : List (List (List Param))) (args : List Arg)
    (h : ∀ c ∈ classes, ∃ d ∈ c, RubyTi.Bind.bind d args = .ok) : bindUnion classes args = .ok := by
  induction classes with
  | nil => rfl
  | cons k rest ih =>
    have hk : bindClass k args = .ok := bindClass_accepted k args (h k (by simp))
    simp only [bindUnion, hk]
    simpa using ih (fun c hc => h c (by simp [hc]))

end

end RubyTi.C08

import RubyTi.Model.Narrow
import RubyTi.Gen.NarrowFacts
import RubyTi.Props.C19

/-!
# C10 — nil?/is_a? narrowing is exact inside branches and undone afterwards (narrowing core)

On the model of `setConditionalCtx` / `narrowing` / the restore closures (`Model/Narrow.lean`, tied
to the Go code by the `narrow` correspondence stream through a verif hook), for every store, every
variable `x` with any current type `u` and every tested class `C`:
* `positive_branch`: in the branch a test admits (`if x.is_a?(C)`, `if x.nil?`, `unless !x.…`) `x` is
  the unified type of the tested class;
* `negative_branch`: in the branch that excludes it (`if !x.nil?`, `unless x.is_a?(C)`) `x` is the
  unified type of exactly the variants of `u` whose class is not `C`, in their order;
* `else_after_positive`: the `else` branch of a positive test has exactly the variants of `u`
  whose class is not `C`;
* `other_variable_untouched`: no other variable changes;
* `restore_spec` / `restore_other`: after the conditional every tested variable has the value it
  had before it and nothing else changed.
`state_isolation_facts` (regenerated from eval/ifunless.go each run): `Evaluation` saves the
three state maps and restores them on exit (so a conditional nested in a branch cannot disturb the
enclosing one) and defers the restore closures of `elsif` conditions — both added by `fix:` commits.
Known findings: the negative branch of an `&&` chain narrows every chained variable (K30) and an
`elsif` with a negated test ignores what earlier branches took (K29).
-/
namespace RubyTi.C10
open RubyTi RubyTi.Frame RubyTi.Narrow RubyTi.Unify Gen.Tok

def fresh (isIf : Bool) : St := { isIf := isIf }

theorem positive_branch (vars : Vars) (x C : Str) (u : T) (hx : lookup vars x = some u) (skip : Bool) :
    lookup (cond (fresh true) vars C x false skip).2 x = some (U40 [Config.convertToBuiltinT C]) ∧
    lookup (cond (fresh false) vars C x true skip).2 x = some (U40 [Config.convertToBuiltinT C]) := by
  constructor <;>
  · simp only [Narrow.cond, hx, fresh]
    simp [Narrow.get, Frame.lookup, Frame.insert, lookup_insert_self]

theorem negative_branch (vars : Vars) (x C : Str) (u : T) (hx : lookup vars x = some u) :
    lookup (cond (fresh true) vars C x true false).2 x = some (U40 (minusByClass u [Config.convertToBuiltinT C])) ∧
    lookup (cond (fresh false) vars C x false false).2 x = some (U40 (minusByClass u [Config.convertToBuiltinT C])) := by
  constructor <;>
  · simp only [Narrow.cond, hx, fresh]
    simp [Narrow.get, Frame.lookup, Frame.insert, lookup_insert_self]

theorem other_variable_untouched (st : St) (vars : Vars) (x y C : Str) (ex sk : Bool) (h : x ≠ y) :
    lookup (cond st vars C x ex sk).2 y = lookup vars y := by
  simp only [Narrow.cond]
  repeat' split
  all_goals first | rfl | exact lookup_insert_other _ _ _ _ h

/-- the `else` branch after `if x.is_a?(C)` / `if x.nil?` on a union `u` -/
theorem else_after_positive (vars : Vars) (x C : Str) (u : T) (hx : lookup vars x = some u) (hu : u.tag = UNION) :
    let r := cond (fresh true) vars C x false false
    lookup (elseStep r.1 r.2) x =
      some (U40 (u.variants.filter fun v => !([Config.convertToBuiltinT C].any fun n => v.objectClass == n.objectClass))) := by
  simp only [Narrow.cond, hx, fresh]
  simp [Narrow.get, Frame.lookup, Frame.insert, elseStep, elseVariants, hu, lookup_insert_self]

theorem restore_spec (before vars : Vars) (x : Str) (t : T) (hb : lookup before x = some t) :
    lookup (restore before [x] vars) x = some t := by
  simp [restore, hb, lookup_insert_self]

theorem restore_other (before vars : Vars) (x y : Str) (h : x ≠ y) :
    lookup (restore before [x] vars) y = lookup vars y := by
  simp only [restore, List.foldl_cons, List.foldl_nil]
  split
  · exact lookup_insert_other _ _ _ _ h
  · rfl

/-- what `IfUnless.Evaluation` does around the core, as extracted from the source now: the three state maps are
saved and each gets its own copy back, the restore closures of an `elsif` are deferred, and the restore
closures of the condition run last-in first-out -/
theorem state_isolation_facts :
    Gen.ifUnlessSavesState = true ∧ Gen.elsifDefersRestores = true ∧ Gen.conditionRestoresLIFO = true := by decide

/-! ### Why the restore closures must run last-in first-out

Every narrowing step of a condition (`!x.nil? && !x.is_a?(Integer)` has two for `x`) pushes a closure that
writes back the value the variable had *before that step*. `saves` lists them in step order. -/

theorem lookup_applyWrites_find {κ ν} [DecidableEq κ] (t : Table κ ν) (ws : List (κ × ν)) (k : κ) :
    lookup (C19.applyWrites t ws) k =
      match ws.reverse.find? (fun w => w.1 == k) with
      | some w => some w.2
      | none => lookup t k := by
  induction ws generalizing t with
  | nil => simp [C19.applyWrites]
  | cons w rest ih =>
    have h := ih (Frame.insert t w.1 w.2)
    simp only [C19.applyWrites, List.foldl_cons] at h ⊢
    rw [h, List.reverse_cons, List.find?_append]
    cases hf : rest.reverse.find? (fun w => w.1 == k) with
    | some x => simp
    | none =>
      by_cases hk : w.1 = k
      · subst hk; simp [lookup_insert_self]
      · simp [hk, lookup_insert_other _ _ _ _ hk]

/-- **Last-in first-out restores the pre-conditional value**: running the restore closures in reverse step
order leaves every narrowed variable with the value saved by its FIRST step — the value it had before the
conditional — however many steps narrowed it. -/
theorem restore_lifo_original {κ ν} [DecidableEq κ] (t : Table κ ν) (saves : List (κ × ν)) (k : κ) (v : ν)
    (hfirst : saves.find? (fun w => w.1 == k) = some (k, v)) :
    lookup (C19.applyWrites t saves.reverse) k = some v := by
  rw [lookup_applyWrites_find, List.reverse_reverse, hfirst]

/-- a variable no step narrowed is not touched by the restores -/
theorem restore_lifo_other {κ ν} [DecidableEq κ] (t : Table κ ν) (saves : List (κ × ν)) (k : κ)
    (h : saves.find? (fun w => w.1 == k) = none) :
    lookup (C19.applyWrites t saves.reverse) k = lookup t k := by
  rw [lookup_applyWrites_find, List.reverse_reverse, h]

/-- first-in first-out would leave the value saved by the LAST step (witness: `x` narrowed twice, original 10,
intermediate 20: LIFO gives 10 back, FIFO 20) -/
example :
    lookup (C19.applyWrites ([(1, 30)] : Table Nat Nat) [(1, 10), (1, 20)].reverse) 1 = some 10 ∧
    lookup (C19.applyWrites ([(1, 30)] : Table Nat Nat) [(1, 10), (1, 20)]) 1 = some 20 := by decide

/-- non-vacuity: `x : Integer|String|NilClass`, `if x.nil?` … `else` -/
example :
    let u := T.makeUnion [T.makeAnyInt, T.makeAnyString, T.makeNil]
    let vars : Vars := [("x".toList, u)]
    let r := cond (fresh true) vars "NilClass".toList "x".toList false false
    ((lookup r.2 "x".toList).map T.tag = some NIL) ∧
    ((lookup (elseStep r.1 r.2) "x".toList).map (fun t => t.variants.map T.tag) = some [INT, STRING]) := by decide

end RubyTi.C10

import RubyTi.Proofs.ConfigLemmas

/-!
# C21 — equivalent type notations in `.ti-config` mean the same thing

Every equivalence is stated as *equality of the parsed value* (`T`, or the parsed argument), for
every plain type name (`plain`: non-empty, none of `| [ ] ? * :` and no white space) — so every
diagnostic, inferred type and rendered signature that is computed from the parsed value coincides.
`ConvertToBuiltinT`'s table and the builtin variable block are regenerated from the source;
`parseTypeString` is defined by well-founded recursion on the length of the string (its
termination proof is part of the model).
-/
namespace RubyTi.C21
open RubyTi RubyTi.Config

/-- `"A|B|…"` ≡ `["A","B",…]` (any number ≥ 2 of plain names), as a type string. -/
theorem union_string (parts : List Str) (hp : ∀ p ∈ parts, plain p = true) (h2 : parts.length ≥ 2) :
    parseTypeString (joinBar parts) = T.makeUnion (parts.map parseTypeString) := by
  match parts, h2 with
  | a :: b :: rest, _ =>
    obtain ⟨c, tl, hj, hc⟩ := joinBar_head a (b :: rest) (hp a (by simp))
    have hbar : '|' ∈ joinBar (a :: b :: rest) := joinBar_mem_bar a b rest
    have hsplit := splitOnChar_joinBar (a :: b :: rest) hp (by simp)
    rw [hj] at hbar hsplit ⊢
    rw [parseTypeString_bar c tl hc hbar, hsplit, map_trim_plain _ hp]

/-- … as a return type … -/
theorem union_return (parts : List Str) (hp : ∀ p ∈ parts, plain p = true) (h2 : parts.length ≥ 2)
    (c d o : Bool) :
    parseReturnType { type := .single (joinBar parts), isConditional := c, isDestructive := d, isCaptureOwner := o } =
    parseReturnType { type := .many parts, isConditional := c, isDestructive := d, isCaptureOwner := o } := by
  match parts, h2 with
  | a :: b :: rest, h2 =>
    simp only [parseReturnType, TypeSpecJ.toList]
    rw [union_string (a :: b :: rest) hp h2]

/-- … and as an argument type (any key / asterisk / default flags). -/
theorem union_argument (parts : List Str) (hp : ∀ p ∈ parts, plain p = true) (h2 : parts.length ≥ 2)
    (key : Str) (ast dflt : Bool) :
    parseArgument { type := .single (joinBar parts), key := key, isAsterisk := ast, isDefault := dflt } =
    parseArgument { type := .many parts, key := key, isAsterisk := ast, isDefault := dflt } := by
  match parts, h2 with
  | a :: b :: rest, h2 =>
    obtain ⟨c, tl, hj, hc⟩ := joinBar_head a (b :: rest) (hp a (by simp))
    have hu := union_string (a :: b :: rest) hp h2
    have hns : isNameSpace (joinBar (a :: b :: rest)) = false :=
      isNameSpace_noColon _ (joinBar_no_colon _ hp)
    have hc' := hc
    simp [plainC] at hc'
    rw [hj] at hu hns ⊢
    simp only [parseArgument]
    rw [parseArgBase_single c tl (plainC_ne hc).1 (plainC_ne hc).2 hns, parseArgBase_many _ h2, hu]

/-- a plain name is looked up in the table directly -/
theorem plain_is_lookup (t : Str) (ht : plain t = true) : parseTypeString t = convertToBuiltinT t :=
  parseTypeString_plain ht

/-- `"?T"` as a return type ≡ `[T, "NilClass"]` -/
theorem optional_return (t : Str) (ht : plain t = true) (c d o : Bool) :
    parseReturnType { type := .single ('?' :: t), isConditional := c, isDestructive := d, isCaptureOwner := o } =
    parseReturnType { type := .many [t, "NilClass".toList], isConditional := c, isDestructive := d, isCaptureOwner := o } := by
  have hne : t ≠ [] := by intro e; subst e; simp [plain] at ht
  have h1 : parseTypeString ('?' :: t) = T.makeUnion [parseTypeString t, NilT] := by
    rw [parseTypeString]; simp [hne]
  have h2 : parseTypeString "NilClass".toList = NilT := by
    rw [parseTypeString_plain (by decide)]; rfl
  simp only [parseReturnType, TypeSpecJ.toList, List.map, h1, h2]

/-- `"?T"` as an argument ≡ `T` with `is_default` -/
theorem optional_argument (t : Str) (ht : plain t = true) (key : Str) (ast dflt : Bool) :
    parseArgument { type := .single ('?' :: t), key := key, isAsterisk := ast, isDefault := dflt } =
    parseArgument { type := .single t, key := key, isAsterisk := ast, isDefault := true } := by
  have hnb : containsC '|' ('?' :: t) = false := by
    simp [containsC]; exact fun h => plain_no_bar ht h
  have hnk : containsC '[' ('?' :: t) = false := by
    simp [containsC]; intro hm
    simp [plain, List.all_eq_true] at ht
    have := ht.2 _ hm; simp [plainC] at this
  cases t with
  | nil => simp [plain] at ht
  | cons c tl =>
    have hc : plainC c = true := by simp [plain, List.all_eq_true] at ht; exact ht.1
    have hc' := hc
    simp [plainC] at hc'
    have hns := isNameSpace_noColon _ (plain_no_colon ht)
    simp only [parseArgument]
    rw [parseArgBase_single c tl (plainC_ne hc).1 (plainC_ne hc).2 hns]
    simp [parseArgBase, TypeSpecJ.toList, hnb, hnk]
    cases parseTypeString (c :: tl) with
    | mk a b c d e g h i fl j k l => simp [T.setFl, argFlags]

/-- `"*T"` ≡ `T` with `is_asterisk` -/
theorem asterisk_argument (t : Str) (ht : plain t = true) (key : Str) (ast dflt : Bool) :
    parseArgument { type := .single ('*' :: t), key := key, isAsterisk := ast, isDefault := dflt } =
    parseArgument { type := .single t, key := key, isAsterisk := true, isDefault := dflt } := by
  have hnb : containsC '|' ('*' :: t) = false := by
    simp [containsC]; exact fun h => plain_no_bar ht h
  have hnk : containsC '[' ('*' :: t) = false := by
    simp [containsC]; intro hm
    simp [plain, List.all_eq_true] at ht
    have := ht.2 _ hm; simp [plainC] at this
  cases t with
  | nil => simp [plain] at ht
  | cons c tl =>
    have hc : plainC c = true := by simp [plain, List.all_eq_true] at ht; exact ht.1
    have hc' := hc
    simp [plainC] at hc'
    have hns := isNameSpace_noColon _ (plain_no_colon ht)
    simp only [parseArgument]
    rw [parseArgBase_single c tl (plainC_ne hc).1 (plainC_ne hc).2 hns]
    simp [parseArgBase, TypeSpecJ.toList, hnb, hnk]

/-- `"[T]"` ≡ an array whose element type is `T` -/
theorem array_notation (t : Str) (ht : plain t = true) :
    parseTypeString ('[' :: (t ++ [']'])) = T.makeArray [parseTypeString t] := by
  have hne : t ≠ [] := by intro e; subst e; simp [plain] at ht
  have hl : (t ++ [']']).length ≥ 2 := by
    cases t with
    | nil => exact absurd rfl hne
    | cons a r => simp
  rw [parseTypeString.eq_def]
  simp [hl]
  intro e; exact absurd e hne

/-- … in particular `"[String]"`, `"[Int]"`, `"[Float]"` are `StringArray`, `IntArray`, `FloatArray` -/
theorem array_aliases :
    parseTypeString ('[' :: ("String".toList ++ [']'])) = convertToBuiltinT "StringArray".toList ∧
    parseTypeString ('[' :: ("Int".toList ++ [']'])) = convertToBuiltinT "IntArray".toList ∧
    parseTypeString ('[' :: ("Float".toList ++ [']'])) = convertToBuiltinT "FloatArray".toList := by
  refine ⟨?_, ?_, ?_⟩ <;>
    (rw [array_notation _ (by decide), parseTypeString_plain (by decide)]; rfl)

/-- `"Int"` ≡ `"Integer"` -/
theorem int_integer : convertToBuiltinT "Int".toList = convertToBuiltinT "Integer".toList := by rfl

/-- `OptionalX` ≡ `[X, "NilClass"]` (≡ `"?X"` as a return type by `optional_return`) -/
theorem optional_aliases :
    ∀ x ∈ ["String".toList, "Int".toList, "Float".toList],
      convertToBuiltinT ("Optional".toList ++ x) = T.makeUnion [convertToBuiltinT x, NilT] := by
  intro x hx
  simp at hx
  rcases hx with rfl | rfl | rfl <;> rfl

/-- `DefaultX` as an argument ≡ `X` with `is_default` -/
theorem default_aliases (key : Str) (ast dflt : Bool) :
    ∀ x ∈ ["String".toList, "Int".toList, "Float".toList, "Bool".toList, "Block".toList, "Untyped".toList],
      parseArgument { type := .single ("Default".toList ++ x), key := key, isAsterisk := ast, isDefault := dflt } =
      parseArgument { type := .single x, key := key, isAsterisk := ast, isDefault := true } := by
  intro x hx
  simp at hx
  rcases hx with rfl | rfl | rfl | rfl | rfl | rfl <;>
    (simp only [parseArgument]
     rw [parseArgBase_single' _ (by decide) (by decide) (by decide) (by decide),
         parseArgBase_single' _ (by decide) (by decide) (by decide) (by decide)]
     rw [parseTypeString_plain (by decide), parseTypeString_plain (by decide)]
     cases dflt <;> rfl)

/-- non-vacuity: `plain` is satisfied by ordinary class names -/
example : plain "String".toList = true ∧ plain "MyClass".toList = true ∧ plain "A|B".toList = false := by decide

end RubyTi.C21

import RubyTi.Proofs.LexerLemmas
import RubyTi.Proofs.TokenLemmas
import RubyTi.Props.C04

/-!
# C06 — layout changes only shift reported rows (lexer / row-counter half)

Proved on the lexer and token-layer models, for all inputs:
* `comment_line_is_blank`: a comment-only line (`#…` up to the line break) produces exactly the
  token a blank line produces — the newline token — and leaves the same pending input, so
  inserting comment lines and inserting blank lines are the same edit for everything downstream;
* `newline_token_rows`: a newline token adds exactly one to `Row` and leaves `ErrorRow`;
* `string_token_rows`: a string literal adds exactly the number of line breaks it contains to
  `Row` (after the `fix:` commit: once, when the token is lexed — also when it is consumed by
  `Skip`, and never again when it is re-delivered after `Unget`);
* `unget_no_rows`: re-delivering a token changes neither `Row` nor `ErrorRow`;
* `rows_monotone` (C04).
Whether the *evaluators* treat the extra newline token at a statement boundary as neutral is
not carried by a model; it is checked end-to-end (blank/comment line at every statement
boundary, widened string literals, trailing newline), see the evidence file.
-/
namespace RubyTi.C06
open RubyTi RubyTi.Lexer RubyTi.Token

theorem dropWhile_append_stop {α} (p : α → Bool) (c : List α) (x : α) (rest : List α)
    (hc : ∀ a ∈ c, p a = true) (hx : p x = false) : (c ++ x :: rest).dropWhile p = x :: rest := by
  induction c with
  | nil => simp [List.dropWhile, hx]
  | cons a t ih =>
    simp only [List.cons_append, List.dropWhile, hc a (by simp)]
    exact ih (fun b hb => hc b (by simp [hb]))

/-- A comment-only line lexes exactly like a blank line. -/
theorem comment_line_is_blank (st : LState) (c rest : List Rune)
    (hc : ∀ a ∈ c, a ≠ 10 ∧ a ≠ 0) :
    advance { st with pending := 35 :: (c ++ 10 :: rest) } = advance { st with pending := 10 :: rest } := by
  have hskip : skipComment (c ++ 10 :: rest) = 10 :: rest := by
    unfold skipComment
    apply dropWhile_append_stop
    · intro a ha; have := hc a ha; simp [NL, this.1, this.2]
    · simp [NL]
  have hss : skipSpace (35 :: (c ++ 10 :: rest)) = (false, 35 :: (c ++ 10 :: rest)) := by
    have h35 : isSpace 35 = false := by decide
    simp [skipSpace, List.dropWhile, h35]
  rw [advance]
  split
  · rename_i hp; rw [hss] at hp; cases hp
  · rename_i c0 cs0 hp
    rw [hss] at hp
    simp at hp
    obtain ⟨rfl, rfl⟩ := hp
    simp [singleCharToks, quoteChars]
    rw [hskip, hss]
    simp

/-- a newline token adds exactly one to Row and does not move ErrorRow -/
theorem newline_token_rows {p p' : PState} (hf : p.ungetFlg = false) (h : getToken p = some p')
    (hadv : (advance p.lx).1 = true) (htok : (advance p.lx).2.tok = 10) :
    p'.row = p.row + 1 ∧ p'.errorRow = p.errorRow := by
  unfold getToken at h
  simp only [hf] at h
  cases hres : advance p.lx with
  | mk ok lx' =>
    rw [hres] at hadv htok h
    simp at hadv htok
    subst hadv
    simp only [Bool.false_eq_true, ite_false] at h
    cases h
    have hne : (10 : Int) ≠ TOK_STRING := by decide
    simp [htok]
    split <;> simp_all

/-- a string literal adds exactly the number of line breaks it contains to Row, and ErrorRow is
the row the literal starts on -/
theorem string_token_rows {p p' : PState} (hf : p.ungetFlg = false) (h : getToken p = some p') (s : List Rune)
    (hadv : (advance p.lx).1 = true) (htok : (advance p.lx).2.tok = TOK_STRING) (hval : (advance p.lx).2.val = .str s) :
    p'.row = p.row + s.count 10 ∧ p'.errorRow = p.row := by
  unfold getToken at h
  simp only [hf] at h
  cases hres : advance p.lx with
  | mk ok lx' =>
    rw [hres] at hadv htok hval h
    simp at hadv htok hval
    subst hadv
    simp only [Bool.false_eq_true, ite_false] at h
    cases h
    have hne : TOK_STRING ≠ (10 : Int) := by decide
    simp [htok, hval, hne]

/-- re-delivering a token after Unget moves no row -/
theorem unget_no_rows {p p' : PState} (hf : p.ungetFlg = true) (h : getToken p = some p') :
    p'.row = p.row ∧ p'.errorRow = p.errorRow := by
  unfold getToken at h
  simp only [hf, ite_true] at h
  split at h
  · unfold countEOS at h; split at h <;> cases h; simp
  · cases h; simp

theorem rows_monotone {p p' : PState} (h : getToken p = some p') (hinv : p.errorRow ≤ p.row) :
    p.row ≤ p'.row ∧ p'.errorRow ≤ p'.row ∧ (p'.errorRow = p.errorRow ∨ p'.errorRow = p.row) :=
  C04.rows_monotone h hinv

/-- non-vacuity of `comment_line_is_blank`'s hypotheses -/
example : ∀ a ∈ [123, 32, 110, 111, 116, 101], a ≠ 10 ∧ a ≠ 0 := by decide

end RubyTi.C06

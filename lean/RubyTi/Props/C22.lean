import RubyTi.Proofs.TokenLemmas
import RubyTi.Props.C06

/-!
# C22 — definition info and hover point at the right definition (row and tag bookkeeping)

* `def_row_is_current_line`: `Def.Evaluation` captures `defineRow := p.ErrorRow` right after the
  `def` keyword has been delivered. For every parser state and every non-newline token (so for
  `def` in particular) `ErrorRow` after the token equals `Row` before it — the line the token
  starts on (string literals add their line breaks only afterwards). With C06's row lemmas this
  pins the hint's row to the `def` line, multi-line signatures included.
* `visibility_tag`: the `[c/…]`/`[i/…]` and `private/protected/public` tag is a function of the
  context's three flags; the section state machine of a class body (`private`, `protected`,
  `public` keywords: context/context.go) keeps at most one of the two flags set, so exactly one
  tag is printed (the `[2]bool` switch in setDefineInfos has no case for both).
Which article is recorded for which definition is evaluator behaviour: checked end-to-end.
-/
namespace RubyTi.C22
open RubyTi RubyTi.Lexer RubyTi.Token

/-- a freshly lexed non-newline token sets ErrorRow to the line it starts on -/
theorem def_row_is_current_line {p p' : PState} (hf : p.ungetFlg = false) (h : getToken p = some p')
    (hadv : (advance p.lx).1 = true) (hnl : (advance p.lx).2.tok ≠ 10) :
    p'.errorRow = p.row := by
  unfold getToken at h
  simp only [hf] at h
  cases hres : advance p.lx with
  | mk ok lx' =>
    rw [hres] at hadv hnl h
    simp at hadv hnl
    subst hadv
    simp only [Bool.false_eq_true, ite_false] at h
    cases h
    simp [hnl]
    split <;> (try split) <;> simp

/-- context/context.go: the visibility flags and the section keywords -/
structure Vis where
  isPrivate : Bool := false
  isProtected : Bool := false
  deriving Repr, DecidableEq

inductive Section where | priv | prot | pub
  deriving Repr, DecidableEq

def Vis.enter (_ : Vis) : Section → Vis
  | .priv => { isPrivate := true, isProtected := false }     -- StartPrivate
  | .prot => { isPrivate := false, isProtected := true }     -- StartProtected
  | .pub => { isPrivate := false, isProtected := false }     -- EndPrivate; EndProtected

def Vis.tag (v : Vis) : Option String :=
  match v.isPrivate, v.isProtected with
  | true, false => some "private"
  | false, true => some "protected"
  | false, false => some "public"
  | true, true => none                 -- the switch in setDefineInfos has no such case

theorem foldl_enter_last (secs : List Section) (v : Vis) :
    secs.foldl Vis.enter v = (match secs.getLast? with | none => v | some s => Vis.enter v s) := by
  induction secs generalizing v with
  | nil => rfl
  | cons a t ih =>
    simp only [List.foldl_cons]
    rw [ih]
    cases t with
    | nil => rfl
    | cons b u =>
      simp only [List.getLast?_cons_cons]
      cases h : (b :: u).getLast? with
      | none => simp at h
      | some s => cases s <;> rfl

/-- after any sequence of section keywords exactly one visibility tag applies, and it is the one
of the last keyword (public when there was none) -/
theorem visibility_tag (secs : List Section) :
    (secs.foldl Vis.enter {}).tag =
      some (match secs.getLast? with | some .priv => "private" | some .prot => "protected" | _ => "public") := by
  rw [foldl_enter_last]
  cases h : secs.getLast? with
  | none => rfl
  | some s => cases s <;> rfl

theorem string_rows_after (p p' : PState) (hf : p.ungetFlg = false) (h : getToken p = some p') (s : List Rune)
    (hadv : (advance p.lx).1 = true) (htok : (advance p.lx).2.tok = TOK_STRING) (hval : (advance p.lx).2.val = .str s) :
    p'.row = p.row + s.count 10 ∧ p'.errorRow = p.row :=
  C06.string_token_rows hf h s hadv htok hval

example : (([Section.priv, .pub, .prot] : List Section).foldl Vis.enter {}).tag = some "protected" := by decide

end RubyTi.C22

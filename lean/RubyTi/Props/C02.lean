import RubyTi.Proofs.LexerLemmas
import RubyTi.Model.Token
import RubyTi.Props.C03
import RubyTi.Gen.Loops

/-!
# C02 — Analysis terminates on every finite input without the watchdog

What is proved here (the evaluator itself is not modelled):

* the lexer part is C03 (`C03.tokens_terminate`, every loop of lexer.go is a structural recursion);
* **token layer**: for *every* sequence of `Read / Unget / Skip / ReadAhead` calls a client
  (any evaluator loop) can issue, the number of token requests that succeed is bounded by
  `|pending input| + #ungets + 1000`: a request either consumes the unget flag, or strictly
  shrinks the pending input, or is counted against the end-of-input budget whose exhaustion
  unwinds the analysis (`ErrUnexpectedEOF`, recovered in main). So no client loop that asks for
  a token in each iteration — without handing one back each time — can spin forever;
* once the end of input has been reached every further request is charged to the budget.
-/
namespace RubyTi.C02
open RubyTi RubyTi.Lexer RubyTi.Token

/-- the operations the evaluators perform on the token layer -/
inductive Op where
  | read | readAhead | skip | unget
  deriving Repr, DecidableEq

def Op.isRequest : Op → Bool
  | .unget => false
  | _ => true

def Op.ungets : Op → Nat
  | .unget => 1
  | .readAhead => 1
  | _ => 0

/-- run one op; `none` = the analysis was unwound by ErrUnexpectedEOF -/
def step (bc : List (List Rune)) (p : PState) : Op → Option PState
  | .read => (Token.read bc p).map (·.2)
  | .readAhead => (readAhead bc p).map (·.2)
  | .skip => skip p
  | .unget => some (unget p)

def run (bc : List (List Rune)) : List Op → PState → Option PState
  | [], p => some p
  | o :: os, p => match step bc p o with
    | none => none
    | some p' => run bc os p'

/-- potential: pending input + outstanding unget + what is left of the end-of-input budget -/
def phi (p : PState) : Nat :=
  p.lx.pending.length + (if p.ungetFlg then 1 else 0) + (maxEOSReads - p.eosReads)

theorem countEOS_spec {p p' : PState} (h : countEOS p = some p') :
    p'.eosReads = p.eosReads + 1 ∧ p'.eosReads ≤ maxEOSReads ∧ p'.lx = p.lx ∧ p'.ungetFlg = p.ungetFlg ∧ p'.token = p.token := by
  unfold countEOS at h
  split at h
  · cases h
  · cases h; simp; omega

/-- **One token request strictly decreases the potential.** -/
theorem getToken_phi {p p' : PState} (h : getToken p = some p') (hb : p.eosReads ≤ maxEOSReads) :
    phi p' < phi p ∧ p'.eosReads ≤ maxEOSReads ∧ p'.ungetFlg = false := by
  unfold getToken at h
  split at h
  · rename_i hf
    simp only [] at h
    split at h
    · obtain ⟨h1, h2, h3, h4, _⟩ := countEOS_spec h
      simp [phi, h1, h3, h4, hf] at *
      omega
    · cases h
      simp [phi, hf]
      omega
  · rename_i hf
    split at h
    · rename_i lx' hadv
      have hlt := advance_lt p.lx (by rw [hadv])
      rw [hadv] at hlt
      cases h
      simp at hf
      simp only [phi, hf]
      refine ⟨?_, ?_, ?_⟩
      · split <;> split <;> simp_all <;> (try split) <;> simp_all <;> omega
      · split <;> split <;> simp_all <;> (try split) <;> simp_all
      · split <;> split <;> simp_all <;> (try split) <;> simp_all
    · rename_i lx' hadv
      have hle := advance_le p.lx
      rw [hadv] at hle
      obtain ⟨h1, h2, h3, h4, _⟩ := countEOS_spec h
      simp at hf
      simp [phi, h1, h3, h4, hf] at *
      omega

/-- a token request that comes back with EOS is charged to the budget -/
theorem getToken_eos_charged {p p' : PState} (h : getToken p = some p') (he : p'.token = EOS)
    (hnl : (10 : Int) ≠ EOS := by decide) : p'.eosReads = p.eosReads + 1 ∨ (p.ungetFlg = false ∧ (advance p.lx).1 = true) := by
  unfold getToken at h
  split at h
  · simp only [] at h
    split at h
    · left; exact (countEOS_spec h).1
    · cases h; simp_all
  · split at h
    · rename_i lx' hadv; right; simp_all
    · left; exact (countEOS_spec h).1

theorem read_phi {bc p o p'} (h : Token.read bc p = some (o, p')) (hb : p.eosReads ≤ maxEOSReads) :
    phi p' < phi p ∧ p'.eosReads ≤ maxEOSReads ∧ p'.ungetFlg = false := by
  unfold Token.read at h
  split at h
  · cases h
  · rename_i q hq
    have := getToken_phi hq hb
    simp only [] at h
    have key : ∀ (k : TK), (some (ReadOut.tok k q.lx.isSpace, ({ q with isSpacePrev := q.lx.isSpace, lx := { q.lx with isSpace := false } } : PState)) = some (o, p')) →
        phi p' < phi p ∧ p'.eosReads ≤ maxEOSReads ∧ p'.ungetFlg = false := by
      intro k hk; cases hk; simpa [phi] using this
    split at h
    all_goals (first | exact key _ h | (cases h; exact this) | skip)
    all_goals (split at h <;> first | exact key _ h | (cases h; exact this))

theorem step_phi {bc p o p'} (h : step bc p o = some p') (hb : p.eosReads ≤ maxEOSReads) :
    phi p' + (if o.isRequest then 1 else 0) ≤ phi p + o.ungets ∧ p'.eosReads ≤ maxEOSReads := by
  cases o with
  | read =>
    simp [step] at h
    obtain ⟨a, ha⟩ := h
    have := read_phi ha hb
    simp [Op.isRequest, Op.ungets]; omega
  | readAhead =>
    simp only [step, readAhead] at h
    cases hr : Token.read bc p with
    | none => simp [hr] at h
    | some v =>
      obtain ⟨o', q⟩ := v
      have := read_phi hr hb
      cases o' <;> simp [hr] at h <;> subst h <;>
        simp [Op.isRequest, Op.ungets, phi, unget] at * <;> omega
  | skip =>
    simp [step, skip] at h
    have := getToken_phi h hb
    simp [Op.isRequest, Op.ungets]; omega
  | unget =>
    simp [step] at h; cases h
    simp [Op.isRequest, Op.ungets, phi, unget]
    refine ⟨?_, hb⟩
    split <;> omega

/-- **EOS budget / request bound**: in every run that is not unwound, the number of token
requests is at most the initial potential plus the number of tokens handed back. -/
theorem requests_bounded (bc : List (List Rune)) (ops : List Op) (p p' : PState)
    (hb : p.eosReads ≤ maxEOSReads) (h : run bc ops p = some p') :
    (ops.filter Op.isRequest).length ≤ phi p + (ops.map Op.ungets).sum := by
  induction ops generalizing p with
  | nil => simp
  | cons o os ih =>
    simp only [run] at h
    split at h
    · cases h
    · rename_i q hq
      have hs := step_phi hq hb
      have := ih q hs.2 h
      simp only [List.filter_cons, List.map_cons, List.sum_cons]
      split <;> rename_i hr <;> simp [hr] at hs ⊢ <;> omega

/-- Corollary for a whole file: from the initial parser state, any client that never hands a
token back makes at most `|input| + 1000` successful token requests. -/
theorem requests_bounded_no_unget (bc : List (List Rune)) (input : List Rune) (ops : List Op) (p' : PState)
    (hno : (ops.map Op.ungets).sum = 0)
    (h : run bc ops { lx := { pending := input.filter (· != 0) } } = some p') :
    (ops.filter Op.isRequest).length ≤ input.length + maxEOSReads := by
  have := requests_bounded bc ops _ p' (by simp [maxEOSReads]) h
  have hl := List.length_filter_le (fun (x : Rune) => x != 0) input
  simp [phi, hno] at this
  omega

/-- the lexer half (every loop of lexer.go ends; the token loop reaches EOS) -/
theorem lexer_terminates (input : List Rune) : (Lexer.tokens input).2.1 = true :=
  C03.tokens_terminate input

/-- condition-less loops that do not request a token; each is index-driven over a finite list
(reviewed by hand): the destructuring loops of bind.go, the chained-return walk of def.go,
`splatArg`, the binder loop of `checkAndPropagateArgs` and `doubleAsteriskDefineProcess`. -/
def reviewedBounded : List (String × String × Nat) :=
  [("eval/bind.go", "handleMultipleToMultipleAsigntment", 1),
   ("eval/bind.go", "handleMultipleToMultipleAsigntment", 2),
   ("eval/bind.go", "handleMultipleToScalarAsigntment", 1),
   ("eval/def.go", "getChainMethodReturnType", 1),
   ("eval/method_evaluator/argument_process.go", "splatArg", 1),
   ("eval/method_evaluator/type_process.go", "checkAndPropagateArgs", 1),
   ("eval/method_evaluator/type_process.go", "doubleAsteriskDefineProcess", 1)]

/-- Every condition-less `for` loop of eval/, eval/method_evaluator/ and parser/ (table regenerated
from the working tree) requests a token in its body — so `requests_bounded` bounds its iterations
unless it hands a token back each time — or is on the reviewed list. A new loop that neither
reads nor is reviewed breaks this obligation. -/
theorem loops_request_tokens :
    ∀ l ∈ Gen.loops, l.2.2.2 = true ∨ (l.1, l.2.1, l.2.2.1) ∈ reviewedBounded := by decide

/-- non-vacuity: the initial parser state meets the budget hypothesis, and op lists without
hand-backs exist -/
example : ({} : PState).eosReads ≤ maxEOSReads ∧ ([Op.read, .skip, .read].map Op.ungets).sum = 0 := by
  simp [maxEOSReads, Op.ungets]

end RubyTi.C02

import RubyTi.Props.C01
import RubyTi.Props.C02

/-!
# C04 — editor query modes never crash or hang, whatever row is asked about

The requested row only selects *which* value the parser captures (`ErrorRow = LspTargetRow` in
`SetLastEvaluatedT`); the analysis that runs is the same as without the flag. What can be carried
by the model is therefore what C01/C02 carry — restated here so that the C04 check re-checks it —
plus the row bookkeeping fact that makes "any row" harmless: `ErrorRow` only ever takes values of
`Row`, which starts at 1 and never decreases, so a target row ≤ 0 or past the end captures nothing.
-/
namespace RubyTi.C04
open RubyTi RubyTi.Lexer RubyTi.Token

/-- rows never decrease and ErrorRow never overtakes Row -/
theorem rows_monotone {p p' : PState} (h : getToken p = some p') (hinv : p.errorRow ≤ p.row) :
    p.row ≤ p'.row ∧ p'.errorRow ≤ p'.row ∧ (p'.errorRow = p.errorRow ∨ p'.errorRow = p.row) := by
  unfold getToken at h
  split at h
  · simp only [] at h
    split at h
    · unfold countEOS at h; split at h <;> cases h; simp; omega
    · cases h; simp; omega
  · split at h
    · cases h
      split <;> split <;> (try split) <;> simp_all <;> omega
    · unfold countEOS at h; split at h <;> cases h; simp; omega

/-- the token layer under the query modes is the one of C01: it never errs -/
theorem read_total (bc : List (List Rune)) {p p' : PState} {o : ReadOut} (hw : WF p)
    (h : Token.read bc p = some (o, p')) :
    (match o with | .readError => False | .assertPanic => False | _ => True) ∧ WF p' :=
  C01.read_never_errors bc hw h

/-- and every client call sequence is bounded as in C02 -/
theorem requests_bounded (bc : List (List Rune)) (ops : List C02.Op) (p p' : PState)
    (hb : p.eosReads ≤ maxEOSReads) (h : C02.run bc ops p = some p') :
    (ops.filter C02.Op.isRequest).length ≤ C02.phi p + (ops.map C02.Op.ungets).sum :=
  C02.requests_bounded bc ops p p' hb h

theorem predicates_nil_safe :
    ∀ g ∈ Gen.nilGuards, g.2.1 = true → g.2.2 = true ∨ g.1 ∈ C01.reviewedUnguarded :=
  C01.predicates_nil_safe

example : ({} : PState).errorRow ≤ ({} : PState).row := by decide

end RubyTi.C04

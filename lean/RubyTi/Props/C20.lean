import RubyTi.Model.Frame
import RubyTi.Model.Token
import RubyTi.Props.C19
import RubyTi.Model.Namespace
import RubyTi.Gen.ClassFacts

/-!
# C20 — declarations for classes a program never mentions do not affect it

Two mechanisms could make an unmentioned configured class matter:
1. the global map: proved harmless — writes to keys a program never looks up do not change any
   of its lookups (`extra_writes_invisible`);
2. the flat list `base.BuiltinClasses` of *short* class names, consulted when an identifier
   token is classified (`IsClassIdentifier` / `IsConstIdentifier` in parser.Read) and when a
   superclass frame is chosen: proved harmless for identifiers that are not among the added short
   names (`classify_extra`), and **refuted** for a program identifier that happens to equal the
   short name of an added class in another frame (`classify_collision`): an all-capital constant
   such as `HG` becomes a class token. That is the `Frame::Name` short-name collision recorded
   as a known finding.
3. the same list consulted when a superclass frame is chosen (`class Fuga < Hoge`): after the repair
   (F60) a class the program defines itself is found lexically first, so the frame chosen for it is the
   same for EVERY list of configured short names (`own_superclass_ignores_config`); for a name the
   program does not define, adding short names other than that name changes nothing
   (`superclass_extra_names`).
-/
namespace RubyTi.C20
open RubyTi RubyTi.Frame RubyTi.Token

/-- writes to keys the program never queries are invisible to it -/
theorem extra_writes_invisible {κ ν} [DecidableEq κ] (t : Table κ ν) (extra : List (κ × ν)) (q : κ)
    (h : q ∉ extra.map (·.1)) : lookup (C19.applyWrites t extra) q = lookup t q :=
  C19.lookup_applyWrites_notin t extra q h

/-- token classification ignores added class names the identifier does not equal -/
theorem classify_extra (bc extra : List (List Rune)) (n : List Rune) (h : n ∉ extra) :
    classify (bc ++ extra) n = classify bc n := by
  simp [classify, isClassIdent, isConstIdent, h]

/-- the refuted full statement: an identifier equal to the short name of an added class changes kind -/
theorem classify_collision :
    ∃ (bc extra : List (List Rune)) (n : List Rune), classify (bc ++ extra) n ≠ classify bc n :=
  ⟨[], [[72, 71]], [72, 71], by decide⟩

example : ([72, 71] : List Rune) ∉ ([[66, 97, 115, 101]] : List (List Rune)) := by decide


open RubyTi.Namespace in
/-- **The program's own class wins**: if the superclass name is unqualified and the program defines a class
of that name lexically (in an enclosing namespace or at top level), the frame chosen for it does not
depend on the configured short names at all. -/
theorem own_superclass_ignores_config (tbl : Defined) (bc₁ bc₂ builtin ctxFrame qualified : List Str) (noNs : Bool) (cls : Str)
    (hown : (lookupDefined tbl cls ctxFrame).2 = true) :
    superclassFrame tbl bc₁ builtin ctxFrame true noNs qualified cls =
    superclassFrame tbl bc₂ builtin ctxFrame true noNs qualified cls := by
  simp [superclassFrame, hown]

open RubyTi.Namespace in
/-- for any superclass name: configured classes with OTHER short names do not change the chosen frame -/
theorem superclass_extra_names (tbl : Defined) (bc extra builtin ctxFrame qualified : List Str) (unq noNs : Bool) (cls : Str)
    (h : cls ∉ extra) :
    superclassFrame tbl (bc ++ extra) builtin ctxFrame unq noNs qualified cls =
    superclassFrame tbl bc builtin ctxFrame unq noNs qualified cls := by
  have : (bc ++ extra).contains cls = bc.contains cls := by
    simp [List.contains_eq_mem, List.mem_append, h]
  unfold superclassFrame
  rw [this]

/-- The shape of the two places that consult the flat list besides token classification, as the source has them
now: the superclass choice tests `isOwnClass` (taken from `LookupDefinedClassFrame`) before redirecting to frame
Builtin and otherwise looks the name up lexically — the shape `superclassFrame` models —, and both include/extend
redirects test the edge's own frame and exclude names the program defines at top level — what the `lookup` stream's
model assumes. -/
theorem class_list_guards :
    Gen.superclassOwnClassGuard = true ∧ Gen.parentRedirects = 2 ∧ Gen.parentRedirectsGuarded = Gen.parentRedirects := by decide

open RubyTi.Namespace in
/-- non-vacuity: `class Fuga < Hoge` at top level with the program's own `Hoge`, with and without a configured `Gui::Hoge` -/
example :
    let tbl : Defined := [([], "Hoge".toList)]
    (lookupDefined tbl "Hoge".toList []).2 = true ∧
    superclassFrame tbl ["Hoge".toList] ["Builtin".toList] [] true true [] "Hoge".toList = [] ∧
    superclassFrame tbl [] ["Builtin".toList] [] true true [] "Hoge".toList = [] := by decide

end RubyTi.C20

import RubyTi.Model.Frame
import RubyTi.Model.Token
import RubyTi.Props.C19

/-!
# C20 — declarations for classes a program never mentions do not affect it

Two mechanisms could make an unmentioned configured class matter:
1. the global map: proved harmless — writes to keys a program never looks up do not change any
   of its lookups (`extra_writes_invisible`);
2. the flat list `base.BuiltinClasses` of *short* class names, consulted when an identifier
   token is classified (`IsClassIdentifier` / `IsConstIdentifier` in parser.Read) and when a
   superclass frame is chosen: proved harmless for identifiers that are not among the added short
   names (`classify_extra`), and **refuted** for a program identifier that happens to equal the
   short name of an added class in another frame (`classify_collision`): an all-capital constant
   such as `HG` becomes a class token. That is the `Frame::Name` short-name collision recorded
   as a known finding.
-/
namespace RubyTi.C20
open RubyTi RubyTi.Frame RubyTi.Token

/-- writes to keys the program never queries are invisible to it -/
theorem extra_writes_invisible {κ ν} [DecidableEq κ] (t : Table κ ν) (extra : List (κ × ν)) (q : κ)
    (h : q ∉ extra.map (·.1)) : lookup (C19.applyWrites t extra) q = lookup t q :=
  C19.lookup_applyWrites_notin t extra q h

/-- token classification ignores added class names the identifier does not equal -/
theorem classify_extra (bc extra : List (List Rune)) (n : List Rune) (h : n ∉ extra) :
    classify (bc ++ extra) n = classify bc n := by
  simp [classify, isClassIdent, isConstIdent, h]

/-- the refuted full statement: an identifier equal to the short name of an added class changes kind -/
theorem classify_collision :
    ∃ (bc extra : List (List Rune)) (n : List Rune), classify (bc ++ extra) n ≠ classify bc n :=
  ⟨[], [[72, 71]], [72, 71], by decide⟩

example : ([72, 71] : List Rune) ∉ ([[66, 97, 115, 101]] : List (List Rune)) := by decide

end RubyTi.C20

"""Programs with user-defined methods called from several sites and a reference model of what C15 states: the parameter type covers the
union of the argument classes at all call sites, a call has the type of the body's result (explicit returns included), a body operation
that fails for every possible argument class is reported and one that succeeds for all of them is not."""
import re

LIT = {"Integer": ["1", "42"], "String": ["'s'", "\"ab\""], "Float": ["1.5"], "Symbol": [":a"], "NilClass": ["nil"]}
# operations on a parameter: (method, classes that define it) taken from the shipped test configuration (checked against calls.shipped_model at run time)
OPS = ["upcase", "abs", "to_s", "length", "to_sym", "to_i", "chr", "downcase"]


def classes_of(rendered):
    r = rendered.strip()
    if r.startswith("Union<") and r.endswith(">"):
        return set(r[6:-1].split(" "))
    return {r}


class Gen:
    def __init__(self, rng, mdl):
        self.rng, self.mdl = rng, mdl
        self.lines = []
        self.methods = []       # dicts: name, params [(name, kind, default_class)], body rows, result spec
        self.sites = {}         # method -> list of (args per param name: class or None)
        self.checks = []        # (row, kind, data)
        self.known = {}         # row -> predicate of the known finding covering a deviation there
        self.maxdepth = 1       # forwarding chains: how many methods pass the value on

    def emit(self, s, ind=0):
        self.lines.append("  " * ind + s)
        return len(self.lines)

    def defines(self, cls, m):
        d = self.mdl.decls(cls, m)
        return bool(d) and d != "opaque"

    def opaque(self, cls, m):
        return self.mdl.decls(cls, m) == "opaque"

    def plan(self):
        rng = self.rng
        k = rng.randint(1, 4)
        for i in range(k):
            params = [("p%d_%d" % (i, j), "req", None) for j in range(rng.randint(1, 2))]
            if rng.random() < 0.4:
                c = rng.choice(list(LIT))
                params.append(("d%d" % i, "opt", c))
            if rng.random() < 0.3:
                params.append(("k%d" % i, "key", None))
            if rng.random() < 0.2:
                c = rng.choice(list(LIT))
                params.append(("o%d" % i, "optkey", c))
            m = {"name": "um%d" % i, "params": params, "result": rng.choice(["param", "param", "lit", "early"]), "op": rng.choice(OPS), "opparam": rng.choice(params)[0]}
            self.methods.append(m)
            # call sites: argument classes; each site uses one class per required parameter
            nsites = rng.randint(1, 5)
            pool = rng.sample(list(LIT), rng.randint(1, 3))
            sites = []
            for s in range(nsites):
                site = {}
                for (pn, kind, dc) in params:
                    if kind in ("req", "key") or rng.random() < 0.5:
                        site[pn] = rng.choice(pool)
                sites.append(site)
            self.sites[m["name"]] = sites

    def call_text(self, m, site):
        args = []
        positional_open = True
        for (pn, kind, dc) in m["params"]:
            if kind in ("req", "opt"):
                if pn not in site:
                    positional_open = False        # an omitted optional positional ends the positional list
                    continue
                if positional_open:
                    args.append(self.rng.choice(LIT[site[pn]]))
                else:
                    site.pop(pn)
            elif pn in site:
                args.append("%s: %s" % (pn, self.rng.choice(LIT[site[pn]])))
        return "%s(%s)" % (m["name"], ", ".join(args))

    def program(self):
        rng = self.rng
        self.plan()
        # normalise sites: if an optional positional is omitted, nothing positional after it is passed (there is at most one)
        placements = []          # (when, method, site) when in {"before", "after", "inside"}
        for m in self.methods:
            for site in self.sites[m["name"]]:
                placements.append((rng.choice(["before", "after", "after", "inside"]), m, site))
        # forwarding chains: a value of a further class reaches the FIRST parameter of a method through 1-3 methods that pass it on;
        # each forwarder is defined above or below the method it calls
        self.chains = []
        for m in self.methods:
            if rng.random() < 0.35 and m["params"][0][1] == "req" and len([1 for (_, kd, _) in m["params"] if kd in ("req", "key")]) == 1:
                depth = rng.randint(1, self.maxdepth)
                used = set(site.get(m["params"][0][0]) for site in self.sites[m["name"]])
                extra = [c for c in LIT if c not in used]
                if not extra:
                    continue
                cls = rng.choice(extra)
                self.chains.append({"target": m, "depth": depth, "cls": cls, "above": [rng.random() < 0.5 for _ in range(depth)]})
                self.sites[m["name"]].append({m["params"][0][0]: cls})      # counts as a call site of the target's first parameter

        def forwarder_lines(ch, level):
            callee = ch["target"]["name"] if level == 0 else "fw_%s_%d" % (ch["target"]["name"], level - 1)
            return ["def fw_%s_%d(y%d)" % (ch["target"]["name"], level, level), "  %s(y%d)" % (callee, level), "end"]

        callrows = []
        for ch in self.chains:
            for level in range(ch["depth"]):
                if ch["above"][level]:
                    for l in forwarder_lines(ch, level):
                        self.emit(l)
        for when, m, site in placements:
            if when == "before":
                v = "r%d" % len(callrows)
                r = self.emit("%s = %s" % (v, self.call_text(m, site)))
                r2 = self.emit("dbtp %s" % v)
                callrows.append((r2, m))
        for m in self.methods:
            sig = []
            for (pn, kind, dc) in m["params"]:
                if kind == "req":
                    sig.append(pn)
                elif kind == "opt":
                    sig.append("%s = %s" % (pn, LIT[dc][0]))
                elif kind == "key":
                    sig.append("%s:" % pn)
                else:
                    sig.append("%s: %s" % (pn, LIT[dc][0]))
            m["defrow"] = self.emit("def %s(%s)" % (m["name"], ", ".join(sig)))
            m["dbtp"] = {}
            for (pn, kind, dc) in m["params"]:
                m["dbtp"][pn] = self.emit("dbtp %s" % pn, 1)
            m["oprow"] = self.emit("%s.%s" % (m["opparam"], m["op"]), 1)
            first = m["params"][0][0]
            if m["result"] == "param":
                self.emit(first, 1)
            elif m["result"] == "lit":
                m["litclass"] = rng.choice(list(LIT))
                self.emit(LIT[m["litclass"]][0], 1)
            else:
                m["litclass"] = rng.choice(list(LIT))
                self.emit("return %s if %s" % (LIT[m["litclass"]][0], first), 1)
                self.emit(first, 1)
            self.emit("end")
        for ch in self.chains:
            for level in range(ch["depth"]):
                if not ch["above"][level]:
                    for l in forwarder_lines(ch, level):
                        self.emit(l)
            self.emit("fw_%s_%d(%s)" % (ch["target"]["name"], ch["depth"] - 1, LIT[ch["cls"]][0]))
        inside = [(m, site) for when, m, site in placements if when == "inside"]
        if inside:
            self.emit("def um_caller")
            for m, site in inside:
                self.emit(self.call_text(m, site), 1)
            self.emit("1", 1)
            self.emit("end")
        for when, m, site in placements:
            if when == "after":
                v = "r%d" % len(callrows)
                self.emit("%s = %s" % (v, self.call_text(m, site)))
                r2 = self.emit("dbtp %s" % v)
                callrows.append((r2, m))
        # expectations
        before = set(m["name"] for when, m, site in placements if when == "before")
        for m in self.methods:
            # known finding K32: a call placed before the definition of a method with two or more positional parameters and a keyword parameter
            npos = len([1 for (_, kind, _) in m["params"] if kind in ("req", "opt")])
            nkey = len([1 for (_, kind, _) in m["params"] if kind in ("key", "optkey")])
            m["k32"] = m["name"] in before and npos >= 2 and nkey >= 1
        for m in self.methods:
            ptypes = {}
            for (pn, kind, dc) in m["params"]:
                cs = set(site[pn] for site in self.sites[m["name"]] if pn in site)
                if dc:
                    cs.add(dc)
                ptypes[pn] = cs
                self.checks.append((m["dbtp"][pn], "covers", sorted(cs)))
            first = m["params"][0][0]
            if m["result"] == "param":
                ret = set(ptypes[first])
            elif m["result"] == "lit":
                ret = {m["litclass"]}
            else:
                ret = {m["litclass"]} | ptypes[first]
            m["ret"] = ret
            cs = ptypes[m["opparam"]]
            if cs and not any(self.opaque(c, m["op"]) for c in cs):
                if all(self.defines(c, m["op"]) for c in cs):
                    self.checks.append((m["oprow"], "silent", m["op"]))
                elif not any(self.defines(c, m["op"]) for c in cs):
                    self.checks.append((m["oprow"], "reported", m["op"]))
        chained = set(ch["target"]["name"] for ch in self.chains)
        for r, m in callrows:
            if m["name"] in chained and m["result"] != "lit":
                continue
            self.checks.append((r, "returns", sorted(m["ret"])))
        for m in self.methods:
            if m["k32"]:
                rows = list(m["dbtp"].values()) + [m["oprow"]] + [r for r, mm in callrows if mm is m]
                for r in rows:
                    self.known[r] = "keyword-before-definition"
        return "\n".join(self.lines) + "\n"

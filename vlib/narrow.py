"""Programs with nil?/is_a? narrowing and a reference model of the type of each narrowed variable in every branch (C10)."""

LITS = {"Integer": "1", "String": "'s'", "Float": "1.5", "Symbol": ":a", "NilClass": "nil", "Bool": "true"}
ORDER = ["Integer", "String", "Float", "Symbol", "NilClass", "Bool"]


def render(classes):
    return classes[0] if len(classes) == 1 else "Union<%s>" % " ".join(classes)


class Gen:
    def __init__(self, rng, nesting=True, unrelated=True, elsif=True, chains=True):
        self.rng, self.nesting, self.unrelated, self.elsif, self.chains = rng, nesting, unrelated, elsif, chains
        self.lines = []
        self.expect = {}       # row -> rendered type
        self.known = {}        # row -> predicate of the known finding that covers a deviation on that row
        self.taint = None      # set while generating the inside of a branch a known finding affects: everything nested inherits it
        self.vars = {}         # union variables: name -> list of classes (declaration order)
        self.n = 0
        self.shapes = {}

    def emit(self, s, ind):
        self.lines.append("  " * ind + s)
        return len(self.lines)

    def count(self, k):
        self.shapes[k] = self.shapes.get(k, 0) + 1

    def declare(self, ind=0):
        self.n += 1
        v = "u%d" % self.n
        k = self.rng.choice([2, 2, 3, 3, 4])
        cs = self.rng.sample(ORDER, k)
        if "NilClass" not in cs and self.rng.random() < 0.5:
            cs[-1] = "NilClass"
        expr = LITS[cs[-1]]
        for c in reversed(cs[:-1]):
            expr = "true ? %s : %s" % (LITS[c], "(%s)" % expr if " " in expr else expr)
        # nested ternaries render in evaluation order: first alternative first
        self.emit("%s = %s" % (v, expr), ind)
        self.vars[v] = list(cs)
        return v

    def atom(self, env, kind=None):
        """(text, var, admitted classes, rejected classes)"""
        rng = self.rng
        v = rng.choice(sorted(k for k, c in env.items() if len(c) > 1))
        cs = env[v]
        kind = kind or rng.choice(["nil", "notnil", "isa", "isa", "notisa"])
        if kind in ("nil", "notnil") and "NilClass" in cs:
            yes = ["NilClass"]
            no = [c for c in cs if c != "NilClass"]
            if kind == "nil":
                return "%s.nil?" % v, v, yes, no
            return "!%s.nil?" % v, v, no, yes
        cands = [x for x in cs if x not in ("NilClass", "Bool")]
        if not cands:
            # only Bool / NilClass left: ti's Bool is not a Ruby class name, test nil-ness instead
            yes = [x for x in cs if x == "NilClass"]
            return "%s.nil?" % v, v, yes, [x for x in cs if x != "NilClass"]
        c = rng.choice(cands)
        if kind == "notisa":
            return "!%s.is_a?(%s)" % (v, c), v, [x for x in cs if x != c], [c]
        return "%s.is_a?(%s)" % (v, c), v, [c], [x for x in cs if x != c]

    def filler(self, ind, env, depth):
        """statements that do not assign the narrowed variables"""
        rng = self.rng
        for _ in range(rng.randint(0, 2)):
            r = rng.random()
            if r < 0.4:
                self.n += 1
                self.emit("f%d = %s" % (self.n, rng.choice(list(LITS.values()))), ind)
            elif r < 0.6:
                self.n += 1
                self.emit("f%d = [1, 2].length" % self.n, ind)
            elif r < 0.8 and self.nesting and depth < 2:
                # another conditional inside the branch (on a variable that still has several classes here, or a literal condition)
                if any(len(c) > 1 for c in env.values()) and rng.random() < 0.7:
                    self.conditional(ind, env, depth + 1)
                else:
                    self.emit("if true", ind)
                    self.n += 1
                    self.emit("f%d = 1" % self.n, ind + 1)
                    self.emit("end", ind)
                    self.count("unrelated-if")
            else:
                self.emit("dbtp 1", ind)
                self.expect[len(self.lines)] = "Integer"

    def probe(self, ind, env, known=None):
        for v in sorted(env):
            if env[v]:
                r = self.emit("dbtp %s" % v, ind)
                self.expect[r] = render(env[v])
                if known or self.taint:
                    self.known[r] = known or self.taint

    def conditional(self, ind, env, depth=0):
        """env: the variables this conditional may test, with their current classes"""
        rng = self.rng
        kw = rng.choice(["if", "if", "unless"])
        atoms = [self.atom(env)]
        rest = {k: v for k, v in env.items() if k != atoms[0][1] and len(v) > 1}
        first_then = [c for c in env[atoms[0][1]] if c in atoms[0][2]]
        if self.chains and rng.random() < 0.2 and len(first_then) > 1:
            # the same variable tested twice in one chain (`!x.nil? && !x.is_a?(Integer)`): two restore steps for one variable
            same = "notisa" if atoms[0][0].startswith("!") else "isa"
            atoms.append(self.atom({atoms[0][1]: first_then}, same if rng.random() < 0.7 else None))
            self.count("chain-same-variable")
        elif self.chains and rng.random() < 0.3 and rest:
            atoms.append(self.atom(rest))
        cond = " && ".join(a[0] for a in atoms)
        self.emit("%s %s" % (kw, cond), ind)
        self.count(kw + ("-chain" if len(atoms) > 1 else ""))
        k29 = False
        then_env = dict(env)
        else_env = dict(env)
        for _, v, yes, no in atoms:
            then_env[v] = [c for c in then_env[v] if c in yes]
        if len(atoms) == 1:
            _, v, yes, no = atoms[0]
            else_env[v] = [c for c in else_env[v] if c in no]
        if kw == "unless":
            then_env, else_env = else_env, then_env
            if len(atoms) > 1:
                then_env = dict(env)      # unless (A && B): the body admits everything
        body_env = then_env
        chain_neg = "and-chain-negative-branch" if len(atoms) > 1 else None
        # one variable tested twice in a chain, once negated and once not (K34)
        mixed = "chain-same-variable-mixed-polarity" if len(atoms) > 1 and atoms[0][1] == atoms[1][1] and \
            atoms[0][0].startswith("!") != atoms[1][0].startswith("!") else None
        outer_taint = self.taint
        if kw == "unless" and chain_neg:
            self.taint = self.taint or chain_neg
        elif mixed:
            self.taint = self.taint or mixed
        if self.unrelated:
            self.filler(ind + 1, body_env, depth)
        self.probe(ind + 1, body_env, chain_neg if kw == "unless" else mixed)
        if self.nesting and depth < 2 and rng.random() < 0.35:
            if any(len(v) > 1 for v in body_env.values()):
                self.conditional(ind + 1, body_env, depth + 1)
                self.probe(ind + 1, body_env, chain_neg if kw == "unless" else mixed)          # undone after the inner conditional
                self.count("nested")
        self.taint = outer_taint
        if kw == "if" and self.elsif and len(atoms) == 1 and rng.random() < 0.3 and any(len(v) > 1 for v in else_env.values()):
            a2 = self.atom(else_env)
            self.emit("elsif %s" % a2[0], ind)
            self.count("elsif")
            e2 = dict(else_env)
            e2[a2[1]] = [c for c in e2[a2[1]] if c in a2[2]]
            negated = a2[0].startswith("!")
            self.probe(ind + 1, e2, "elsif-negated-after-narrowing" if negated and else_env[a2[1]] != env[a2[1]] else None)
            k29 = negated
            else_env = dict(else_env)
            else_env[a2[1]] = [c for c in else_env[a2[1]] if c in a2[3]]
        if rng.random() < 0.7:
            self.emit("else", ind)
            else_known = (chain_neg if kw == "if" else None) or ("elsif-negated-after-narrowing" if k29 else None)
            self.taint = self.taint or else_known
            if self.unrelated:
                self.filler(ind + 1, else_env, depth)
            self.probe(ind + 1, else_env, else_known)
            self.taint = outer_taint
        self.emit("end", ind)
        self.probe(ind, env)                  # the pre-conditional types are back

    def program(self):
        for _ in range(self.rng.randint(2, 3)):
            self.declare()
        for v in sorted(self.vars):
            r = self.emit("dbtp %s" % v, 0)
            self.expect[r] = render(self.vars[v])
        for _ in range(self.rng.randint(1, 3)):
            self.conditional(0, {k: list(v) for k, v in self.vars.items()})
        return "\n".join(self.lines) + "\n"

"""Generated .ti-config classes (for C19, C20, C12, C07/C08)."""
import json
import os
import shutil
from . import common

RET = ["Int", "String", "Float", "Bool", "NilClass", "Symbol", "Self", "?Int", "Int|String", "[Int]", "Array", "Hash"]
ARG = ["Int", "String", "Float", "Symbol", "Bool", "Untyped", "Int|String", "?Int", "*Int", "Array"]
VAL = {"Int": "1", "String": "'s'", "Float": "1.5", "Symbol": ":a", "Bool": "true", "Untyped": "1", "Array": "[1]", "Hash": "{}"}


def qual(c):
    return c["class"] if c["frame"] == "Builtin" else c["frame"] + "::" + c["class"]


def gen_classes(rng, n, prefix="Gz", frames=False):
    """n classes with extends chains; method names are unique per class (prefix with the class name).
    frames=True: some classes live in a non-Builtin frame and name their (Builtin-frame) parent unqualified."""
    classes = []
    for i in range(n):
        name = "%s%d" % (prefix, i)
        parent = ["%s%d" % (prefix, rng.randrange(i))] if i > 0 and rng.random() < 0.5 else []
        frame = "Builtin"
        if frames and i > 0 and rng.random() < 0.4:
            frame = "Nz%s%d" % (prefix, i)
            builtin_parents = [c["class"] for c in classes if c["frame"] == "Builtin"]
            parent = [rng.choice(builtin_parents)] if builtin_parents and rng.random() < 0.8 else []
        ims, cms = [], []
        for k in range(rng.randint(1, 4)):
            m = {"name": "%s_i%d" % (name.lower(), k), "arguments": [{"type": [rng.choice(ARG)]} for _ in range(rng.randint(0, 2))],
                 "return_type": {"type": [rng.choice(RET)]}}
            ims.append(m)
        for k in range(rng.randint(0, 2)):
            m = {"name": "%s_c%d" % (name.lower(), k), "arguments": [{"type": [rng.choice(ARG)]} for _ in range(rng.randint(0, 2))],
                 "return_type": {"type": [rng.choice(RET)]}}
            cms.append(m)
        cms.append({"name": "new", "arguments": [], "return_type": {"type": [name if frame == "Builtin" else frame + "::" + name]}})
        if frame != "Builtin":
            # an instance of a class outside the Builtin frame is obtained from a Builtin-frame class method
            maker = rng.choice([c for c in classes if c["frame"] == "Builtin"])
            maker["class_methods"].append({"name": "mk_%s" % name.lower(), "arguments": [], "return_type": {"type": [frame + "::" + name]}})
        classes.append({"frame": frame, "class": name, "instance_methods": ims, "class_methods": cms, "extends": parent})
    return classes


def program_for(rng, classes):
    """calls every method of every class (own and inherited), with accepted and rejected arguments, plus dbtp probes"""
    lines = []
    by = {c["class"]: c for c in classes}
    for c in classes:
        v = "o_" + c["class"].lower()
        if c["frame"] == "Builtin":
            lines.append("%s = %s.new" % (v, c["class"]))
        else:
            mk = next(x["class"] for x in classes if any(m["name"] == "mk_%s" % c["class"].lower() for m in x["class_methods"]))
            lines.append("%s = %s.mk_%s" % (v, mk, c["class"].lower()))
        lines.append("dbtp %s" % v)
        chain, cur = [], c
        seen = set()
        while cur and cur["class"] not in seen:
            seen.add(cur["class"])
            chain.append(cur)
            cur = by.get(cur["extends"][0]) if cur["extends"] else None
        for anc in chain:
            for m in anc["instance_methods"]:
                for ok in (True, False):
                    args = []
                    for a in m["arguments"]:
                        t = a["type"][0].lstrip("?*").split("|")[0].strip("[]")
                        args.append(VAL.get(t, "1") if ok else rng.choice(["nil", ":zz", "'q'", "2.5"]))
                    r = "r_%d" % len(lines)
                    lines.append("%s = %s.%s(%s)" % (r, v, m["name"], ", ".join(args)))
                    lines.append("dbtp %s" % r)
        for m in c["class_methods"]:
            if m["name"] == "new" or c["frame"] != "Builtin":
                continue
            args = [VAL.get(a["type"][0].lstrip("?*").split("|")[0].strip("[]"), "1") for a in m["arguments"]]
            lines.append("%s.%s(%s)" % (qual(c), m["name"], ", ".join(args)))
        lines.append("%s.nope_%d" % (v, len(lines)))
    return "\n".join(lines) + "\n"


def write_config(base_dir, dest, files):
    """dest/.ti-config = shipped files (optionally renamed via `rename`) + generated files {filename: class json}"""
    cfg = os.path.join(dest, ".ti-config")
    os.makedirs(cfg)
    for f in os.listdir(base_dir):
        shutil.copy(os.path.join(base_dir, f), os.path.join(cfg, f))
    for name, cls in files.items():
        json.dump(cls, open(os.path.join(cfg, name), "w"))
    return dest


def split_class(rng, cls, parts):
    """the declarations of one class spread over `parts` files"""
    out = [{"frame": cls["frame"], "class": cls["class"], "instance_methods": [], "class_methods": [], "extends": []} for _ in range(parts)]
    for m in cls["instance_methods"]:
        rng.choice(out)["instance_methods"].append(m)
    for m in cls["class_methods"]:
        rng.choice(out)["class_methods"].append(m)
    for e in cls["extends"]:
        rng.choice(out)["extends"].append(e)
    return out

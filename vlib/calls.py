"""Generated configurations and call programs with a reference oracle (C07, C08, C09, C12).

The oracle works on *classes*: a value has a set of possible classes; a parameter accepts a set of classes (or everything).
A call `recv.m(args)` CERTAINLY FAILS when, for every possible receiver class and every declaration of m that class has
(own, overloaded or inherited through `extends`), the argument count is outside what the declaration accepts or some argument's
possible classes are all rejected by the parameter it binds to (no declaration at all counts as failing). It CERTAINLY FITS when
every possible receiver class has a declaration whose count is accepted and whose parameters accept every possible class of
every argument. Anything else is left free."""
import json

BASE = ["Int", "String", "Float", "Symbol", "Bool", "NilClass", "Array", "Hash"]
CLS = {"Int": "Integer", "String": "String", "Float": "Float", "Symbol": "Symbol", "Bool": "Bool", "NilClass": "NilClass", "Array": "Array", "Hash": "Hash"}
LITS = {"Integer": ["1", "42"], "String": ["'s'", "\"ab\""], "Float": ["1.5"], "Symbol": [":a"], "Bool": ["true", "false"], "NilClass": ["nil"],
        "Array": ["[1, 2]", "['a']"], "Hash": ["{a: 1}"]}
ANY = None


class Param:
    def __init__(self, kind, accepts, spec, key=None):
        self.kind, self.accepts, self.spec, self.key = kind, accepts, spec, key     # kind: req | opt | rest | key | optkey

    def ok(self, cls):
        return self.accepts is ANY or cls in self.accepts


def gen_type(rng, classes, allow_union=True):
    """(json type spec, accepted class set or ANY)"""
    r = rng.random()
    if r < 0.12:
        return "Untyped", ANY
    if r < 0.3 and classes:
        c = rng.choice(classes)
        return c, {c}
    if r < 0.5 and allow_union:
        k = rng.randint(2, 3)
        names = rng.sample(BASE + classes[:2], k)
        acc = set(CLS.get(n, n) for n in names)
        return ("|".join(names) if rng.random() < 0.5 else list(names)), acc
    b = rng.choice(BASE)
    return b, {CLS[b]}


def gen_method(rng, name, classes, ret=None, keyword_only=False):
    params, args = [], []
    if keyword_only:
        for k in rng.sample(["alpha", "beta", "gamma"], rng.randint(1, 2)):
            spec, acc = gen_type(rng, classes, allow_union=False)
            args.append({"type": spec, "key": k + ":"})
            params.append(Param("key", acc, spec, k))
        if ret is None:
            ret = rng.choice(BASE[:6])
        return {"name": name, "arguments": args, "return_type": {"type": ret}}, params, CLS.get(ret, ret)
    nreq = rng.choice([0, 1, 1, 2, 3])
    for _ in range(nreq):
        spec, acc = gen_type(rng, classes)
        params.append(Param("req", acc, spec))
        args.append({"type": spec})
    for _ in range(rng.choice([0, 0, 1, 2])):
        spec, acc = gen_type(rng, classes, allow_union=False)
        style = rng.random()
        if isinstance(spec, str) and spec in ("Int", "String", "Float", "Untyped", "Bool") and style < 0.4:
            args.append({"type": "Default" + spec})
        elif style < 0.7:
            args.append({"type": "?" + spec})
        else:
            args.append({"type": spec, "is_default": True})
        params.append(Param("opt", acc, spec))
    has_opt = any(p.kind == "opt" for p in params)
    if has_opt and rng.random() < 0.25:
        # a required positional parameter AFTER the optional ones (Ruby allows `def m(a, b = 1, c)`)
        spec, acc = gen_type(rng, classes)
        params.append(Param("req2", acc, spec))
        args.append({"type": spec})
    elif rng.random() < 0.2:
        spec, acc = gen_type(rng, classes, allow_union=False)
        if rng.random() < 0.5:
            args.append({"type": "*" + spec})
        else:
            args.append({"type": spec, "is_asterisk": True})
        params.append(Param("rest", acc, spec))
    if rng.random() < 0.2:
        for k in rng.sample(["alpha", "beta", "gamma"], rng.randint(1, 2)):
            spec, acc = gen_type(rng, classes, allow_union=False)
            if rng.random() < 0.5:
                args.append({"type": spec, "key": k + ":"})
                params.append(Param("key", acc, spec, k))
            else:
                args.append({"type": spec, "key": k + ":", "is_default": True})
                params.append(Param("optkey", acc, spec, k))
    if ret is None:
        ret = rng.choice(BASE[:6] + classes[:2])
    return {"name": name, "arguments": args, "return_type": {"type": ret}}, params, CLS.get(ret, ret)


OPAQUE = "opaque"


class Model:
    def __init__(self):
        self.classes = {}      # name -> {"inst": {m: [(params, ret)]}, "static": {...}, "extends": [...]}
        self.files = {}

    def decls(self, cls, m, kind="inst", seen=None):
        """declarations of m for cls: own, then through `extends`, then those every object has (class "" of the configuration and what it extends)"""
        top = seen is None
        r = self._decls(cls, m, kind, set() if top else seen)
        if not r and top and kind == "inst" and "<Object>" in self.classes:
            r = self._decls("<Object>", m, kind, set())
        return r

    def _decls(self, cls, m, kind, seen):
        if cls in seen or cls not in self.classes:
            return []
        seen.add(cls)
        if (kind, m) in self.classes[cls].get("opaque", ()):
            return OPAQUE
        own = self.classes[cls][kind].get(m)
        if own:
            return own
        for p in self.classes[cls]["extends"]:
            d = self._decls(p, m, kind, seen)
            if d:
                return d
        return []


def gen_config(rng, n=4, prefix="Kc", overloads=True, shipped_dir=None):
    mdl = shipped_model(shipped_dir) if shipped_dir else Model()
    names = ["%s%d" % (prefix, i) for i in range(n)]
    # methods several classes declare under ONE name with one signature (union receivers resolve each class's own declaration);
    # one of them takes keyword parameters only
    shared = []
    for k in range(2):
        sd, sparams, sret = gen_method(rng, "%s_shared%d" % (prefix.lower(), k), names, keyword_only=(k == 0))
        shared.append((sd, sparams, sret))
    for i, name in enumerate(names):
        parent = [names[rng.randrange(i)]] if i > 0 and rng.random() < 0.4 else []
        ims, cms = [], [{"name": "new", "arguments": [], "return_type": {"type": name}}]
        info = {"inst": {}, "static": {"new": [([], name)]}, "extends": parent}
        for k in range(rng.randint(2, 5)):
            mname = "%s_m%d" % (name.lower(), k)
            d, params, ret = gen_method(rng, mname, names)
            ims.append(d)
            info["inst"].setdefault(mname, []).append((params, ret))
            if overloads and rng.random() < 0.2:
                d2, params2, ret2 = gen_method(rng, mname, names, ret=d["return_type"]["type"])
                ims.append(d2)
                info["inst"][mname].append((params2, ret2))
        for (sd, sparams, sret) in shared:
            if rng.random() < 0.7:
                ims.append(sd)
                info["inst"].setdefault(sd["name"], []).append((sparams, sret))
        for k in range(rng.randint(0, 2)):
            mname = "%s_c%d" % (name.lower(), k)
            d, params, ret = gen_method(rng, mname, names)
            cms.append(d)
            info["static"].setdefault(mname, []).append((params, ret))
        info["generated"] = True
        mdl.classes[name] = info
        mdl.files["%s.json" % name.lower()] = {"frame": "Builtin", "class": name, "instance_methods": ims, "class_methods": cms, "extends": parent}
    return mdl


SHIPPED = {"Int": {"Integer"}, "Integer": {"Integer"}, "String": {"String"}, "Float": {"Float"}, "Symbol": {"Symbol"}, "Bool": {"Bool"}, "NilClass": {"NilClass"},
           "Array": {"Array"}, "Hash": {"Hash"}, "Untyped": ANY, "Number": {"Integer", "Float"}, "Range": {"Range"}}
SKIP_METHODS = {"class", "p", "puts", "loop", "require", "raise", "sleep", "exit", "new", "print", "lambda", "proc", "attr_accessor", "attr_reader", "attr_writer",
                "private", "public", "protected", "include", "extend", "append", "push", "concat", "unshift", "replace", "slice", "merge", "merge!", "shift", "yield", "is_a?", "nil?", "instance_of?", "kind_of?", "freeze", "dup", "clone", "tap", "then", "send", "respond_to?"}


def shipped_param(a):
    """Param for one argument of the shipped configuration, or None when its type is outside the oracle's vocabulary"""
    t = a.get("type")
    ts = [t] if isinstance(t, str) else list(t or [])
    if not ts:
        return None
    kind = "req"
    if a.get("is_default"):
        kind = "opt"
    if a.get("is_asterisk"):
        kind = "rest"
    acc = set()
    single = len(ts) == 1 and "|" not in ts[0] and "[" not in ts[0]
    for x in ts:
        for y in x.split("|"):
            if y.startswith("**"):
                return None
            if y.startswith("*") or y.startswith("?"):
                if not single:
                    return None          # the prefixes are only read on a single plain type name
                if y[0] == "*":
                    kind = "rest"
                elif kind == "req":
                    kind = "opt"
                y = y[1:]
            if y.startswith("Default") and y[7:] in ("Int", "String", "Float", "Untyped", "Bool"):
                if single and kind == "req":
                    kind = "opt"         # inside a union the variant's default flag does not make the parameter optional
                y = y[7:]
            if y not in SHIPPED:
                return None
            if SHIPPED[y] is ANY:
                acc = ANY
            elif acc is not ANY:
                acc |= SHIPPED[y]
    key = a.get("key")
    if key:
        kind = "optkey" if kind == "opt" else "key"
        return Param(kind, acc, ts, key.rstrip(":"))
    return Param(kind, acc, ts)


def shipped_model(cfgdir, mdl=None):
    """adds the classes of a configuration directory whose methods are within the vocabulary (no blocks, identifier names)"""
    import glob, os, re
    mdl = mdl or Model()
    ident = re.compile(r"^[a-z_][a-z0-9_]*[?!]?$")
    for f in sorted(glob.glob(os.path.join(cfgdir, "*.json"))):
        try:
            d = json.load(open(f))
        except Exception:
            continue
        if d.get("frame") != "Builtin" or "::" in d.get("class", ""):
            continue
        info = mdl.classes.setdefault(d["class"] or "<Object>", {"inst": {}, "static": {}, "extends": [], "opaque": set()})
        info["extends"] += [e for e in (d.get("extends") or []) if "::" not in e]
        for kind, key in (("inst", "instance_methods"), ("static", "class_methods")):
            for m in d.get(key) or []:
                name = m["name"]
                ps = [shipped_param(a) for a in (m.get("arguments") or [])]
                rt = (m.get("return_type") or {}).get("type")
                rts = [rt] if isinstance(rt, str) else list(rt or [])
                ret = SHIPPED.get(rts[0]) if len(rts) == 1 else None
                ret = next(iter(ret)) if ret and len(ret) == 1 and not (m.get("return_type") or {}).get("is_conditional") else None
                if not ident.match(name) or name in SKIP_METHODS or m.get("block_parameters") or any(p is None for p in ps):
                    info.setdefault("opaque", set()).add((kind, name))       # declared, but outside the oracle: never judged
                    continue
                info[kind].setdefault(name, []).append((ps, ret))
    return mdl


def judge_decl(params, pos, kw, strict_rest=False, ignore_unknown_keys=False):
    """pos: list of class sets; kw: dict key -> class set.  'fail' | 'fit' | 'free' against one declaration"""
    if ignore_unknown_keys:
        # as ti binds: a keyword argument whose key the declaration does not have is skipped (known finding K37)
        declared = set(p.key for p in params if p.key)
        kw = {k: a for k, a in kw.items() if k in declared}
    req = [p for p in params if p.kind == "req"]
    opt = [p for p in params if p.kind == "opt"]
    req2 = [p for p in params if p.kind == "req2"]
    if req2:
        # required after optional: the count bounds are certain; how a partial list binds is not (Ruby fills the required ones first)
        n = len(pos)
        total = len(req) + len(opt) + len(req2)
        if n < len(req) + len(req2) or n > total:
            return "fail"
        if any(p.kind == "key" and p.key not in kw for p in params) or any(k not in [p.key for p in params if p.key] for k in kw):
            return "fail"
        if n != total:
            return "free"
        res = "fit"
        keys2 = {p.key: p for p in params if p.kind in ("key", "optkey")}
        for p, a in list(zip(req + opt + req2, pos)) + [(keys2[k], a) for k, a in kw.items()]:
            oks = [p.ok(c) for c in a]
            if not any(oks):
                return "fail"
            if not all(oks):
                res = "free"
        return res
    rest = [p for p in params if p.kind == "rest"]
    keys = {p.key: p for p in params if p.kind in ("key", "optkey")}
    n = len(pos)
    if n < len(req) or (not rest and n > len(req) + len(opt)):
        return "fail"
    for k in kw:
        if k not in keys:
            return "fail"
    for k, p in keys.items():
        if p.kind == "key" and k not in kw:
            return "fail"
    binding = []
    plist = req + opt
    for i, a in enumerate(pos):
        binding.append((plist[i] if i < len(plist) else rest[0], a))
    for k, a in kw.items():
        binding.append((keys[k], a))
    res = "fit"
    for p, a in binding:
        if p.kind == "rest" and not strict_rest:
            continue               # rest parameters do not check their element type (known finding K28)
        oks = [p.ok(c) for c in a]
        if not any(oks):
            return "fail"
        if not all(oks):
            res = "free"
    return res


def judge(mdl, recv_classes, m, pos, kw, kind="inst", strict_rest=False, ignore_unknown_keys=False):
    per = []
    for c in recv_classes:
        ds = mdl.decls(c, m, kind)
        if ds is OPAQUE or (c not in mdl.classes):
            per.append("free")
            continue
        # known finding K33: the keyword parameters of all declarations of one method share a TFrame key per name, so a name that
        # two overloads declare keeps the type of the declaration loaded last; such calls are not judged
        keynames = [p.key for ps, _ in ds for p in ps if p.key]
        if len(ds) > 1 and len(keynames) != len(set(keynames)):
            per.append("free")
            continue
        if not ds:
            per.append("fail")
            continue
        rs = [judge_decl(p, pos, kw, strict_rest, ignore_unknown_keys) for p, _ in ds]
        per.append("fit" if "fit" in rs else ("fail" if all(r == "fail" for r in rs) else "free"))
    if all(r == "fail" for r in per):
        return "fail"
    if all(r == "fit" for r in per):
        return "fit"
    return "free"


class ProgGen:
    def __init__(self, rng, mdl, errors=True, nested=True):
        self.rng, self.mdl, self.errors, self.nested = rng, mdl, errors, nested
        self.lines = []
        self.vars = {}         # name -> frozenset of classes
        self.expect = {}       # row -> 'fail' | 'fit'
        self.strict = {}       # row -> verdict when rest parameters check their element type (known finding K28)
        self.unknown_key = {}  # row -> the call fails only through a keyword argument no declaration knows (known finding K37)
        self.info = {}         # row -> description
        self.ind = 0
        self.nv = 0

    def emit(self, s):
        self.lines.append("  " * self.ind + s)
        return len(self.lines)

    def fresh(self):
        self.nv += 1
        return "w%d" % self.nv

    def makeable(self):
        return [c for c, i in self.mdl.classes.items() if "new" in i["static"] and i.get("generated")]

    def value(self, want=None):
        """(code, class set) preferably among `want` classes"""
        rng = self.rng
        cands = [v for v, cs in self.vars.items() if want is None or cs <= want]
        if cands and rng.random() < 0.5:
            v = rng.choice(cands)
            return v, self.vars[v]
        pool = sorted(want) if want else list(LITS) + self.makeable()
        pool = [c for c in pool if c in LITS or c in self.makeable()]
        if not pool:
            return "1", frozenset(["Integer"])
        c = rng.choice(pool)
        if c in LITS:
            return rng.choice(LITS[c]), frozenset([c])
        return "%s.new" % c, frozenset([c])

    def new_var(self):
        rng = self.rng
        name = self.fresh()
        mk = self.makeable()
        if len(mk) >= 2 and rng.random() < 0.15:
            a, b = rng.sample(mk, 2)
            self.emit("%s = true ? %s.new : %s.new" % (name, a, b))
            self.vars[name] = frozenset([a, b])
            return name
        if rng.random() < 0.35:
            (a, ca), (b, cb) = self.value(), self.value()
            self.emit("%s = true ? %s : %s" % (name, a, b))
            self.vars[name] = frozenset(ca | cb)
            return name
        code, cs = self.value()
        self.emit("%s = %s" % (name, code))
        self.vars[name] = cs
        return name

    def method_names(self, rcs, kind):
        names = set()
        for c in rcs:
            seen, stack = set(), [c]
            while stack:
                x = stack.pop()
                if x in seen or x not in self.mdl.classes:
                    continue
                seen.add(x)
                names |= set(n for n in self.mdl.classes[x][kind] if n != "new")
                stack += self.mdl.classes[x]["extends"]
        return sorted(names)

    def call(self):
        rng, mdl = self.rng, self.mdl
        kind = "inst"
        if rng.random() < 0.15:
            cs = [c for c in self.makeable() if self.method_names([c], "static")]
            if cs:
                kind = "static"
        if kind == "static":
            c0 = rng.choice(cs)
            recv, rcs = c0, [c0]
        else:
            rc = [v for v, cs in self.vars.items() if cs and all(c in mdl.classes for c in cs) and self.method_names(sorted(cs), "inst")]
            if not rc:
                c = rng.choice(self.makeable())
                v = self.fresh()
                self.emit("%s = %s.new" % (v, c))
                self.vars[v] = frozenset([c])
                rc = [v]
            recv = rng.choice(rc)
            rcs = sorted(self.vars[recv])
            c0 = rng.choice(rcs)
        names = self.method_names(rcs, kind)
        if self.errors and rng.random() < 0.08:
            m = "nope_%d" % len(self.lines)
        else:
            m = rng.choice(names)
        ds = mdl.decls(c0, m, kind)
        if not ds or ds is OPAQUE:
            ds = next((mdl.decls(c, m, kind) for c in rcs if mdl.decls(c, m, kind) and mdl.decls(c, m, kind) is not OPAQUE), [])
        pos, kw, codes = [], {}, []
        if ds:
            params, _ = rng.choice(ds)
            wrong = self.errors and rng.random() < 0.3
            drop_tail = wrong and rng.random() < 0.35          # stop at the first optional parameter and pass nothing after it, keywords included
            stopped = False
            for p in params:
                if p.kind == "opt" and (drop_tail or rng.random() < 0.5):
                    stopped = True
                    break
                if p.kind in ("key", "optkey"):
                    continue
                reps = rng.randint(0, 3) if p.kind == "rest" else 1
                for _ in range(reps):
                    want = None if p.accepts is ANY else frozenset(p.accepts)
                    if wrong and rng.random() < 0.5:
                        want = None
                    code, cs = self.value(want)
                    pos.append(cs)
                    codes.append(code)
            for p in params:
                if drop_tail and stopped:
                    break
                if p.kind == "key" or (p.kind == "optkey" and rng.random() < 0.5):
                    if wrong and rng.random() < 0.3:
                        continue
                    want = None if p.accepts is ANY or (wrong and rng.random() < 0.5) else frozenset(p.accepts)
                    code, cs = self.value(want)
                    kw[p.key] = cs
                    codes.append("%s: %s" % (p.key, code))
            if wrong and rng.random() < 0.3 and not kw:
                if rng.random() < 0.5 and codes:
                    codes.pop()
                    pos.pop()
                else:
                    code, cs = self.value()
                    pos.append(cs)
                    codes.append(code)
        verdict = judge(mdl, rcs, m, pos, kw, kind)
        strict = judge(mdl, rcs, m, pos, kw, kind, strict_rest=True)
        res = self.fresh()
        row = self.emit("%s = %s.%s(%s)" % (res, recv, m, ", ".join(codes)) if codes else "%s = %s.%s" % (res, recv, m))
        if verdict != "free":
            self.expect[row] = verdict
        if strict != verdict:
            self.strict[row] = strict
        if verdict == "fail" and kw and judge(mdl, rcs, m, pos, kw, kind, ignore_unknown_keys=True) != "fail":
            self.unknown_key[row] = True      # fails only because a keyword argument has a key no declaration knows (known finding K37)
        self.info[row] = {"recv": rcs, "kind": kind, "method": m, "pos": [sorted(x) for x in pos], "kw": {k: sorted(v) for k, v in kw.items()}, "verdict": verdict}
        rets = set()
        for c in rcs:
            d = mdl.decls(c, m, kind)
            if d is OPAQUE:
                rets.add(None)
                continue
            for p, r in d:
                rets.add(r)
        if verdict == "fit" and len(rets) == 1 and None not in rets:
            self.vars[res] = frozenset(rets)
        return row

    def stmt(self, depth=0):
        rng = self.rng
        r = rng.random()
        if self.nested and depth < 2 and r < 0.12:
            saved = dict(self.vars)
            style = rng.choice(["if", "each", "unless"])
            if style == "if":
                self.emit("if true")
            elif style == "unless":
                self.emit("unless false")
            else:
                self.emit("3.times do |q%d|" % len(self.lines))
            self.ind += 1
            for _ in range(rng.randint(1, 3)):
                self.stmt(depth + 1)
            self.ind -= 1
            self.emit("end")
            if style == "each":
                self.vars = saved          # block locals are gone after the block
            return
        if r < 0.5 or len(self.vars) < 2:
            self.new_var()
        else:
            self.call()

    def program(self, n):
        for _ in range(n):
            self.stmt()
        return "\n".join(self.lines) + "\n"

"""Generated configurations and call programs with a reference oracle (C07, C08, C09, C12).

The oracle works on *classes*: a value has a set of possible classes; a parameter accepts a set of classes (or everything).
A call `recv.m(args)` CERTAINLY FAILS when, for every possible receiver class and every declaration of m that class has
(own, overloaded or inherited through `extends`), the argument count is outside what the declaration accepts or some argument's
possible classes are all rejected by the parameter it binds to (no declaration at all counts as failing). It CERTAINLY FITS when
every possible receiver class has a declaration whose count is accepted and whose parameters accept every possible class of
every argument. Anything else is left free."""
import json

BASE = ["Int", "String", "Float", "Symbol", "Bool", "NilClass", "Array", "Hash"]
CLS = {"Int": "Integer", "String": "String", "Float": "Float", "Symbol": "Symbol", "Bool": "Bool", "NilClass": "NilClass", "Array": "Array", "Hash": "Hash"}
LITS = {"Integer": ["1", "42"], "String": ["'s'", "\"ab\""], "Float": ["1.5"], "Symbol": [":a"], "Bool": ["true", "false"], "NilClass": ["nil"],
        "Array": ["[1, 2]", "['a']"], "Hash": ["{a: 1}"]}
ANY = None


class Param:
    def __init__(self, kind, accepts, spec, key=None):
        self.kind, self.accepts, self.spec, self.key = kind, accepts, spec, key     # kind: req | opt | rest | key | optkey

    def ok(self, cls):
        return self.accepts is ANY or cls in self.accepts


def gen_type(rng, classes, allow_union=True):
    """(json type spec, accepted class set or ANY)"""
    r = rng.random()
    if r < 0.12:
        return "Untyped", ANY
    if r < 0.3 and classes:
        c = rng.choice(classes)
        return c, {c}
    if r < 0.5 and allow_union:
        k = rng.randint(2, 3)
        names = rng.sample(BASE + classes[:2], k)
        acc = set(CLS.get(n, n) for n in names)
        return ("|".join(names) if rng.random() < 0.5 else list(names)), acc
    b = rng.choice(BASE)
    return b, {CLS[b]}


def gen_method(rng, name, classes, ret=None):
    params, args = [], []
    nreq = rng.choice([0, 1, 1, 2, 3])
    for _ in range(nreq):
        spec, acc = gen_type(rng, classes)
        params.append(Param("req", acc, spec))
        args.append({"type": spec})
    for _ in range(rng.choice([0, 0, 1, 2])):
        spec, acc = gen_type(rng, classes, allow_union=False)
        style = rng.random()
        if isinstance(spec, str) and spec in ("Int", "String", "Float", "Untyped", "Bool") and style < 0.4:
            args.append({"type": "Default" + spec})
        elif style < 0.7:
            args.append({"type": "?" + spec})
        else:
            args.append({"type": spec, "is_default": True})
        params.append(Param("opt", acc, spec))
    if rng.random() < 0.2:
        spec, acc = gen_type(rng, classes, allow_union=False)
        if rng.random() < 0.5:
            args.append({"type": "*" + spec})
        else:
            args.append({"type": spec, "is_asterisk": True})
        params.append(Param("rest", acc, spec))
    if rng.random() < 0.2:
        for k in rng.sample(["alpha", "beta", "gamma"], rng.randint(1, 2)):
            spec, acc = gen_type(rng, classes, allow_union=False)
            if rng.random() < 0.5:
                args.append({"type": spec, "key": k + ":"})
                params.append(Param("key", acc, spec, k))
            else:
                args.append({"type": spec, "key": k + ":", "is_default": True})
                params.append(Param("optkey", acc, spec, k))
    if ret is None:
        ret = rng.choice(BASE[:6] + classes[:2])
    return {"name": name, "arguments": args, "return_type": {"type": ret}}, params, CLS.get(ret, ret)


class Model:
    def __init__(self):
        self.classes = {}      # name -> {"inst": {m: [(params, ret)]}, "static": {...}, "extends": [...]}
        self.files = {}

    def decls(self, cls, m, kind="inst", seen=None):
        seen = seen or set()
        if cls in seen or cls not in self.classes:
            return []
        seen.add(cls)
        own = self.classes[cls][kind].get(m)
        if own:
            return own
        for p in self.classes[cls]["extends"]:
            d = self.decls(p, m, kind, seen)
            if d:
                return d
        return []


def gen_config(rng, n=4, prefix="Kc", overloads=True):
    mdl = Model()
    names = ["%s%d" % (prefix, i) for i in range(n)]
    for i, name in enumerate(names):
        parent = [names[rng.randrange(i)]] if i > 0 and rng.random() < 0.4 else []
        ims, cms = [], [{"name": "new", "arguments": [], "return_type": {"type": name}}]
        info = {"inst": {}, "static": {"new": [([], name)]}, "extends": parent}
        for k in range(rng.randint(2, 5)):
            mname = "%s_m%d" % (name.lower(), k)
            d, params, ret = gen_method(rng, mname, names)
            ims.append(d)
            info["inst"].setdefault(mname, []).append((params, ret))
            if overloads and rng.random() < 0.2:
                d2, params2, ret2 = gen_method(rng, mname, names, ret=d["return_type"]["type"])
                ims.append(d2)
                info["inst"][mname].append((params2, ret2))
        for k in range(rng.randint(0, 2)):
            mname = "%s_c%d" % (name.lower(), k)
            d, params, ret = gen_method(rng, mname, names)
            cms.append(d)
            info["static"].setdefault(mname, []).append((params, ret))
        mdl.classes[name] = info
        mdl.files["%s.json" % name.lower()] = {"frame": "Builtin", "class": name, "instance_methods": ims, "class_methods": cms, "extends": parent}
    return mdl


def judge_decl(params, pos, kw):
    """pos: list of class sets; kw: dict key -> class set.  'fail' | 'fit' | 'free' against one declaration"""
    req = [p for p in params if p.kind == "req"]
    opt = [p for p in params if p.kind == "opt"]
    rest = [p for p in params if p.kind == "rest"]
    keys = {p.key: p for p in params if p.kind in ("key", "optkey")}
    n = len(pos)
    if n < len(req) or (not rest and n > len(req) + len(opt)):
        return "fail"
    for k in kw:
        if k not in keys:
            return "fail"
    for k, p in keys.items():
        if p.kind == "key" and k not in kw:
            return "fail"
    binding = []
    plist = req + opt
    for i, a in enumerate(pos):
        binding.append((plist[i] if i < len(plist) else rest[0], a))
    for k, a in kw.items():
        binding.append((keys[k], a))
    res = "fit"
    for p, a in binding:
        oks = [p.ok(c) for c in a]
        if not any(oks):
            return "fail"
        if not all(oks):
            res = "free"
    return res


def judge(mdl, recv_classes, m, pos, kw, kind="inst"):
    per = []
    for c in recv_classes:
        ds = mdl.decls(c, m, kind)
        if not ds:
            per.append("fail")
            continue
        rs = [judge_decl(p, pos, kw) for p, _ in ds]
        per.append("fit" if "fit" in rs else ("fail" if all(r == "fail" for r in rs) else "free"))
    if all(r == "fail" for r in per):
        return "fail"
    if all(r == "fit" for r in per):
        return "fit"
    return "free"


class ProgGen:
    def __init__(self, rng, mdl, errors=True):
        self.rng, self.mdl, self.errors = rng, mdl, errors
        self.lines = []
        self.vars = {}         # name -> frozenset of classes
        self.expect = {}       # row -> 'fail' | 'fit'
        self.info = {}         # row -> description

    def emit(self, s):
        self.lines.append(s)
        return len(self.lines)

    def value(self, want=None, union_ok=True):
        """(code, class set) preferably among `want` classes"""
        rng = self.rng
        cands = [v for v, cs in self.vars.items() if want is None or cs <= want]
        if cands and rng.random() < 0.5:
            v = rng.choice(cands)
            return v, self.vars[v]
        pool = sorted(want) if want else list(LITS) + list(self.mdl.classes)
        c = rng.choice(pool)
        if c in LITS:
            return rng.choice(LITS[c]), frozenset([c])
        if c in self.mdl.classes:
            return "%s.new" % c, frozenset([c])
        return "1", frozenset(["Integer"])

    def new_var(self):
        rng = self.rng
        name = "w%d" % len(self.vars)
        if rng.random() < 0.35:
            (a, ca), (b, cb) = self.value(), self.value()
            self.emit("%s = true ? %s : %s" % (name, a, b))
            self.vars[name] = frozenset(ca | cb)
            return name
        code, cs = self.value()
        self.emit("%s = %s" % (name, code))
        self.vars[name] = cs
        return name

    def call(self):
        rng, mdl = self.rng, self.mdl
        # receiver: a variable whose classes are all configured generated classes
        rc = [v for v, cs in self.vars.items() if cs and all(c in mdl.classes for c in cs)]
        if not rc:
            c = rng.choice(list(mdl.classes))
            v = "w%d" % len(self.vars)
            self.emit("%s = %s.new" % (v, c))
            self.vars[v] = frozenset([c])
            rc = [v]
        recv = rng.choice(rc)
        rcs = sorted(self.vars[recv])
        c0 = rng.choice(rcs)
        names = set()
        for c in rcs:
            seen, stack = set(), [c]
            while stack:
                x = stack.pop()
                if x in seen or x not in mdl.classes:
                    continue
                seen.add(x)
                names |= set(mdl.classes[x]["inst"])
                stack += mdl.classes[x]["extends"]
        mode = rng.random()
        if self.errors and mode < 0.08:
            m = "nope_%d" % len(self.lines)
        else:
            m = rng.choice(sorted(names))
        ds = mdl.decls(c0, m) or next((mdl.decls(c, m) for c in rcs if mdl.decls(c, m)), [])
        pos, kw, codes = [], {}, []
        if ds:
            params, _ = rng.choice(ds)
            wrong = self.errors and rng.random() < 0.3
            for p in params:
                if p.kind == "opt" and rng.random() < 0.5:
                    break
                if p.kind in ("key", "optkey"):
                    continue
                reps = rng.randint(0, 3) if p.kind == "rest" else 1
                for _ in range(reps):
                    want = None if p.accepts is ANY else frozenset(p.accepts)
                    if wrong and rng.random() < 0.5:
                        want = None
                    code, cs = self.value(want)
                    pos.append(cs)
                    codes.append(code)
            for p in params:
                if p.kind == "key" or (p.kind == "optkey" and rng.random() < 0.5):
                    if wrong and rng.random() < 0.3:
                        continue
                    want = None if p.accepts is ANY or (wrong and rng.random() < 0.5) else frozenset(p.accepts)
                    code, cs = self.value(want)
                    kw[p.key] = cs
                    codes.append("%s: %s" % (p.key, code))
            if wrong and rng.random() < 0.3:
                if rng.random() < 0.5 and codes and not kw:
                    codes.pop()
                    pos.pop()
                elif not kw:
                    code, cs = self.value()
                    pos.append(cs)
                    codes.append(code)
        verdict = judge(mdl, rcs, m, pos, kw)
        res = "w%d" % len(self.vars)
        row = self.emit("%s = %s.%s(%s)" % (res, recv, m, ", ".join(codes)) if codes else "%s = %s.%s" % (res, recv, m))
        if verdict != "free":
            self.expect[row] = verdict
        self.info[row] = {"recv": rcs, "method": m, "pos": [sorted(x) for x in pos], "kw": {k: sorted(v) for k, v in kw.items()}, "verdict": verdict}
        # result type: known only when it certainly fits and all declarations agree on the return class
        rets = set()
        for c in rcs:
            for p, r in mdl.decls(c, m):
                rets.add(r)
        if verdict == "fit" and len(rets) == 1:
            self.vars[res] = frozenset(rets)
        return row

    def program(self, n):
        for _ in range(n):
            if self.rng.random() < 0.45 or len(self.vars) < 2:
                self.new_var()
            else:
                self.call()
        return "\n".join(self.lines) + "\n"

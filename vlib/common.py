"""Shared plumbing for /verif checks: builds from /repo's working tree, extractor + lake build +
axiom audit, correspondence streams, black-box runs of `ti`, evidence / replay / known findings."""
import concurrent.futures as cf
import fcntl
import hashlib
import json
import os
import random
import re
import shutil
import subprocess
import sys
import tempfile
import time

VERIF = os.path.dirname(os.path.dirname(os.path.abspath(__file__)))
REPO = os.environ.get("VERIF_REPO", "/repo")
LEAN = os.path.join(VERIF, "lean")
BUILD = os.path.join(VERIF, ".build")
NCPU = os.cpu_count() or 4
ALLOWED_AXIOMS = {"propext", "Classical.choice", "Quot.sound"}

GOENV = dict(os.environ)
GOENV.update({"GOFLAGS": "-mod=mod", "GOPROXY": "off"})
for k in ("GOSUMDB", "GOTOOLCHAIN"):
    GOENV.pop(k, None)
GOENV.setdefault("GOCACHE", os.path.join(BUILD, "gocache"))


class Ctx:
    """One check run."""

    def __init__(self, pid, tier, seed):
        self.pid = pid
        self.tier = tier
        self.seed = seed
        self.t0 = time.time()
        self.tmp = tempfile.mkdtemp(prefix="verif-%s-" % pid, dir=os.environ.get("VERIF_TMP", "/tmp"))
        self.violations = []      # (replay_path, no_failing_input_found)
        self.known_hits = []
        self.cov = {"samples": [], "streams": {}, "layers": {}}
        self.obligations = []     # (name, ok, detail)
        self.assumptions = []
        self.rng = random.Random(seed * 1000003 + int(hashlib.sha1(pid.encode()).hexdigest()[:8], 16))
        self.ti = None
        self.godrv = None
        self.findings = load_findings(pid)

    def thorough(self):
        return self.tier == "thorough"

    def pick(self, quick, thorough):
        return thorough if self.thorough() else quick

    def cleanup(self):
        shutil.rmtree(self.tmp, ignore_errors=True)

    def sample(self, x):
        if len(self.cov["samples"]) < 8:
            self.cov["samples"].append(x)


def sh(cmd, cwd=None, env=None, timeout=1800, input=None):
    p = subprocess.run(cmd, cwd=cwd, env=env, timeout=timeout, input=input,
                       stdout=subprocess.PIPE, stderr=subprocess.PIPE, text=True, errors="replace")
    return p.returncode, p.stdout, p.stderr


class Lock:
    def __init__(self, name):
        os.makedirs(BUILD, exist_ok=True)
        self.path = os.path.join(BUILD, name + ".lock")

    def __enter__(self):
        self.f = open(self.path, "w")
        fcntl.flock(self.f, fcntl.LOCK_EX)

    def __exit__(self, *a):
        fcntl.flock(self.f, fcntl.LOCK_UN)
        self.f.close()


# ---------------------------------------------------------------- builds

def build_ti(ctx, tags="verif"):
    """Builds ti (and the two side tools on demand) from /repo's working tree into the run's temp dir."""
    out = os.path.join(ctx.tmp, "ti")
    rc, so, se = sh(["go", "build", "-tags", tags, "-o", out, "."], cwd=REPO, env=GOENV)
    if rc != 0:
        raise BuildError("go build ti failed:\n" + se)
    ctx.ti = out
    return out


def build_tool(ctx, pkg, name):
    out = os.path.join(ctx.tmp, name)
    rc, so, se = sh(["go", "build", "-tags", "verif", "-o", out, pkg], cwd=REPO, env=GOENV)
    if rc != 0:
        raise BuildError("go build %s failed:\n%s" % (pkg, se))
    return out


def build_godrv(ctx):
    out = os.path.join(ctx.tmp, "godrv")
    src = os.path.join(VERIF, "harness", "godrv")
    env = dict(GOENV)
    if REPO != "/repo":
        # replace directive points at /repo; use a scratch copy of the module with the path rewritten
        dst = os.path.join(ctx.tmp, "godrv-src")
        shutil.copytree(src, dst)
        gm = open(os.path.join(dst, "go.mod")).read().replace("=> /repo", "=> " + REPO)
        open(os.path.join(dst, "go.mod"), "w").write(gm)
        src = dst
    rc, so, se = sh(["go", "build", "-tags", "verif", "-o", out, "."], cwd=src, env=env)
    if rc != 0:
        raise BuildError("go build godrv failed:\n" + se)
    ctx.godrv = out
    return out


class BuildError(Exception):
    pass


def run_extract(ctx):
    """Regenerates lean/RubyTi/Gen from the working tree. Returns (ok, message)."""
    exe = os.path.join(ctx.tmp, "extract")
    rc, so, se = sh(["go", "build", "-o", exe, "."], cwd=os.path.join(VERIF, "tools", "extract"), env=GOENV)
    if rc != 0:
        raise BuildError("go build extract failed:\n" + se)
    rc, so, se = sh([exe, REPO, os.path.join(LEAN, "RubyTi", "Gen")])
    return rc == 0, (so + se).strip()


def lake_build(targets):
    rc, so, se = sh(["lake", "build"] + targets, cwd=LEAN, timeout=3000)
    return rc == 0, so + se


THEOREM_RE = re.compile(r"^\s*(?:protected\s+)?theorem\s+([A-Za-z0-9_.'!?]+)", re.M)
NS_RE = re.compile(r"^namespace\s+(\S+)", re.M)


def prop_theorems(pid):
    """Names (fully qualified) of the theorems in Props/<pid>.lean."""
    path = os.path.join(LEAN, "RubyTi", "Props", pid + ".lean")
    src = open(path).read()
    src_nc = re.sub(r"/-.*?-/", "", src, flags=re.S)
    src_nc = re.sub(r"--.*", "", src_nc)
    ns = NS_RE.search(src_nc)
    prefix = ns.group(1) + "." if ns else ""
    names = [prefix + m for m in THEOREM_RE.findall(src_nc)]
    bad = []
    for pat in (r"\bsorry\b", r"\badmit\b", r"^\s*axiom\s", r"native_decide", r"bv_decide", r"implemented_by",
                r"\bunsafe\s", r"maxHeartbeats\s+0\b"):
        if re.search(pat, src_nc, flags=re.M):
            bad.append(pat)
    return names, bad


def lean_sources_clean():
    """grep for forbidden constructs in every hand-written Lean file (comments stripped)."""
    bad = []
    for root, _, files in os.walk(LEAN):
        if ".lake" in root:
            continue
        for fn in files:
            if not fn.endswith(".lean"):
                continue
            src = open(os.path.join(root, fn)).read()
            src = re.sub(r"/-.*?-/", "", src, flags=re.S)
            src = re.sub(r"--.*", "", src)
            for pat in (r"\bsorry\b", r"\badmit\b", r"^\s*axiom\s", r"native_decide", r"bv_decide",
                        r"implemented_by", r"\bunsafe\s", r"maxHeartbeats\s+0\b"):
                if re.search(pat, src, flags=re.M):
                    bad.append("%s: %s" % (fn, pat))
    return bad


def prove(ctx, extra_modules=()):
    """Extractor + `lake build` of the property's theorem module + axiom audit.
    Records one obligation per property theorem. Returns True when everything checked."""
    pid = ctx.pid
    ok_all = True
    with Lock("lake"):
        ok, msg = run_extract(ctx)
        ctx.obligations.append(("extract:/repo->lean/RubyTi/Gen", ok, msg[-400:]))
        if not ok:
            return False
        mod = "RubyTi.Props." + pid
        ok, out = lake_build([mod, "driver"] + list(extra_modules))
        if not ok:
            errs = [l for l in out.splitlines() if "error" in l.lower()][:6]
            ctx.obligations.append(("lake build " + mod, False, "\n".join(errs)))
            # which theorems are affected is unknown: count all as undischarged
            try:
                names, _ = prop_theorems(pid)
            except Exception:
                names = []
            for n in names:
                ctx.obligations.append((n, False, "module failed to build"))
            ctx.failed_build_output = out
            return False
        names, bad = prop_theorems(pid)
        bad += lean_sources_clean()
        if bad:
            ctx.obligations.append(("no sorry/admit/axiom/native_decide", False, "; ".join(bad)))
            ok_all = False
        audit = os.path.join(ctx.tmp, "Audit.lean")
        with open(audit, "w") as f:
            f.write("import %s\n" % mod)
            for n in names:
                f.write("#print axioms %s\n" % n)
        rc, so, se = sh(["lake", "env", "lean", audit], cwd=LEAN, timeout=1200)
    if rc != 0:
        ctx.obligations.append(("axiom audit", False, (so + se)[-400:]))
        return False
    # parse: "'name' depends on axioms: [a, b]" or "'name' does not depend on any axioms"
    text = so.replace("\n ", " ").replace("\n  ", " ")
    found = {}
    for m in re.finditer(r"'(\S+?)' (does not depend on any axioms|depends on axioms: \[([^\]]*)\])", so.replace("\n", " ")):
        axs = set(a.strip() for a in (m.group(3) or "").split(",") if a.strip())
        found[m.group(1)] = axs
    for n in names:
        if n not in found:
            ctx.obligations.append((n, False, "not reported by #print axioms"))
            ok_all = False
            continue
        extra = found[n] - ALLOWED_AXIOMS
        ctx.obligations.append((n, not extra, "axioms: " + (", ".join(sorted(found[n])) or "none")))
        if extra:
            ok_all = False
    if not names:
        ctx.obligations.append(("property theorems present", False, "no theorem found"))
        ok_all = False
    return ok_all


# ---------------------------------------------------------------- streams

def lean_driver():
    return os.path.join(LEAN, ".lake", "build", "bin", "driver")


def run_lines(exe, lines, cwd=None, timeout=600, restart_on_hang=True):
    """Feeds op lines to a driver; returns the list of answer lines (same length). A driver that
    exits early (HANG / crash) is restarted after the op that killed it."""
    answers = []
    i = 0
    restarts = 0
    while i < len(lines):
        if restarts > 6:
            # the driver keeps dying: the remaining ops are not run (a violation is already established)
            answers.extend(["NOT-RUN"] * (len(lines) - len(answers)))
            break
        restarts += 1
        chunk = lines[i:]
        try:
            p = subprocess.run([exe], input="\n".join(chunk) + "\n", cwd=cwd, timeout=timeout,
                               stdout=subprocess.PIPE, stderr=subprocess.PIPE, text=True, errors="replace")
            out = p.stdout.split("\n")
            if out and out[-1] == "":
                out.pop()
        except subprocess.TimeoutExpired as e:
            out = (e.stdout or b"").decode(errors="replace").split("\n") if e.stdout else []
            if out and out[-1] == "":
                out.pop()
            out.append("DRIVER-TIMEOUT")
        if len(out) >= len(chunk):
            answers.extend(out[:len(chunk)])
            break
        # driver died after len(out) answers (last one may be HANG)
        answers.extend(out)
        if not out or out[-1] not in ("HANG", "DRIVER-TIMEOUT"):
            answers.append("DRIVER-DIED " + (p.stderr or "")[-200:].replace("\n", " ") if 'p' in dir() else "DRIVER-DIED")
        i = len(answers)
        if not restart_on_hang:
            answers.extend(["NOT-RUN"] * (len(lines) - len(answers)))
            break
    return answers


def run_stream(ctx, name, ops, cwd=None, shards=None):
    """Runs ops through the Go driver (real code) and the Lean driver (model) and compares.
    Returns list of (index, op, go_answer, lean_answer) disagreements."""
    if not ops:
        return []
    shards = shards or min(NCPU, max(1, len(ops) // 200))
    parts = [ops[i::shards] for i in range(shards)]
    t0 = time.time()
    with cf.ThreadPoolExecutor(max_workers=2 * shards) as ex:
        fg = [ex.submit(run_lines, ctx.godrv, p, cwd) for p in parts]
        fl = [ex.submit(run_lines, lean_driver(), p, None) for p in parts]
        rg = [f.result() for f in fg]
        rl = [f.result() for f in fl]
    dis = []
    for s in range(shards):
        for j, op in enumerate(parts[s]):
            a, b = rg[s][j], rl[s][j]
            if a != b:
                dis.append((s + j * shards, op, a, b))
    dis.sort()
    # the driver's per-op deadline is wall-clock time: on a busy machine an op can miss it without hanging.
    # An op answered HANG / DRIVER-TIMEOUT is run again alone with a long deadline; only a repeated hang counts.
    slow = [d for d in dis if d[2] in ("HANG", "DRIVER-TIMEOUT") or d[3] in ("HANG", "DRIVER-TIMEOUT")]
    if slow and len(slow) <= 50:
        env = dict(os.environ, GODRV_DEADLINE_MS="20000")
        kept = []
        for (k, op, a, b) in dis:
            if (k, op, a, b) in slow:
                try:
                    pa = subprocess.run([ctx.godrv], input=op + "\n", cwd=cwd, timeout=60, env=env, stdout=subprocess.PIPE, stderr=subprocess.PIPE, text=True, errors="replace")
                    a = (pa.stdout.split("\n") or ["DRIVER-DIED"])[0]
                    pb = subprocess.run([lean_driver()], input=op + "\n", timeout=60, stdout=subprocess.PIPE, stderr=subprocess.PIPE, text=True, errors="replace")
                    b = (pb.stdout.split("\n") or ["DRIVER-DIED"])[0]
                except subprocess.TimeoutExpired:
                    pass
                ctx.cov.setdefault("solo_reruns_of_slow_ops", 0)
                ctx.cov["solo_reruns_of_slow_ops"] += 1
                if a == b:
                    continue
            kept.append((k, op, a, b))
        dis = kept
    st = ctx.cov["streams"].setdefault(name, {"ops": 0, "disagreements": 0, "wall_s": 0.0})
    st["ops"] += len(ops)
    st["disagreements"] += len(dis)
    st["wall_s"] = round(st["wall_s"] + time.time() - t0, 2)
    return dis


# ---------------------------------------------------------------- running ti

def run_ti_once(ti, args, cwd, timeout=10, env=None):
    try:
        p = subprocess.run([ti] + args, cwd=cwd, timeout=timeout, env=env,
                           stdout=subprocess.PIPE, stderr=subprocess.PIPE)
        return p.returncode, p.stdout.decode(errors="replace"), p.stderr.decode(errors="replace")
    except subprocess.TimeoutExpired:
        return -9, "HARD-TIMEOUT\n", ""


class _RW:
    """Readers = ordinary parallel runs; writer = a solitary re-run of an input that printed `timeout`."""

    def __init__(self):
        import threading
        self.c = threading.Condition()
        self.readers = 0
        self.writer = False
        self.waiting = 0

    def r_acquire(self):
        with self.c:
            while self.writer or self.waiting:
                self.c.wait()
            self.readers += 1

    def r_release(self):
        with self.c:
            self.readers -= 1
            self.c.notify_all()

    def w_acquire(self):
        with self.c:
            self.waiting += 1
            while self.writer or self.readers:
                self.c.wait()
            self.waiting -= 1
            self.writer = True

    def w_release(self):
        with self.c:
            self.writer = False
            self.c.notify_all()


_rw = _RW()
SOLO_RERUNS = [0]


def is_timeout(rc, so):
    # the watchdog prints `timeout` and exits 1; when the analysis goroutine ends the process at the same moment
    # (editor modes call os.Exit themselves) the line is there with status 0
    # (and the goroutine may even print more lines after it): any bare `timeout` line is the watchdog's
    return (rc in (0, 1) and "timeout" in so.split("\n")) or rc == -9


def run_ti(ti, args, cwd, env=None):
    """Runs ti. A `timeout` answer is re-run alone (all other harness runs paused): the 500 ms
    wall-clock watchdog fires spuriously under load, so only a timeout that persists when the
    input runs by itself counts."""
    _rw.r_acquire()
    try:
        rc, so, se = run_ti_once(ti, args, cwd, env=env)
    finally:
        _rw.r_release()
    if not is_timeout(rc, so):
        return rc, so, se
    _rw.w_acquire()
    try:
        SOLO_RERUNS[0] += 1
        # other processes may keep the machine busy: several attempts, spaced out; a genuine hang times out every time
        for attempt in range(6):
            rc, so, se = run_ti_once(ti, args, cwd, env=env)
            if not is_timeout(rc, so):
                break
            time.sleep(0.4 * (attempt + 1))
    finally:
        _rw.w_release()
    return rc, so, se


def pmap(fn, items, workers=None):
    # process start-up of ti (config load) does not scale past ~6 concurrent runs in this sandbox
    workers = workers or min(NCPU, 6)
    with cf.ThreadPoolExecutor(max_workers=workers) as ex:
        return list(ex.map(fn, items))


def test_config_dir():
    return os.path.join(REPO, "test")


def make_workdir(ctx, name, config_src=None):
    """A directory holding `.ti-config` (copied) where ti can be run."""
    d = os.path.join(ctx.tmp, name)
    os.makedirs(d, exist_ok=True)
    src = config_src or os.path.join(REPO, "test", ".ti-config")
    dst = os.path.join(d, ".ti-config")
    if not os.path.exists(dst):
        shutil.copytree(src, dst)
    return d


def corpus_files():
    d = os.path.join(REPO, "test")
    return sorted(os.path.join(d, f) for f in os.listdir(d) if f.endswith(".rb"))


# ---------------------------------------------------------------- findings / violations / evidence

def load_findings(pid):
    path = os.path.join(VERIF, "known_findings.jsonl")
    out = []
    if os.path.exists(path):
        for line in open(path):
            line = line.strip()
            if not line or line.startswith("#"):
                continue
            try:
                e = json.loads(line)
            except Exception:
                continue
            if e.get("property") == pid:
                out.append(e)
    return out


def report_violation(ctx, replay, no_input=False):
    """Writes the replay file and prints the VIOLATION line."""
    d = os.path.join(VERIF, "replays", ctx.pid)
    os.makedirs(d, exist_ok=True)
    blob = json.dumps(replay, indent=1, sort_keys=True, ensure_ascii=False)
    h = hashlib.sha1(blob.encode()).hexdigest()[:12]
    path = os.path.join(d, h + ".json")
    with open(path, "w") as f:
        f.write(blob)
    line = "VIOLATION property=%s replay=%s" % (ctx.pid, path)
    if no_input:
        line += " no-failing-input-found"
    print(line, flush=True)
    ctx.violations.append((path, no_input))
    return path


def known_finding(ctx, finding, what):
    print("KNOWN-FINDING: property=%s %s" % (ctx.pid, what), flush=True)
    ctx.known_hits.append(finding.get("id", what))


def write_evidence(ctx, level, rule, extra=None, trusted=None, checker_cmd=None):
    ob = ctx.obligations
    cov = {
        "obligations": len(ob),
        "discharged": sum(1 for o in ob if o[1]),
        "obligation_list": [{"name": o[0], "ok": o[1], "detail": o[2]} for o in ob],
        "checker_cmd": checker_cmd or ("cd /verif/lean && lake build RubyTi.Props.%s && lake env lean <audit: #print axioms of every theorem>" % ctx.pid),
        "trusted_base": trusted or [],
        "rule": rule,
        "samples": ctx.cov["samples"] or ["(none)"],
        "streams": ctx.cov["streams"],
        "layers": ctx.cov["layers"],
        "known_findings_replayed": ctx.known_hits,
    }
    if ctx.cov.get("distribution"):
        cov["input_distribution"] = ctx.cov["distribution"]
    ops = sum(s["ops"] for s in ctx.cov["streams"].values())
    runs = sum(l.get("runs", 0) for l in ctx.cov["layers"].values())
    cov["evaluations"] = ops + runs
    cov["distinct_nontrivial"] = sum(l.get("distinct_nontrivial", 0) for l in ctx.cov["layers"].values()) + \
        sum(s.get("distinct", s["ops"]) for s in ctx.cov["streams"].values())
    cov["programs"] = ops + runs
    cov["disagreements_checked"] = sum(s["disagreements"] for s in ctx.cov["streams"].values())
    if extra:
        cov.update(extra)
    ev = {
        "property_id": ctx.pid,
        "tier": ctx.tier,
        "seed": ctx.seed,
        "level": level,
        "coverage": cov,
        "assumptions": ctx.assumptions,
        "wall_s": round(time.time() - ctx.t0, 2),
        "violations": len(ctx.violations),
    }
    os.makedirs(os.path.join(VERIF, "evidence"), exist_ok=True)
    with open(os.path.join(VERIF, "evidence", ctx.pid + ".json"), "w") as f:
        json.dump(ev, f, indent=1, ensure_ascii=False)


BASE_TRUST = [
    "Lean 4.33.0 kernel (lake build; thorough tier re-checks with leanchecker)",
    "axioms allowed: propext, Classical.choice, Quot.sound (audited with #print axioms on every property theorem)",
    "/verif/tools/extract (go/ast translator of data-like code into lean/RubyTi/Gen)",
    "correspondence check: /verif/harness/godrv (real code, -tags verif hooks) vs lean/Driver.lean (model) on generated ops",
    "-tags verif hooks in /repo (exported accessors only)",
]


def conclude(ctx, proof_ok, disagreements, failures, search=None, what=""):
    """Decision logic shared by all checks.
    failures: list of replay dicts for concrete inputs on which the implementation breaks the
    property (not covered by a known finding). disagreements: {stream: [(i, op, go, lean)]}.
    When a proof obligation or a stream is broken and no failing input is known yet, `search()`
    is run (a wider exploration of the implementation) and may return more failure replays."""
    broken = []
    if not proof_ok:
        broken += [o[0] for o in ctx.obligations if not o[1]]
    for name, dis in disagreements.items():
        if dis:
            broken.append("stream:" + name)
    if broken and not failures and search is not None:
        failures = list(search() or [])
    if failures:
        seen = set()
        for f in failures[:5]:
            key = json.dumps(f.get("key", f), sort_keys=True, default=str)
            if key in seen:
                continue
            seen.add(key)
            f = dict(f)
            f["property"] = ctx.pid
            if broken:
                f["broken_obligations"] = broken
            report_violation(ctx, f)
    elif broken:
        rep = {"property": ctx.pid, "kind": "proof-or-correspondence-broken", "no_longer_checks": broken,
               "obligations": [{"name": o[0], "detail": o[2]} for o in ctx.obligations if not o[1]],
               "disagreements": {n: [{"op": d[1][:2000], "impl": d[2][:2000], "model": d[3][:2000]} for d in ds[:3]]
                                 for n, ds in disagreements.items() if ds},
               "note": "the property is no longer shown to hold; no concrete failing input was found by the search"}
        report_violation(ctx, rep, no_input=True)

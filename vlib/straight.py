"""Straight-line programs with a reference model of the types C09 talks about (literals, array/hash literals, indexing with a literal
key, reassignment, push/<< growth, configured calls with plain / Self / Unify / OptionalUnify / KeyValueArray returns)."""

LIT = {"Integer": ["1", "42"], "String": ["'s'", "\"ab\""], "Float": ["1.5"], "Symbol": [":a"], "NilClass": ["nil"], "Bool": ["true", "false"]}
SAMPLE = {"Integer": "1", "String": "'a'", "Float": "1.5", "Symbol": ":a", "Bool": "true", "NilClass": "nil", "Array": "[1]", "Hash": "{a: 1}"}
RETKIND = {"Self": "SELF", "OptionalUnify": "OPTU", "KeyValueArray": "KVARR"}
PLAIN = {"Int": "Integer", "Integer": "Integer", "String": "String", "Float": "Float", "Symbol": "Symbol", "Bool": "Bool", "NilClass": "NilClass"}


def calls_from_config(cfgdir):
    """receiver class -> [(method, argument text, return)] read from the configuration: methods of the oracle's vocabulary (vlib/calls.py) whose
    required parameters can be filled with a sample literal and whose return is a plain class, Self, OptionalUnify or KeyValueArray"""
    import glob, json, os
    from . import calls
    mdl = calls.shipped_model(cfgdir)
    raw = {}
    for f in sorted(glob.glob(os.path.join(cfgdir, "*.json"))):
        try:
            d = json.load(open(f))
        except Exception:
            continue
        for m in d.get("instance_methods") or []:
            rt = (m.get("return_type") or {})
            t = rt.get("type")
            raw.setdefault((d.get("class"), m["name"]), []).append(([t] if isinstance(t, str) else list(t or []), rt))
    out = {}
    for cls in ("Integer", "Float", "String", "Symbol", "Array", "Hash"):
        for name, decls in sorted(mdl.classes.get(cls, {}).get("inst", {}).items()):
            rs = raw.get((cls, name), [])
            if len(decls) != 1 or len(rs) != 1 or name.endswith("!"):
                continue
            rts, rt = rs[0]
            if len(rts) != 1 or rt.get("is_conditional") or rt.get("is_destructive"):
                continue
            ret = RETKIND.get(rts[0]) or PLAIN.get(rts[0])
            if not ret:
                continue
            args = []
            ok = True
            for p in decls[0][0]:
                if p.kind != "req":
                    break
                if p.accepts is None:
                    args.append("1")
                    continue
                c = next((c for c in sorted(p.accepts) if c in SAMPLE), None)
                if c is None:
                    ok = False
                    break
                args.append(SAMPLE[c])
            if ok:
                out.setdefault(cls, []).append((name, ", ".join(args), ret))
    return out


def gen_extra_config(rng, calls):
    """a random configuration file adding methods with computed return kinds to Array / Hash / String; returns (files, calls')"""
    calls = {k: list(v) for k, v in calls.items()}
    files = {}
    kinds = {"Array": [("Self", "SELF"), ("Unify", "UNIFY"), ("OptionalUnify", "OPTU"), ("Argument", "ARG1"), ("Int|String", ("Integer", "String")), (["Float", "NilClass"], ("Float", "NilClass")),
                       ("[Int]", "ARR:Integer"), ("Symbol", "Symbol"), ("StringArray", "ARR:String"),
                       (["Unify", "NilClass"], "UNIFY+NilClass"), (["Symbol", "Unify"], "Symbol+UNIFY")],
             "Hash": [("Self", "SELF"), ("KeyValueArray", "KVARR"), ("Unify", "HUNIFY"), ("Argument", "ARG1"), ("Bool", "Bool"),
                      (["Unify", "NilClass"], "HUNIFY+NilClass"), (["Float", "Unify"], "Float+HUNIFY")],
             "String": [("Self", "String"), ("Argument", "ARG1"), ("Int|NilClass", ("Integer", "NilClass")), ("[String]", "ARR:String")]}
    for cls, ks in kinds.items():
        ms = []
        for i in range(rng.randint(2, 5)):
            spec, ret = rng.choice(ks)
            name = "gx%s%d_%d" % (cls[0].lower(), rng.randrange(100), i)
            args = [{"type": "Untyped"}] if ret == "ARG1" else []
            ms.append({"name": name, "arguments": args, "return_type": {"type": spec}})
            calls.setdefault(cls, []).append((name, "ARG" if ret == "ARG1" else "", ret))
        files["zz_extra_%s.json" % cls.lower()] = {"frame": "Builtin", "class": cls, "instance_methods": ms, "class_methods": []}
    return files, calls


def uniq(xs):
    """distinct rendered classes in first-occurrence order; union members (tuples) are flattened"""
    out = []
    for x in xs:
        for y in (x if isinstance(x, tuple) else (x,)):
            if y not in out:
                out.append(y)
    return out


class Arr:
    def __init__(self, elems):
        self.elems = uniq(elems)       # rendered scalar element types, first-occurrence order


class Hsh:
    def __init__(self, kv):
        self.kv = dict(kv)


def class_set(rendered):
    import re
    return frozenset(w for w in re.split(r"[<> ]+", rendered.replace("Union", " ")) if w)


def render(t):
    if isinstance(t, Arr):
        return "Array<%s>" % (" ".join(t.elems) if t.elems else "untyped")
    if isinstance(t, Hsh):
        return "Hash"
    if isinstance(t, tuple):
        return "Union<%s>" % " ".join(t)
    return t


def union(parts):
    parts = uniq(parts)
    return parts[0] if len(parts) == 1 else tuple(parts)


class Gen:
    def __init__(self, rng, calls):
        self.rng = rng
        self.CALLS = calls
        self.env = {}
        self.lines = []
        self.expect = {}      # row -> rendered type printed by dbtp
        self.binds = {}       # row -> rendered type of the -i bind hint
        self.setrows = set()  # rows whose type is compared as a SET of classes (merged hash values: the order of a merged union is not part of the statement)
        self.n = 0
        self.kinds = {}

    def fresh(self):
        self.n += 1
        return "s%d" % self.n

    def count(self, k):
        self.kinds[k] = self.kinds.get(k, 0) + 1

    def scalar(self):
        """(code, type) of a scalar literal or scalar variable"""
        vs = [v for v, t in self.env.items() if isinstance(t, str)]
        if vs and self.rng.random() < 0.4:
            v = self.rng.choice(vs)
            return v, self.env[v]
        c = self.rng.choice(list(LIT))
        return self.rng.choice(LIT[c]), c

    def assign(self, v, code, t, kind):
        self.lines.append("%s = %s" % (v, code))
        self.env[v] = t
        self.binds[len(self.lines)] = render(t)
        self.count(kind)

    def probe(self, v):
        self.lines.append("dbtp %s" % v)
        self.expect[len(self.lines)] = render(self.env[v])

    def step(self):
        rng = self.rng
        arrs = [v for v, t in self.env.items() if isinstance(t, Arr)]
        hashes = [v for v, t in self.env.items() if isinstance(t, Hsh) and t.kv]
        r = rng.random()
        v = self.fresh()
        if r < 0.15:
            code, t = self.scalar()
            self.assign(v, code, t, "literal")
        elif r < 0.30:
            items = [self.scalar() for _ in range(rng.randint(1, 4))]
            self.assign(v, "[%s]" % ", ".join(c for c, _ in items), Arr([t for _, t in items]), "array-literal")
        elif r < 0.38:
            keys = rng.sample(["a", "b", "c", "d"], rng.randint(1, 3))
            items = [(k,) + self.scalar() for k in keys]
            self.assign(v, "{%s}" % ", ".join("%s: %s" % (k, c) for k, c, _ in items), Hsh([(k, t) for k, _, t in items]), "hash-literal")
        elif r < 0.46 and self.env:
            u = rng.choice(list(self.env))
            if isinstance(self.env[u], (Arr, Hsh)) and rng.random() < 0.7:
                u = rng.choice([x for x, t in self.env.items() if isinstance(t, (str, tuple))] or [u])
            t = self.env[u]
            if isinstance(t, Arr):
                t = Arr(t.elems)            # the variable has the type of its most recent assignment: later growth of `u` is not its concern
            self.assign(v, u, t, "copy")
        elif r < 0.56 and arrs:
            a = rng.choice(arrs)
            t = self.env[a]
            if not t.elems:
                return
            self.assign(v, "%s[%d]" % (a, rng.randint(0, 2)), union(t.elems), "index")
        elif r < 0.64 and hashes:
            h = rng.choice(hashes)
            k = rng.choice(list(self.env[h].kv))
            self.assign(v, "%s[:%s]" % (h, k), self.env[h].kv[k], "hash-lookup")
        elif r < 0.74 and arrs:
            a = rng.choice(arrs)
            code, t = self.scalar()
            if rng.random() < 0.5:
                self.lines.append("%s << %s" % (a, code))
            else:
                self.lines.append("%s.push(%s)" % (a, code))
            self.env[a].elems = uniq(self.env[a].elems + [t])
            self.count("push")
            self.probe(a)
            return
        elif r < 0.76 and self.env:
            # an array of hash literals that share keys: the element is one hash whose value for a key is the union of what the literals hold
            vals = [(x, t) for x, t in self.env.items() if isinstance(t, (str, tuple))]
            if not vals:
                return
            keys = rng.sample(["a", "b", "c"], rng.randint(1, 2))
            merged = {}
            lits = []
            for _ in range(rng.randint(2, 3)):
                parts = []
                for k in keys:
                    if rng.random() < 0.85:
                        x, t = rng.choice(vals)
                        parts.append("%s: %s" % (k, x))
                        merged.setdefault(k, [])
                        merged[k] += list(t) if isinstance(t, tuple) else [t]
                lits.append("{%s}" % ", ".join(parts))
            if not merged:
                return
            self.lines.append("%s = [%s]" % (v, ", ".join(lits)))
            self.binds[len(self.lines)] = "Array<Hash>"
            self.count("array-of-hashes")
            h = self.fresh()
            self.lines.append("%s = %s[%d]" % (h, v, rng.randint(0, 1)))
            self.count("index")
            hs = Hsh([(k, union(cs)) for k, cs in merged.items()])
            self.env[h] = hs
            self.binds[len(self.lines)] = "Hash"
            for k in merged:
                p = self.fresh()
                self.assign(p, "%s[:%s]" % (h, k), hs.kv[k], "hash-lookup")
                self.setrows.add(len(self.lines))
                self.probe(p)
                self.setrows.add(len(self.lines))
                del self.env[p]          # its variant order is ti's, not the reference's: not used further
            return
        elif r < 0.80 and self.env:
            vs = [x for x, t in self.env.items() if isinstance(t, str)]
            if len(vs) < 2:
                return
            a, b = rng.sample(vs, 2)
            self.assign(v, "true ? %s : %s" % (a, b), union([self.env[a], self.env[b]]), "ternary")
        else:
            cands = [(x, t) for x, t in self.env.items() if (t if isinstance(t, str) else ("Array" if isinstance(t, Arr) else "Hash" if isinstance(t, Hsh) else None)) in self.CALLS]
            if not cands:
                return
            x, t = rng.choice(cands)
            cls = t if isinstance(t, str) else ("Array" if isinstance(t, Arr) else "Hash")
            gx = [c for c in self.CALLS[cls] if c[0].startswith("gx")]
            m, args, ret = rng.choice(gx) if gx and rng.random() < 0.5 else rng.choice(self.CALLS[cls])
            if args == "ARG":
                args, at = self.scalar()
            if ret == "ARG1":
                rt = at
            elif isinstance(ret, tuple):
                rt = union(list(ret))
            elif ret.startswith("ARR:"):
                rt = Arr([ret[4:]])
            elif "+" in ret:
                # a declared union with a computed member (like Hash#delete: [Unify, NilClass]): the member is resolved, the result is one flat union
                parts = []
                for part in ret.split("+"):
                    if part == "UNIFY":
                        parts += t.elems
                    elif part == "HUNIFY":
                        parts += list(t.kv.values())
                    else:
                        parts.append(part)
                if (isinstance(t, Arr) and not t.elems) or (not isinstance(t, Arr) and not t.kv):
                    return
                rt = union(parts)
            elif ret == "UNIFY":
                rt = union(t.elems) if t.elems else "untyped"
            elif ret == "HUNIFY":
                rt = union(list(t.kv.values())) if t.kv else "untyped"
            elif ret == "SELF":
                rt = Arr(t.elems) if isinstance(t, Arr) else t
            elif ret == "OPTU":
                if not t.elems:
                    return
                rt = union(t.elems + ["NilClass"])
            elif ret == "KVARR":
                rt = Arr(list(t.kv.values()))
            else:
                rt = ret
            self.assign(v, "%s.%s%s" % (x, m, "(%s)" % args if args else ""), rt, "call-" + (ret if isinstance(ret, str) and ret.isupper() else "union" if isinstance(ret, tuple) else "plain"))
        self.probe(v)

    def program(self, n):
        for _ in range(n):
            self.step()
            if self.rng.random() < 0.15 and self.env:
                self.probe(self.rng.choice(list(self.env)))      # an older variable: most recent assignment still holds
        return "\n".join(self.lines) + "\n"

"""Program generators shared by the end-to-end layers (typed grammar, bounded)."""


def determinism_programs(rng, n):
    """Programs whose signatures tie on (method, class, frame): class+instance method of one name,
    same class name in two namespaces, methods called from several sites."""
    out = []
    for i in range(n):
        lines = []
        ncls = rng.randint(1, 3)
        for c in range(ncls):
            cname = ["Aa", "Base", "Cc"][c]
            wrap = rng.random() < 0.4
            if wrap:
                lines.append("module Mm%d" % c)
            lines.append("class %s" % cname)
            for m in range(rng.randint(1, 3)):
                mname = ["go", "run", "stop"][m]
                if rng.random() < 0.6:
                    lines.append("  def self.%s(x)\n    x\n  end" % mname)
                lines.append("  def %s(x, y = 1)\n    %s\n  end" % (mname, rng.choice(["x", "y", "go(1)" if mname != "go" else "1", "'s'"])))
            lines.append("end")
            if wrap:
                lines.append("end")
        lines.append("class Base\n  def go(z)\n    z\n  end\nend")
        lines.append("a = Aa.new")
        lines.append("a.go(1)")
        lines.append("a.go('s')")
        lines.append("Aa.go(2) if a")
        lines.append("b = Base.new\nb.go(1)")
        lines.append("# ti-for-llm: note %d" % i)
        out.append("\n".join(lines) + "\n")
    return out

"""Program generators shared by the end-to-end layers (typed grammar over the configured builtin classes, bounded).

Levels: L0 straight-line (literals, locals, ternary unions, array/hash literals, indexing, configured calls);
L1 + if/unless/elsif/else with nil?/is_a?/== conditions; L2 + blocks; L3 + user methods; L4 + classes/modules.
`rich=True` adds constructs used only by the robustness properties (safe navigation, case/when, while, begin/rescue, attr_*).
Every random choice comes from the rng passed in."""
import glob
import json
import os
import re

LIT = {
    "Integer": ["1", "42", "0", "7"],
    "String": ["'s'", "\"ab\"", "'x y'"],
    "Float": ["1.5", "0.25"],
    "NilClass": ["nil"],
    "Symbol": [":a", ":key"],
    "Bool": ["true", "false"],
    "Array": ["[1, 2]", "['a']", "[]", "[1, 'a']", "[[1], [2]]"],
    "Hash": ["{a: 1}", "{}", "{a: 1, b: 's'}"],
    "Range": ["(1..3)"],
}
TYPEMAP = {"Int": "Integer", "Integer": "Integer", "String": "String", "Float": "Float", "NilClass": "NilClass", "Symbol": "Symbol",
           "Bool": "Bool", "Array": "Array", "Hash": "Hash", "Range": "Range", "DefaultInt": "Integer", "DefaultString": "String",
           "DefaultFloat": "Float", "DefaultBool": "Bool", "IntArray": "Array", "StringArray": "Array", "FloatArray": "Array"}
IDENT = re.compile(r"^[a-z_][a-z0-9_]*[?!]?$")


class Config:
    def __init__(self, cfgdir):
        self.classes = {}
        for f in sorted(glob.glob(os.path.join(cfgdir, "*.json"))):
            try:
                d = json.load(open(f))
            except Exception:
                continue
            if d.get("frame") != "Builtin":
                continue
            c = self.classes.setdefault(d.get("class", ""), {"inst": {}, "static": {}, "extends": d.get("extends") or []})
            for kind, key in (("inst", "instance_methods"), ("static", "class_methods")):
                for m in d.get(key) or []:
                    c[kind].setdefault(m["name"], []).append(m)

    def methods(self, cls, kind="inst", seen=None):
        seen = seen or set()
        if cls in seen or cls not in self.classes:
            return {}
        seen.add(cls)
        out = {}
        for p in self.classes[cls]["extends"]:
            out.update(self.methods(p.split("::")[-1], kind, seen))
        out.update(self.classes[cls][kind])
        return out


def _types(spec):
    t = spec.get("type") if isinstance(spec, dict) else None
    if t is None:
        return []
    return [t] if isinstance(t, str) else list(t)


class Gen:
    def __init__(self, rng, cfg, level=2, rich=False, prefix="v"):
        self.rng, self.cfg, self.level, self.rich, self.prefix = rng, cfg, level, rich, prefix
        self.env = {}          # var -> type name or None (unknown) or tuple of types (union)
        self.n = 0
        self.lines = []
        self.methods = []      # user methods: (name, nparams)
        self.classes = []      # user classes: (name, [methods])

    # ---- expressions
    def fresh(self):
        self.n += 1
        return "%s%d" % (self.prefix, self.n)

    def lit(self, t=None):
        t = t or self.rng.choice(list(LIT))
        return self.rng.choice(LIT[t]), t

    def var_of(self, t=None):
        c = [v for v, vt in self.env.items() if (t is None and vt is not None and not isinstance(vt, tuple)) or vt == t]
        return self.rng.choice(c) if c else None

    def atom(self, t=None):
        v = self.var_of(t)
        if v and self.rng.random() < 0.6:
            return v, self.env[v]
        return self.lit(t)

    def arg_for(self, spec, ok=True):
        ts = [TYPEMAP.get(x.lstrip("?*")) for x in _types(spec)]
        ts = [x for x in ts if x]
        if not ok or not ts:
            return self.atom()[0]
        return self.atom(self.rng.choice(ts))[0]

    def call(self, recv, rtype, want_block=False):
        ms = self.cfg.methods(rtype)
        names = [n for n, ds in ms.items() if IDENT.match(n) and n not in ("class", "p", "puts", "loop", "require", "raise", "sleep", "exit")
                 and bool(ds[0].get("block_parameters")) == want_block]
        if not names:
            return None
        name = self.rng.choice(names)
        d = self.rng.choice(ms[name])
        args = d.get("arguments") or []
        ok = self.rng.random() < 0.75
        vals = []
        for a in args:
            if a.get("key"):
                if ok or self.rng.random() < 0.5:
                    vals.append("%s %s" % (a["key"], self.arg_for(a, ok)))
                continue
            ts = _types(a)
            if (a.get("is_default") or any(x.startswith("?") or x.startswith("Default") for x in ts)) and self.rng.random() < 0.5:
                break
            vals.append(self.arg_for(a, ok))
        if not ok and self.rng.random() < 0.4:
            vals.append(self.atom()[0]) if self.rng.random() < 0.5 else (vals and vals.pop())
        rts = [TYPEMAP.get(x) for x in _types(d.get("return_type", {}))]
        rt = rts[0] if len(rts) == 1 and rts[0] and not d.get("return_type", {}).get("is_conditional") else None
        sep = "&." if self.rich and self.rng.random() < 0.15 else "."
        style = self.rng.random()
        if not vals:
            code = "%s%s%s" % (recv, sep, name)
        elif style < 0.75:
            code = "%s%s%s(%s)" % (recv, sep, name, ", ".join(vals))
        else:
            code = "%s%s%s %s" % (recv, sep, name, ", ".join(vals))
        return code, rt, d

    def expr(self, depth=0):
        r = self.rng.random()
        if depth > 1 or r < 0.3:
            return self.atom()
        if r < 0.45:
            a, ta = self.atom()
            b, tb = self.atom()
            cond = self.var_of("Bool") or self.rng.choice(["true", "false"])
            return "%s ? %s : %s" % (cond, a, b), (ta if ta == tb else (ta, tb))
        if r < 0.55:
            items = [self.atom()[0] for _ in range(self.rng.randint(0, 3))]
            return "[%s]" % ", ".join(items), "Array"
        if r < 0.62:
            items = ["%s: %s" % (k, self.atom()[0]) for k in self.rng.sample(["a", "b", "c"], self.rng.randint(1, 2))]
            return "{%s}" % ", ".join(items), "Hash"
        if r < 0.7:
            v = self.var_of("Array")
            if v:
                return "%s[%s]" % (v, self.rng.choice(["0", "1", "-1"])), None
            v = self.var_of("Hash")
            if v:
                return "%s[:%s]" % (v, self.rng.choice(["a", "b", "zz"])), None
        if r < 0.8 and self.rich:
            a, ta = self.atom(self.rng.choice(["Integer", "Float", "String"]))
            b, tb = self.atom(self.rng.choice(["Integer", "Float", "String"]))
            return "%s %s %s" % (a, self.rng.choice(["+", "-", "*", "<", "=="]), b), None
        v = self.var_of()
        if v is None:
            return self.atom()
        c = self.call(v, self.env[v])
        if c is None:
            return self.atom()
        return c[0], c[1]

    # ---- statements
    def emit(self, s, ind=0):
        for l in s.split("\n"):
            self.lines.append("  " * ind + l)

    def st_assign(self, ind=0):
        v = self.fresh() if (not self.env or self.rng.random() < 0.7) else self.rng.choice(list(self.env))
        code, t = self.expr()
        self.emit("%s = %s" % (v, code), ind)
        self.env[v] = t

    def st_probe(self, ind=0):
        if self.env:
            self.emit("dbtp %s" % self.rng.choice(list(self.env)), ind)

    def st_call(self, ind=0):
        v = self.var_of()
        if v:
            c = self.call(v, self.env[v])
            if c:
                self.emit(c[0], ind)
                return
        self.st_assign(ind)

    def cond(self):
        vs = [v for v, t in self.env.items() if isinstance(t, tuple)] or list(self.env)
        if not vs:
            return "true", None
        v = self.rng.choice(vs)
        r = self.rng.random()
        if r < 0.4:
            return ("%s.nil?" % v if self.rng.random() < 0.7 else "!%s.nil?" % v), v
        if r < 0.7:
            return "%s.is_a?(%s)" % (v, self.rng.choice(["Integer", "String", "Float", "NilClass"])), v
        return "%s == %s" % (v, self.lit()[0]), v

    def body(self, ind, n=None):
        for _ in range(n or self.rng.randint(1, 3)):
            self.stmt(ind, nested=True)

    def st_if(self, ind=0):
        kw = self.rng.choice(["if", "if", "unless"])
        c, v = self.cond()
        self.emit("%s %s" % (kw, c), ind)
        saved = dict(self.env)
        self.body(ind + 1)
        if kw == "if" and self.rng.random() < 0.3:
            c2, _ = self.cond()
            self.emit("elsif %s" % c2, ind)
            self.body(ind + 1, 1)
        if self.rng.random() < 0.5:
            self.emit("else", ind)
            self.body(ind + 1, 1)
        self.emit("end", ind)
        # variables first assigned inside keep an unknown type afterwards
        for k in self.env:
            if k not in saved:
                self.env[k] = None

    def st_block(self, ind=0):
        v = self.var_of("Array") or self.var_of("Hash") or self.var_of("Range") or self.var_of("Integer") or self.var_of("String")
        if not v:
            return self.st_assign(ind)
        c = self.call(v, self.env[v], want_block=True)
        if not c:
            return self.st_assign(ind)
        code, rt, d = c
        nb = len(d.get("block_parameters") or [])
        k = self.rng.choice([nb, nb, max(0, nb - 1), nb + 1])
        params = [self.fresh() for _ in range(k)]
        saved = dict(self.env)
        for p in params:
            self.env[p] = None
        brace = self.rng.random() < 0.3
        head = "%s %s%s" % (code, "{" if brace else "do", (" |%s|" % ", ".join(params)) if params else "")
        if self.rng.random() < 0.4:
            head = "%s = %s" % (self.fresh(), head)
        self.emit(head, ind)
        self.body(ind + 1, self.rng.randint(1, 2))
        self.emit("}" if brace else "end", ind)
        self.env = {k2: (saved.get(k2)) for k2 in saved}

    def st_def(self, ind=0):
        name = "m_%s" % self.fresh()
        k = self.rng.randint(0, 3)
        params = [self.fresh() for _ in range(k)]
        decl = []
        for i, p in enumerate(params):
            decl.append(p if i < 2 or self.rng.random() < 0.5 else "%s = %s" % (p, self.lit()[0]))
        saved, self.env = self.env, {p: None for p in params}
        self.emit("def %s(%s)" % (name, ", ".join(decl)), ind)
        self.body(ind + 1, self.rng.randint(1, 3))
        if self.rng.random() < 0.3 and self.env:
            self.emit("return %s" % self.atom()[0], ind + 1)
        self.emit("end", ind)
        self.env = saved
        self.methods.append((name, k))

    def st_usercall(self, ind=0):
        if not self.methods:
            return self.st_assign(ind)
        name, k = self.rng.choice(self.methods)
        args = [self.atom()[0] for _ in range(self.rng.choice([k, k, max(0, k - 1), k + 1]))]
        v = self.fresh()
        self.emit("%s = %s(%s)" % (v, name, ", ".join(args)), ind)
        self.env[v] = None

    def st_class(self, ind=0):
        name = "K%s" % self.fresh()
        parent = self.rng.choice([c[0] for c in self.classes]) if self.classes and self.rng.random() < 0.5 else None
        self.emit("class %s%s" % (name, " < " + parent if parent else ""), ind)
        ms = []
        saved, self.env = self.env, {}
        if self.rng.random() < 0.5:
            self.emit("def initialize(a = 1)\n  @a = a\nend", ind + 1)
        if self.rich and self.rng.random() < 0.3:
            self.emit("attr_accessor :b", ind + 1)
        for _ in range(self.rng.randint(1, 3)):
            if self.rng.random() < 0.2:
                self.emit(self.rng.choice(["private", "protected", "public"]), ind + 1)
            m = "f_%s" % self.fresh()
            static = self.rng.random() < 0.25
            self.emit("def %s%s(x = nil)" % ("self." if static else "", m), ind + 1)
            self.env = {"x": None}
            self.body(ind + 2, self.rng.randint(1, 2))
            self.emit("end", ind + 1)
            ms.append((m, static))
        self.emit("end", ind)
        self.env = saved
        self.classes.append((name, ms))
        o = self.fresh()
        self.emit("%s = %s.new" % (o, name), ind)
        self.env[o] = None
        m, static = self.rng.choice(ms)
        self.emit("%s.%s" % (name if static else o, m), ind)

    def st_rich(self, ind=0):
        r = self.rng.random()
        if r < 0.2:
            v = self.fresh()
            self.emit("%s = nil\n%s&.%s" % (v, v, self.rng.choice(["name", "to_s", "foo", "size"])), ind)
            self.env[v] = "NilClass"
        elif r < 0.4:
            a = self.atom()[0]
            self.emit("case %s\nwhen %s\n  %s\nelse\n  %s\nend" % (a, self.lit()[0], self.atom()[0], self.atom()[0]), ind)
        elif r < 0.55:
            v = self.var_of("Integer") or "1"
            self.emit("while %s < 3\n  %s\nend" % (v, self.atom()[0]), ind)
        elif r < 0.7:
            self.emit("begin\n  %s\nrescue => e\n  %s\nend" % (self.atom()[0], self.atom()[0]), ind)
        elif r < 0.85:
            v = self.var_of("Hash") or "{a: 1}"
            self.emit("case %s\nin {a:}\n  dbtp a\nend" % v, ind)
        else:
            self.emit("%s %s %s" % (self.atom()[0], self.rng.choice(["&&", "||", "and", "or"]), self.atom()[0]), ind)

    def stmt(self, ind=0, nested=False):
        r = self.rng.random()
        lv = self.level
        if r < 0.30:
            self.st_assign(ind)
        elif r < 0.42:
            self.st_probe(ind)
        elif r < 0.55:
            self.st_call(ind)
        elif r < 0.65 and lv >= 1 and ind < 3:
            self.st_if(ind)
        elif r < 0.73 and lv >= 2 and ind < 3:
            self.st_block(ind)
        elif r < 0.80 and lv >= 3 and not nested:
            self.st_def(ind)
        elif r < 0.86 and lv >= 3:
            self.st_usercall(ind)
        elif r < 0.91 and lv >= 4 and not nested:
            self.st_class(ind)
        elif r < 0.97 and self.rich:
            self.st_rich(ind)
        else:
            self.st_assign(ind)

    def program(self, nstmts):
        for _ in range(3):
            self.st_assign()
        for _ in range(nstmts):
            self.stmt()
        return "\n".join(self.lines) + "\n"


_CFG = {}


def config(cfgdir):
    if cfgdir not in _CFG:
        _CFG[cfgdir] = Config(cfgdir)
    return _CFG[cfgdir]


def gen_program(rng, cfgdir, level=2, rich=False, nstmts=None, prefix="v"):
    g = Gen(rng, config(cfgdir), level=level, rich=rich, prefix=prefix)
    return g.program(nstmts or rng.randint(4, 10))


def determinism_programs(rng, n):
    """Programs whose signatures tie on (method, class, frame) or differ only by frame: class+instance method of one
    name, the same class/method/signature in two namespaces, methods called from several sites."""
    out = []
    for i in range(n):
        lines = []
        ncls = rng.randint(1, 3)
        for c in range(ncls):
            cname = ["Aa", "Base", "Cc"][c]
            wrap = rng.random() < 0.4
            if wrap:
                lines.append("module Mm%d" % c)
            lines.append("class %s" % cname)
            for m in range(rng.randint(1, 3)):
                mname = ["go", "run", "stop"][m]
                if rng.random() < 0.6:
                    lines.append("  def self.%s(x)\n    x\n  end" % mname)
                lines.append("  def %s(x, y = 1)\n    %s\n  end" % (mname, rng.choice(["x", "y", "go(1)" if mname != "go" else "1", "'s'"])))
            lines.append("end")
            if wrap:
                lines.append("end")
        # the same class, method and signature in two modules (they differ only by frame)
        body = rng.choice(["x", "'s'", "1"])
        for mod in ("Alpha", "Beta", "Gamma")[: rng.randint(2, 3)]:
            doc = "  # ti-doc: %s codec\n" % mod if rng.random() < 0.6 else ""
            lines.append("module %s\n  class Codec\n%s    def encode(x)\n      %s\n    end\n  end\nend" % (mod, doc.replace("  #", "    #"), body))
        lines.append("c1 = Alpha::Codec.new\nc1.encode(1)\nc2 = Beta::Codec.new\nc2.encode(1)")
        lines.append("class Base\n  def go(z)\n    z\n  end\nend")
        lines.append("a = Aa.new")
        lines.append("a.go(1)")
        lines.append("a.go('s')")
        lines.append("Aa.go(2) if a")
        lines.append("b = Base.new\nb.go(1)")
        lines.append("# ti-for-llm: note %d" % i)
        out.append("\n".join(lines) + "\n")
    return out

"""Metamorphic end-to-end helpers: run ti on program variants and compare outputs up to a row mapping."""
import os
import re
from . import common

LINE = re.compile(r"^(@?)(.+?):::(-?\d+):::(.*)$", re.S)


def outputs(ctx, wd, name, flagsets, env=None):
    """[(rc, stdout, crashed)] per flag set; the file name is normalised to F."""
    res = []
    for fl in flagsets:
        rc, so, se = common.run_ti(ctx.ti, [name] + fl, wd, env=env)
        res.append((rc, so.replace(name, "F"), ("panic:" in se or "fatal error" in se)))
    return res


def parse(so):
    """stdout -> list of (prefix, row, rest) for record lines, ('?', None, line) otherwise."""
    out = []
    for line in so.split("\n"):
        if line == "":
            continue
        m = LINE.match(line)
        if m:
            out.append((m.group(1), int(m.group(3)), m.group(4)))
        else:
            out.append(("?", None, line))
    return out


def shift_rows(records, at_row, k):
    """rows >= at_row move by k"""
    return [(p, (r + k if (r is not None and r >= at_row) else r), rest) for p, r, rest in records]


def unusable(outs):
    """a run that crashed or timed out cannot be used as a metamorphic baseline (C01/C02 handle those)"""
    return any(rc != 0 or crashed or "timeout" in so.split("\n") for rc, so, crashed in outs)


def write(wd, name, text):
    with open(os.path.join(wd, name), "w") as f:
        f.write(text)


STD_FLAGS = [[], ["-i"]]

"""Single source for MANIFEST.json."""
import json, os, subprocess

CHECKS = {
    "C03": dict(
        category="proof",
        text="Lean 4 theorems over a model of lexer.go/reader.go for ALL rune sequences: every Advance strictly consumes pending input, "
             "the token loop reaches end-of-stream within |input|+1 steps, produces at most |input| tokens, leaves nothing pending, and every "
             "token has a kind parser.Read accepts (no `read error`, no failing type assertion, no empty identifier). The model is tied to the "
             "working tree by regenerated tables (switch labels, token constants, Unicode ranges; `tables_match` is re-checked by lake) and by a "
             "differential stream that runs the real lexer/reader and the model on thousands of generated rune strings per run.",
        design="DESIGN.md §4 C03",
        note="Trusted: Lean kernel; axioms propext/Classical.choice/Quot.sound only; extractor; stream generators' reach; verif hooks; "
             "the lexer model works on the reader's pending-rune abstraction (refinement lemmas for Read/Unread/AppendHistory proved, glue validated by the stream). "
             "Not modelled: ti-doc comment capture, numeric literal values, UTF-8 decoding.",
        technique="Lean 4 proof (structural/well-founded recursion, fun_induction) + regenerated tables + differential correspondence stream",
    ),
    "C01": dict(
        category="proof",
        text="Partial by nature: Go runtime panics inside the unmodelled token-driven evaluators cannot be excluded by a theorem about a model. Proved in Lean for all inputs and all client call sequences: "
             "the lexer/parser token layer never reports `read error` nor fails a type assertion, identifiers are never empty, TypeToString has a case for every tag, "
             "and every Is/Has predicate on *T is nil-safe or reviewed (tables regenerated from the source each run). The model is tied by the lex/tok differential streams. "
             "Evaluator crashes are searched black-box (prefixes, token mutations, random runes; ti and ti -i; exit status, stderr, line grammar), keyed by site.",
        design="DESIGN.md §4 C01",
        note="Trusted: Lean kernel, allowed axioms only, extractor, streams, hooks. NOT proved: absence of nil/bounds/assertion panics in eval/*.go (black-box only), stack overflow, OOM.",
        technique="Lean 4 proof of the token-layer core + regenerated tables (decide) + differential streams; black-box crash search keyed by site",
    ),
    "C02": dict(
        category="proof",
        text="Lean: every loop of lexer.go is a structural recursion and each successful Advance consumes input; for EVERY sequence of Read/Unget/Skip/ReadAhead calls "
             "the number of token requests is bounded by |pending| + #ungets + 1000 (end-of-input budget, potential-function proof), so no evaluator loop that requests a token per "
             "iteration can spin; every condition-less loop in eval/ and parser/ requests a token or is on a reviewed list (regenerated table). Tied by lex/tok streams with per-op deadlines. "
             "The inheritance walks (GetMethodT/getParentMethodT, isAncestorNode) are modelled with their entered-sets; the models terminate by construction and are compared with the real walks on generated graphs with cycles (streams lookup / ancestor: a walk that does not answer within the deadline is a disagreement). "
             "Hangs in unmodelled evaluator code are searched black-box (prefixes, mutations, cyclic-inheritance programs with visibility checks); a hang counts only if `timeout` persists on spaced solitary re-runs.",
        design="DESIGN.md §4 C02",
        note="Trusted as for C01. NOT proved: loops that hand a token back every iteration, recursion in unmodelled evaluators, the wall-clock watchdog race itself.",
        technique="Lean 4 proof (potential function over all client call sequences) + regenerated loop table + differential streams; black-box hang search",
    ),
    "C04": dict(
        category="proof",
        text="The requested row only selects which value is captured; the theorems are those of C01/C02 (token layer total, request bound, nil-safe predicates) plus row monotonicity "
             "(ErrorRow only takes values of Row, which starts at 1 and never decreases). The printers are exercised black-box: --suggest/--hover/--define with rows 0..lines+2, -1 and 10^6 "
             "over corpus programs and their mutations; exit 0, no panic, no persistent timeout, only %/@/$ records or diagnostics of the target file.",
        design="DESIGN.md §4 C04",
        note="Trusted as for C01. NOT proved: cmd/out.go printers (black-box here; modelled under C23).",
        technique="Lean 4 proof of the token-layer/row core + black-box query-mode sweep keyed by site",
    ),
    "C21": dict(
        category="proof",
        text="Full for the notation layer: Lean theorems state each documented equivalence as EQUALITY of the parsed value for every plain type name and every flag combination "
             "(A|B|… vs array for type strings, return types and arguments; ?T return vs [T,NilClass]; ?T argument vs is_default; *T vs is_asterisk; [T] vs array of T and the "
             "String/Int/Float array aliases; Int vs Integer; OptionalX; DefaultX). parseTypeString is defined by well-founded recursion (termination proved). The ConvertToBuiltinT table and the "
             "builtin variable block are regenerated from defined_type.go each run, and the model is validated against the real parser (JSON-decoded as a config file) on thousands of generated "
             "type strings. End-to-end: a generated class written once per notation gives byte-identical ti output.",
        design="DESIGN.md §4 C21",
        note="Trusted: Lean kernel, allowed axioms, extractor, streams, hooks (VerifParseTypeString/Arguments/ReturnType, VerifEncodeT). Assumed and only validated end-to-end: output is a function of the parsed values.",
        technique="Lean 4 proof (equalities over all plain names, wf recursion) + regenerated table + differential stream + two-notation end-to-end comparison",
    ),
    "C14": dict(
        category="proof",
        text="Full for the ordering step: prioritizeArgTs is specified as ANY result `positional ++ s` with s a key-sorted permutation of the keyword arguments (no assumption on sort.Slice's "
             "algorithm or stability). Lean proves that two call sites with the same positionals and the same multiset of keyword arguments with distinct keys have exactly one admissible result, "
             "so the binder, arity/type checks and propagation see identical inputs; also total/antisymmetric/transitive order lemmas for Go string comparison and that the executable insertion sort is admissible. "
             "Tied by the prio/pdef stream against the real functions; end-to-end every permutation of 2-5 keyword arguments on user-defined methods gives identical ti / ti -i output.",
        design="DESIGN.md §4 C14",
        note="Trusted: Lean kernel, allowed axioms, stream, hooks. Outside the statement: duplicate keys. Not modelled: collectArgs and the binder (end-to-end only).",
        technique="Lean 4 proof (uniqueness of sorted permutations via List.Perm.eq_of_pairwise) + differential stream + exhaustive permutation end-to-end runs",
    ),
    "C05": dict(
        category="proof",
        text="Full for the output assembly, partial for the runtime: Go map iteration is modelled as an ARBITRARY permutation and slices.SortFunc as an ARBITRARY sorted permutation; Lean proves the rendered "
             "sequence is unique for both signature comparators (sort key = lexicographic encoding in the field order regenerated from signature.go; total/antisymmetric order lemmas), and that every `range` over a map in the module "
             "(regenerated with go/types) is on a reviewed list together with the variables its body carries from one iteration to the next (an accumulator hoisted out of a per-key loop breaks the obligation). The real getters are run on real Go maps (fresh iteration order per call) against the model. End-to-end: each output mode, several separate processes with "
             "varied GOMAXPROCS/GOGC, byte comparison (--define as a set).",
        design="DESIGN.md §4 C05",
        note="Trusted: Lean kernel, allowed axioms, extractor (go/types source importer), stream. Assumed: ties under the comparator render identically (key fields cover every printed field but document/private). Not modelled: scheduler, GC, watchdog race.",
        technique="Lean 4 proof (uniqueness of sorted permutations under arbitrary map order) + regenerated comparator/map-range tables + differential stream + repeated-process byte comparison",
    ),
    "C06": dict(
        category="proof",
        text="Full for the lexer/row half, partial for the evaluator: Lean proves for all inputs that a comment-only line lexes exactly like a blank line (same token, same pending input), that a newline token "
             "adds 1 to Row, that a string literal adds exactly its line breaks once (also under Skip, never again after Unget), that re-delivered tokens move no row, and row monotonicity; the token model "
             "(rows included in every answer) is tied by the lex/tok streams. Whether the evaluators treat the extra newline token as neutral is checked end-to-end: blank / comment-only / whitespace lines at EVERY line "
             "boundary of generated and eligible corpus programs, widened string literals, added/dropped final newline; outputs must be equal after the row shift.",
        design="DESIGN.md §4 C06",
        note="Trusted as C03 plus the end-to-end generator's reach. Known findings (known_findings.jsonl): row attribution of `recv.slice` without argument; a line inserted directly after an `in <pattern>` line.",
        technique="Lean 4 proof (lexer/row-counter lemmas) + differential streams + metamorphic layout edits at every boundary",
    ),
    "C25": dict(
        category="proof",
        text="Lean: convertArguments (keyword maps modelled as lists in ARBITRARY order, Go map semantics) emits the same argument list for every iteration order — proved for any name-sorted permutation with distinct names — "
             "and the list has the shape required, optional(is_default), rest(is_asterisk), trailing, required keywords, optional keywords(is_default). The model is compared with the REAL rbs2json binary (stand-in `ruby` emitting generated AST JSON) "
             "on every generated overload; documents are converted repeatedly (byte-identical) and loaded by ti, which must accept k positional arguments exactly when the RBS signature allows k.",
        design="DESIGN.md §4 C25",
        note="Trusted: Lean kernel, allowed axioms, the binary-level comparison harness. Not modelled: convertType, the embedded Ruby script (replaced by a stand-in).",
        technique="Lean 4 proof (permutation invariance via uniqueness of sorted permutations; shape by construction) + binary-level differential check + end-to-end arity check",
    ),
    "C26": dict(
        category="proof",
        text="Lean: on the abstract definition (MRB_ARGS macros as extracted, mrb_get_args format string) `tiAccepts (infer d) k = cAccepts d k` for EVERY definition and EVERY k (induction over the format string, arithmetic over the macro counts). "
             "The model's `infer` is compared with the real ti-c2json binary on generated C sources; end-to-end the generated configuration is loaded by ti and every method is called with 0..6 arguments: a diagnostic on the call's row exactly when the C definition rejects that count. "
             "The spec capture group was repaired by a fix: commit. Two deviations of ti's binder are recorded as known findings (POST after OPT; REST with BLOCK).",
        design="DESIGN.md §4 C26",
        note="Trusted: Lean kernel, allowed axioms, binary-level harness. `tiAccepts` is a specification of ti's arity rule, validated end-to-end outside the two known-finding regions. Not modelled: the regular expressions, the GET_*_ARG heuristics (outside the statement).",
        technique="Lean 4 proof (arity equivalence for all definitions) + binary-level differential check + end-to-end arity sweep 0..6",
    ),
    "C19": dict(
        category="proof",
        text="Table-level core: the global TFrame is modelled as a Go map; Lean proves that ANY permutation of a sequence of writes to pairwise distinct keys yields the same answer to EVERY lookup (so renaming files = permuting the load order, and splitting = re-partitioning the same writes, cannot matter in that regime), "
             "and proves with a witness that the full statement fails when one key is written twice (first declaration becomes primary). Per-declaration parsing is C21's model (stream re-run). End-to-end: shipped configuration with files renamed into random orders; generated hierarchies unsplit vs split over 2-3 files in random orders; programs calling every own and inherited method.",
        design="DESIGN.md §4 C19",
        note="Partial: definition-time lookups of the loader (GetMethodT fallbacks that attach a method to an ancestor's / Builtin's entry as an overload) are outside the model; the generated configurations stay in the distinct-key regime and say so in the evidence.",
        technique="Lean 4 proof (commutation of map writes under permutation) + differential config stream + end-to-end rename/split comparison",
    ),
    "C20": dict(
        category="proof",
        text="Lean: writes to keys a program never looks up are invisible to all its lookups; token classification over the flat BuiltinClasses list is unchanged by added short names the identifier does not equal; the short-name collision is refuted with a witness (known limitation). "
             "The classification model is tied by the tok stream (run with the configured class list). The list is also consulted when a superclass frame is chosen and when include/extend edges are followed: on the model of that choice the frame of a class the program defines itself does not depend on the configured short names at all, and other short names never matter (own_superclass_ignores_config, superclass_extra_names); the include/extend redirect is tied by the lookup stream (with the top-level definitions), LookupDefinedClassFrame by the findns stream. "
             "End-to-end: corpus, generated and aimed programs with and without generated extra configuration files (plain and namespaced frames, extends of shipped classes, class methods named like Object's) whose class names never occur in the program, and lookalikes in other frames that share the short name of a class or module the program defines.",
        design="DESIGN.md §4 C20",
        note="Partial: the superclass choice in eval/class.go is modelled but tied end-to-end only (it is inline code). Refuted case: an added class whose SHORT name equals an ALL-CAPITAL program constant in another frame changes that identifier's token kind (classify_collision).",
        technique="Lean 4 proof (frame lemma for map writes, classification lemma) + differential tok stream + end-to-end with/without extra configuration",
    ),
    "C13": dict(
        category="proof",
        text="Classification core: Lean proves that the kind of token parser.Read builds for an identifier is a function of a small category tuple of the name (keyword, member of the configured class list, first byte upper-case, some lower-case rune, byte length ≥ 2, contains ':', starts with ':'), hence any renaming preserving that tuple preserves token kinds; the coarser Ruby category is refuted with the witness Hoge/HG (known limitation). "
             "The classification model is tied by the tok stream. Beyond classification names are only map keys; that part is checked end-to-end: locals, methods and classes of generated programs renamed to fresh names of length 1..8 of the same category, output compared after applying the same substitution.",
        design="DESIGN.md §4 C13",
        note="Partial: the evaluators' treatment of names as map keys is end-to-end only. Known limitation: all-capital class names are lexed as constants.",
        technique="Lean 4 proof (classification factors through a category tuple) + differential tok stream + end-to-end renaming",
    ),
    "C18": dict(
        category="proof",
        text="Output-assembly half: on a model of main.go's round loop (one parser and Errors list per file, one global article list, hints filtered by the recording parser's file) Lean proves that for ANY behaviour of the preloaded files' evaluations every printed line names the target file, "
             "diagnostics are exactly the target parser's errors, and preloaded definitions produce no hint. The syntactic facts about main.go the model rests on are re-extracted each run and re-checked by decide. "
             "Equality with the concatenated program depends on the statement evaluator (a parameter of the model) and is checked end-to-end: programs split at top-level boundaries into 1-3 preload files + target vs the concatenation, rows rebased.",
        design="DESIGN.md §4 C18",
        note="Partial: `H_neutral` (evaluator state is neutral at a top-level statement boundary) is assumed for the concatenation equality and only exercised end-to-end.",
        technique="Lean 4 proof over the round-loop model + regenerated main.go facts + end-to-end preload/concatenation comparison",
    ),
    "C24": dict(
        category="proof",
        text="Recording model: the call-point log is a function of the schedule of call-expression evaluations (round, look-ahead copy or real). Lean proves that for EVERY schedule in which each call site is evaluated for real exactly once in the check round — with any number of evaluations in other rounds or on look-ahead copies, in any interleaving — the log has exactly one entry per call site carrying its row and enclosing method/class, so `total callers` equals the number of call sites. "
             "The recording guard (check round, not a look-ahead copy, single writer) and the marking of the copy are re-extracted from the source each run. End-to-end: generated programs with known call sites (conditions of if/elsif/unless/postfix if/while, ternaries, arguments, blocks) vs `--llm-nav --target` for every user method.",
        design="DESIGN.md §4 C24",
        note="Partial: which evaluations the evaluator performs is not modelled (end-to-end only). Limitation: calls via `self.` and calls of top-level methods from inside class bodies are keyed differently and not listed (not generated).",
        technique="Lean 4 proof over evaluation schedules + regenerated source facts + end-to-end call-graph comparison",
    ),
    "C22": dict(
        category="proof",
        text="Row/tag bookkeeping: Lean proves that ErrorRow captured right after a freshly lexed non-newline token (the `def` keyword, where Def.Evaluation reads defineRow) is the line that token starts on — for every parser state, multi-line signatures included — and that after ANY sequence of private/protected/public keywords exactly the tag of the last one applies (the both-flags case of the printer's switch is unreachable). "
             "Rows are part of every answer of the tok stream. End-to-end: generated classes with sections, def self., class << self, endless and multi-line definitions and top-level methods: -i hint and --define record per method (file, row of def, c/ i/ tag, visibility), --hover on every single-call row.",
        design="DESIGN.md §4 C22",
        note="Partial: which article is recorded for which definition is evaluator behaviour (end-to-end only). An endless-definition defect was repaired by a fix: commit.",
        technique="Lean 4 proof (row and visibility-flag lemmas) + differential tok stream + end-to-end definition-info comparison",
    ),
    "C23": dict(
        category="proof",
        text="Soundness of the completion filter, proved in Lean for every signature table entry, every inheritance graph (cyclic ones included), every captured target and any fuel: a listed signature is never of class \"\"/Kernel, "
             "is of the receiver's class, of the class of the cursor's context, or of an ancestor reachable through ClassInheritanceMap with the receiver's static flag; a private signature only for the class of the cursor's context; for an object-valued receiver nothing private and nothing of the wrong kind (object_receiver_sound). "
             "The model (isSuggest, isParentClass, calculateObjectClassAndIsStatic, isSuggestForKernelOrObjectClass) is tied by a differential stream against the real functions (verif hooks in cmd/) on generated graphs, target recipes and signatures. "
             "Completeness (every callable method IS listed) and which T a row captures are evaluator behaviour: end-to-end on generated hierarchies (superclass chains, include/extend, private/protected sections, class << self) and configured Integer receivers, instance and class receivers.",
        design="DESIGN.md §4 C23",
        note="Partial: completeness only end-to-end; Object/Kernel methods (class \"\") are listed only through the lower-case receiver rule and are outside the expectation; names compared on their first byte as the Go code does. A defect (object built by `new` listing class/private methods) was repaired by a fix: commit.",
        technique="Lean 4 proof (induction on fuel, mutual well-founded recursion) + differential stream over hooks + end-to-end completion comparison",
    ),
    "C07": dict(
        category="proof",
        text="Per-argument decision proved in Lean for EVERY declared parameter type and argument type (any tags, object classes, variant lists): if every possible value of the argument is rejected by the parameter, checkArgType reports a mismatch (rejected_reported; false before three fix: commits, witnesses kept as examples). The model (IsMatchType, isCoveredBy, isAcceptVariant, IsMatchUnionType, checkArgType) is tied by the `match` differential stream through a verif hook. "
             "Counting and binding: on the model of the binding loop of checkAndPropagateArgs (Model/Bind.lean, tied by the `bind` stream through hooks that declare a configured method and call the real loop on required / defaulted / rest / keyword signatures), a positional call is accepted exactly when it fits (bind_pos_ok_iff), hence too many arguments, a required parameter left without an argument, or an all-rejected argument are each reported (too_many_reported, missing_required_reported, rejected_argument_reported). "
             "Union receivers and overloads: on the model of checkAndPropagateArgsForUnionWithReturnT (Bind.bindUnion: every class in turn, its declarations in order, the last error when none accepts; tied by the `bindu` stream through a hook) a call is an error whenever for ONE class of the union every declaration rejects the arguments, for any number of classes and overloads (union_rejected_reported). "
             "Receiver lookup (C16's lookup stream) and the glue are checked end-to-end: generated configurations next to the shipped one, generated programs (ternary unions, instance and class-method calls, nested in if/unless/blocks), a class-level oracle marks calls that CERTAINLY FAIL; each such row (up to the first diagnostic of the program) must be reported.",
        design="DESIGN.md §4 C07/C08",
        note="Partial: the counting/binding theorems cover positional signatures (rest and keyword parameters: stream and end-to-end); overload fallback and union receivers are end-to-end only. Known finding K28: configured rest parameters do not check their element type. Five fix: commits repaired defects this check found.",
        technique="Lean 4 proof (case analysis over the matching model) + differential stream over a hook + end-to-end oracle comparison on generated configurations",
    ),
    "C08": dict(
        category="proof",
        text="Per-argument decision proved in Lean for EVERY declared parameter type and argument type: if every possible value of the argument (each variant of a union argument) is admitted by the parameter, checkArgType reports nothing (fits_accepted; false before the fix: commit on IsMatchUnionType — `Integer|String` against `Int|String|Symbol`). Model tied by the `match` stream. On the binding-loop model (tied by the `bind` stream) a call that certainly fits a positional signature — count accepted, every possible value of every argument admitted — is accepted (fitting_call_accepted). "
             "End-to-end: the same generated configurations and programs as C07; the oracle marks calls that CERTAINLY FIT (every receiver class has a declaration accepting count and classes); no such row before the first diagnostic of the program may carry a diagnostic.",
        design="DESIGN.md §4 C07/C08",
        note="Partial: rest / keyword binding is covered by the stream and end-to-end, overload fallback and union receivers end-to-end only. Known finding K33 (overloads sharing a keyword name). Fix: commits: union-subset acceptance, inherited class methods of configured classes, overloads on union receivers.",
        technique="Lean 4 proof (case analysis over the matching model) + differential stream over a hook + end-to-end oracle comparison on generated configurations",
    ),
    "C09": dict(
        category="proof",
        text="Resolution core proved in Lean on the models of calculateExecutionType and of the union normalisation (AppendVariant, UnifyVariants, MakeUnifiedT, MergeHash, IsEqualObject, TypeToString): a plain declared return type is the type of the call whatever receiver and arguments are; Self is the receiver; Argument is nil / the argument / the array of arguments; Unify the unified element type; OptionalUnify the element types plus NilClass; "
             "resolving ANY return type leaves the receiver unchanged (mutual induction; false of the Go code before three fix: commits); appending a scalar to a union adds it iff no variant has its tag and class; an array literal of n+1 elements of one scalar type unifies to that type. The models are tied by four differential streams over hooks on nested arrays / hashes / unions (the receiver is compared after every ret op). "
             "Literals, assignment, indexing, literal-key lookup, push/<< growth and the printers are checked end-to-end: generated straight-line programs over the shipped configuration and a random configuration with computed return kinds, every dbtp row and -i bind hint against a reference model.",
        design="DESIGN.md §4 C09",
        note="Partial: the evaluators around the resolution core (bind, square_bracket, hash, array strategies, printers) are end-to-end only; BLOCK / BlockResultArray / Owner returns are not modelled; recursion in the model is fuel-bounded (fuel 40 in the drivers).",
        technique="Lean 4 proof (mutual structural recursion, induction on fuel) + four differential streams over hooks + end-to-end reference-model comparison",
    ),
    "C12": dict(
        category="proof",
        text="Invariant by induction over operations, proved in Lean on the table model of the analysis: for EVERY initial table and EVERY sequence of writes outside the Builtin frame and calls of configured methods (any receivers, arguments), each Builtin-frame entry (method type with return type and flags, declared parameter types, overloads) is unchanged (builtin_invariant), and the type of a configured call is the same after the program as before it (probe_independent). "
             "The premise (no write reaches a Builtin-frame key; results are computed on copies) is checked against the real analyser on every program by the in-process `analyze` correspondence op through a verif hook that renders all Builtin-frame TFrame entries before and after the four rounds; three defects it exposed were repaired by fix: commits. Black-box: a probe file over every configured method of the literal classes prints the same alone and appended to corpus / generated programs.",
        design="DESIGN.md §4 C12",
        note="Partial: pointer sharing between T values is not representable in the functional model; it is observed through the snapshot hook (all entries, every program) instead of proved. Programs reopening configured classes are excluded as in the statement.",
        technique="Lean 4 proof (invariant by induction over operation sequences) + in-process snapshot correspondence over a hook + black-box probe comparison",
    ),
    "C10": dict(
        category="proof",
        text="Narrowing core proved in Lean on the model of setConditionalCtx / narrowing / the restore closures, for every store, variable, current type and tested class: in the branch a test admits the variable is the unified tested class (positive_branch); in the branch that excludes it, exactly the variants whose class is not the tested one, in their order (negative_branch); the else branch of a positive test likewise (else_after_positive); no other variable changes; after the conditional every tested variable has its previous value (restore_spec/restore_other). "
             "Tied to the Go code by the `narrow` differential stream through a verif hook; that Evaluation isolates the shared evaluator's state for nested conditionals (each map restored from its own copy), defers the restores of elsif conditions and runs the condition's restore closures last-in first-out are regenerated source facts; restore_lifo_original proves that LIFO order gives every variable its pre-conditional value however many steps narrowed it. "
             "End-to-end: generated programs with union variables, if/unless/elsif/else, nil?/!nil?/is_a?, && chains, nesting and unrelated statements inside branches; dbtp inside every branch and after `end` against a reference model of the admitted variants.",
        design="DESIGN.md §4 C10",
        note="Partial: getBackupContext's token-level condition parsing is end-to-end only. Known findings K29 (elsif with a negated test ignores earlier narrowing), K30 (negative branch of an && chain narrows every chained variable) and K34 (one variable tested twice in a chain with mixed polarity): `_partial` scope = single-atom conditions and positive chains.",
        technique="Lean 4 proof (case analysis over the narrowing model) + differential stream over a hook + regenerated source facts + end-to-end reference comparison",
    ),
    "C11": dict(
        category="proof",
        text="Table-level non-interference proved in Lean on the analysis model: for every initial table and every operation sequence of a fragment, each lookup at a key the fragment does not write (configured declarations, the host's variables and methods) and each host call of a configured method gives the same result with and without the fragment (fragment_invisible, host_call_unaffected); block scopes and narrowing restore what they touch (C17, C10). The model's premise is tied by C12's in-process snapshot op. "
             "What is not a table (parser flags, the last evaluated value at a statement boundary, error recovery) is checked end-to-end: typed-grammar fragments with their own variable prefix, including statements that begin with a literal receiver, inserted at top-level and nested boundaries followed by another statement, and whole programs appended, in corpus and generated hosts; every output line outside the fragment (plain and -i) unchanged up to the row shift; a fragment clean on its own must stay clean next to the host.",
        design="DESIGN.md §4 C11",
        note="Partial: the parser-level state is outside the model (end-to-end only). A leak (statement beginning with `[` indexed the previous value) was repaired by a fix: commit. Known finding K31: an empty brace block inside a conditional ends it early. Fragments reported when analysed alone are skipped (recovery effects).",
        technique="Lean 4 proof (induction over operation sequences) + metamorphic end-to-end insertion / appending comparison",
    ),
    "C15": dict(
        category="proof",
        text="Propagation core proved in Lean on the model of propagationForCalledTo: replaying the call sites of a user method — ANY non-empty list of plain argument types, in any round, from an empty slot or from the single-class slot an earlier round left — leaves a parameter slot that covers the type of every call site (covers_all_sites, covers_all_sites_next_round: invariant `Stable` + induction over the site list; lemmas for the replace / match / unify / append branches); a union slot inferred from calls only accumulates. "
             "The model is tied by the `prop` differential stream through a verif hook. Return unification, header parsing, keyword/default binding and the placement of calls before/after the definition are checked end-to-end on generated programs (1-4 methods with positional, default and keyword parameters, 1-5 call sites each, inside other methods too): parameter dbtp covers all site classes, call results have the body's result type including explicit returns, body operations defined for none / all of the parameter's classes are reported / silent.",
        design="DESIGN.md §4 C15",
        note="Partial: union-typed call-site arguments and defaulted slots are covered by the stream, not by the covering theorem (plain scalar sites). Known finding K32: keyword parameter not widened for a call placed before the definition of a method with two or more positional parameters.",
        technique="Lean 4 proof (invariant + induction over call-site lists) + differential stream over a hook + end-to-end reference comparison",
    ),
    "C17": dict(
        category="proof",
        text="Scope core on the Go-map model of TFrame: Lean proves for EVERY sequence of writes performed inside a block that a key absent from the entry snapshot (and not written back) is absent after the block, that outer variables keep what the block assigned to them, that a shadowed variable gets its saved value back (distinct restore keys), "
             "and that the i-th block variable is bound to the i-th resolved parameter type with surplus variables bound to nil (distinct variable names); the binding loop of Do.setBlockParameters is regenerated from the source (guard, what each branch binds, whether the loop goes on) and proved equal to the modelled loop. End-to-end: generated block calls (do/end, braces) over arrays, hashes, ranges, integers and strings with 0-3 parameters, shadowing, nesting and block locals, `dbtp` inside and after the block against a reference.",
        design="DESIGN.md §4 C17",
        note="Partial: the resolution of declared block_parameters (Unify/Item/Flatten/UnifyArgument/Self) against the receiver is end-to-end only, on homogeneous receivers.",
        technique="Lean 4 proof (induction over arbitrary write sequences on the map model) + end-to-end block probes",
    ),
    "C16": dict(
        category="proof",
        text="Lookup core: GetMethodT / getParentMethodT (with the entered-set of the cyclic-inheritance fix) are modelled over Go-map models of TFrame and ClassInheritanceMap. Lean proves for EVERY table, EVERY graph (cycles included) and any fuel: a resolved definition exists in the table and carries the asked method name and privacy flag — so an explicit-receiver call never resolves to a private method; "
             "the class's own definition wins; a direct superclass's / included module's definition is found; resolution fails when no key of that name exists. Ancestor order: explicit ancestors registered through AddParentNode precede the implicit Object ancestor for any number of them, so a superclass's override of an Object method wins (stream addparent). "
             "Protected calls: the ancestor walk isAncestorNode is modelled; the check passes for the class itself, for a direct subclass in any graph (cycles included) and for a descendant at ANY depth of a superclass chain (each class having the next as its first parent, other parents such as Object allowed), and a true answer implies that the defining class is reachable through parent edges (soundness for every graph, fuel and entered-set: an outsider is always reported) (stream ancestor on generated graphs through a verif hook). "
             "End-to-end: generated hierarchies (chains of depth 1-4, include/extend, class << self, initialize, visibility sections, protected calls from descendants and outsiders, overrides of to_s/inspect, nested classes, receiverless module calls, namespaced groups) with calls whose outcome is computed by a reference model of Ruby's rules; the set of reported rows and the probed types must match exactly.",
        design="DESIGN.md §4 C16",
        note="Partial: how the class/module/include/def evaluators populate the maps and the private check of the strategies are end-to-end only; completeness of the ancestor walk for graphs with several parents per class is validated by the stream, not proved. Names are fresh (collisions with configured class names are C20's business).",
        technique="Lean 4 proof (mutual structural recursion, induction on fuel and parent lists) + end-to-end comparison with a Ruby reference model",
    ),
    "C27": dict(
        category="proof",
        text="Key algebra: on the models of SeparateNameSpaces / CalculateFrame Lean proves that M::C splits into namespace M and class C, A::B::C into frame A::B, that differently wrapped groups get different frames and therefore pairwise different map keys, and that writes under a decoy's frame are invisible to every lookup under the group's frame. "
             "End-to-end: a generated class group at top level, wrapped in one and two modules (outside references qualified), and next to a same-named decoy class with different methods and parent; outputs identical up to the module prefix and row shift. A lexical-superclass defect found this way was repaired by a fix: commit.",
        design="DESIGN.md §4 C27",
        note="Partial: eval/class.go, module.go, namespace.go are end-to-end only.",
        technique="Lean 4 proof (string/key lemmas, frame lemma on the map model) + end-to-end wrap/decoy comparison",
    ),
}

PENDING_REASON = "check not built yet in this session (see DESIGN.md §4 for the planned Lean model and theorem); not claimed until its check exists"


def manifest():
    props = [json.loads(l) for l in open(os.path.join(os.path.dirname(os.path.dirname(os.path.abspath(__file__))), "properties.jsonl"))]
    checks = []
    na = []
    for p in props:
        pid = p["id"]
        if pid in CHECKS:
            c = CHECKS[pid]
            checks.append({
                "property_id": pid,
                "quick_cmd": "bin/check %s --tier quick" % pid,
                "thorough_cmd": "bin/check %s --tier thorough" % pid,
                "evidence_file": "evidence/%s.json" % pid,
                "replay_cmd_template": "bin/check %s --replay {path}" % pid,
                "engine": "lean-proof+correspondence",
                "level_claimed": {"category": c["category"], "text": c["text"], "design_ref": c["design"]},
                "level_note": c["note"],
                "technique": c["technique"],
            })
        else:
            na.append({"property_id": pid, "reason": PENDING_REASON})
    try:
        hooks = subprocess.run(["git", "-C", "/repo", "log", "--format=%H", "--grep=^verif hooks"],
                               stdout=subprocess.PIPE, text=True).stdout.split()
    except Exception:
        hooks = []
    return {
        "version": 1,
        "setup_cmd": "bin/setup",
        "hooks": {
            "guard": "verif (Go build tag)",
            "enable": "go build -tags verif (hook files are *_verif*.go / verif_hooks.go with //go:build verif)",
            "baseline_off_cmd": "cd /repo && go build ./... && go test -vet=off -count=1 ./...",
            "source_commits": hooks,
            "add_only": True,
        },
        "engines": [
            {"name": "lean-proof+correspondence", "path": "lean/ (RubyTi library, Driver.lean), tools/extract, harness/godrv, vlib/",
             "serves_properties": sorted(CHECKS), "kind_free_text": "Lean 4 theorems about executable models; models tied to /repo by a regenerating extractor and by differential op streams against the real Go code; black-box search for failing inputs"},
        ],
        "checks": checks,
        "not_applicable": na,
        "notes": "bin/check <id> builds everything it needs from /repo's working tree (ti, godrv with -tags verif, extractor), "
                 "re-runs the extractor and `lake build` of the property's theorem module, audits axioms, runs the correspondence streams and the "
                 "failing-input search, replays known_findings.jsonl, and writes evidence/<id>.json.",
    }

"""Single source for MANIFEST.json."""
import json, os, subprocess

CHECKS = {
    "C03": dict(
        category="proof",
        text="Lean 4 theorems over a model of lexer.go/reader.go for ALL rune sequences: every Advance strictly consumes pending input, "
             "the token loop reaches end-of-stream within |input|+1 steps, produces at most |input| tokens, leaves nothing pending, and every "
             "token has a kind parser.Read accepts (no `read error`, no failing type assertion, no empty identifier). The model is tied to the "
             "working tree by regenerated tables (switch labels, token constants, Unicode ranges; `tables_match` is re-checked by lake) and by a "
             "differential stream that runs the real lexer/reader and the model on thousands of generated rune strings per run.",
        design="DESIGN.md §4 C03",
        note="Trusted: Lean kernel; axioms propext/Classical.choice/Quot.sound only; extractor; stream generators' reach; verif hooks; "
             "the lexer model works on the reader's pending-rune abstraction (refinement lemmas for Read/Unread/AppendHistory proved, glue validated by the stream). "
             "Not modelled: ti-doc comment capture, numeric literal values, UTF-8 decoding.",
        technique="Lean 4 proof (structural/well-founded recursion, fun_induction) + regenerated tables + differential correspondence stream",
    ),
}

PENDING_REASON = "check not built yet in this session (see DESIGN.md §4 for the planned Lean model and theorem); not claimed until its check exists"


def manifest():
    props = [json.loads(l) for l in open(os.path.join(os.path.dirname(os.path.dirname(os.path.abspath(__file__))), "properties.jsonl"))]
    checks = []
    na = []
    for p in props:
        pid = p["id"]
        if pid in CHECKS:
            c = CHECKS[pid]
            checks.append({
                "property_id": pid,
                "quick_cmd": "bin/check %s --tier quick" % pid,
                "thorough_cmd": "bin/check %s --tier thorough" % pid,
                "evidence_file": "evidence/%s.json" % pid,
                "replay_cmd_template": "bin/check %s --replay {path}" % pid,
                "engine": "lean-proof+correspondence",
                "level_claimed": {"category": c["category"], "text": c["text"], "design_ref": c["design"]},
                "level_note": c["note"],
                "technique": c["technique"],
            })
        else:
            na.append({"property_id": pid, "reason": PENDING_REASON})
    try:
        hooks = subprocess.run(["git", "-C", "/repo", "log", "--format=%H", "--grep=^verif hooks"],
                               stdout=subprocess.PIPE, text=True).stdout.split()
    except Exception:
        hooks = []
    return {
        "version": 1,
        "setup_cmd": "bin/setup",
        "hooks": {
            "guard": "verif (Go build tag)",
            "enable": "go build -tags verif (hook files are *_verif*.go / verif_hooks.go with //go:build verif)",
            "baseline_off_cmd": "cd /repo && go build ./... && go test -vet=off -count=1 ./...",
            "source_commits": hooks,
            "add_only": True,
        },
        "engines": [
            {"name": "lean-proof+correspondence", "path": "lean/ (RubyTi library, Driver.lean), tools/extract, harness/godrv, vlib/",
             "serves_properties": sorted(CHECKS), "kind_free_text": "Lean 4 theorems about executable models; models tied to /repo by a regenerating extractor and by differential op streams against the real Go code; black-box search for failing inputs"},
        ],
        "checks": checks,
        "not_applicable": na,
        "notes": "bin/check <id> builds everything it needs from /repo's working tree (ti, godrv with -tags verif, extractor), "
                 "re-runs the extractor and `lake build` of the property's theorem module, audits axioms, runs the correspondence streams and the "
                 "failing-input search, replays known_findings.jsonl, and writes evidence/<id>.json.",
    }

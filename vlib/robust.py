"""Shared black-box layer for C01 (no crash), C02 (no hang), C04 (editor query modes)."""
import os
import collections
import time
from . import common, blackbox, lexgen, progs

MUT_TOKENS = ["end", "def", "(", ")", "[", "]", "{", "}", "|", ",", ".", "=", "do", "if", "class", "module", "nil", "1", "'s'", "x",
              ":a", "a:", "&.", "*", "**", "&", "::", "?", ":", "\n", "return", "self", "@a", "A", "<", ">", "case", "in", "when",
              "while", "begin", "rescue", "->", "=>", "%w[", "<<~EOS", "\"", "#", "unless", "elsif", "else", "then", "yield", "private"]

CYCLES = [
    "class A < B\n  def a; 1; end\nend\nclass B < A\n  def b; 2; end\nend\nx = A.new\nx.foo\nx.b\n",
    "class A < A\nend\nA.new.zz\n",
    "class A < B\nend\nclass B < C\nend\nclass C < A\nend\nc = C.new\nc.m\n@v = 1\n",
    "module M\n  include M\n  def f; 1; end\nend\nclass K\n  include M\nend\nK.new.g\n",
    "class P < Q\n  def initialize\n    @a = 1\n  end\n  def r\n    @zz\n  end\nend\nclass Q < P\nend\nQ.new.r\n",
]


def gen_texts(ctx, n):
    """Malformed-input space: line prefixes, rune prefixes, token mutations of corpus programs, random rune strings."""
    rng = ctx.rng
    texts = lexgen.corpus_texts()
    out = []
    kinds = collections.Counter()
    for i in range(n):
        k = i % 5
        t = rng.choice(texts)
        if k == 0:
            lines = t.split("\n")
            out.append("\n".join(lines[:rng.randint(1, len(lines))]))
            kinds["line-prefix"] += 1
        elif k == 1:
            out.append(t[:rng.randint(0, len(t))])
            kinds["rune-prefix"] += 1
        elif k in (2, 3):
            toks = t.replace("\n", " \n ").split(" ")
            for _ in range(rng.randint(1, 3)):
                if not toks:
                    break
                j = rng.randrange(len(toks))
                m = rng.random()
                if m < 0.3:
                    del toks[j]
                elif m < 0.6:
                    toks.insert(j, rng.choice(MUT_TOKENS))
                elif m < 0.8:
                    toks[j] = rng.choice(toks)
                else:
                    l = rng.randrange(len(toks))
                    toks[j], toks[l] = toks[l], toks[j]
            out.append(" ".join(toks).replace(" \n ", "\n"))
            kinds["token-mutation"] += 1
        else:
            rs = lexgen.random_runes(rng, rng.choice([5, 20, 60, 150]))
            out.append("".join(chr(c) for c in rs if c != 0 or rng.random() < 0.3))
            kinds["random-runes"] += 1
    return out, dict(kinds)


def gen_programs(ctx, n, rich=True):
    """Grammar-generated, mostly valid programs over the configured builtin classes (levels 2-4)."""
    cfgdir = os.path.join(common.REPO, "test", ".ti-config")
    return [progs.gen_program(ctx.rng, cfgdir, level=ctx.rng.choice([2, 3, 4]), rich=rich) for _ in range(n)]


def match_finding(findings, kind, site_key):
    for f in findings:
        if f.get("status", "open") != "open":
            continue
        if f.get("kind") == kind and f.get("site") == site_key:
            return f
    return None


def sweep(ctx, texts, flagsets, want, layer, line_check=None):
    """Runs ti on every text with one of the flag sets (round-robin). `want` ⊆ {"panic","hang","exit","lines"}.
    Returns (failures, stats). A failure is a replay dict; known findings are reported once and skipped."""
    wd = common.make_workdir(ctx, "bb-" + layer)
    stats = collections.Counter()
    seen_known = set()

    def one(iv):
        i, text = iv
        name = "p%d.rb" % i
        f = blackbox.write_input(wd, name, text)
        fl = flagsets[i % len(flagsets)]
        fl = [a.replace("{rows}", str(text.count("\n") + 2)) for a in fl]
        rc, so, se = common.run_ti(ctx.ti, [name] + fl, wd)
        c = blackbox.classify(rc, so, se, name)
        res = None
        if c == "panic" and "panic" in want:
            fn, msg, loc = blackbox.panic_site(se)
            res = ("panic", fn + " | " + msg, loc, se[-1500:])
        if c in ("hang", "hard-timeout") and "hang" in want:
            # last confirmation before a hang is reported: the 500 ms watchdog counts wall-clock time, and other processes can
            # keep the machine busy even while this harness pauses its own runs; a genuine hang times out every time
            for _ in range(3):
                time.sleep(1.0)
                rc, so, se = common.run_ti(ctx.ti, [name] + fl, wd)
                c = blackbox.classify(rc, so, se, name)
                if c not in ("hang", "hard-timeout"):
                    stats["spurious-timeouts-cleared"] += 1
                    break
        if c == "panic" and "panic" in want and res is None:
            fn, msg, loc = blackbox.panic_site(se)
            res = ("panic", fn + " | " + msg, loc, se[-1500:])
        elif c in ("hang", "hard-timeout") and "hang" in want:
            inner, owner = blackbox.hang_site(ctx.ti, [name] + fl, wd)
            # a hang is keyed by the spinning function when that is a base/ helper, else by the evaluator that owns the loop
            site = inner if inner.startswith("ti/base.") else owner
            res = ("hang", site, inner, so[-300:])
        elif c.startswith("exit-") and "exit" in want:
            res = ("exit", c, "", (so + se)[-500:])
        elif c == "ok" and "lines" in want:
            bad = (line_check or blackbox.bad_lines)(so, name)
            if bad:
                res = ("badline", "output line is not a record", "", "\n".join(bad[:3])[:500])
        try:
            os.unlink(f)
        except OSError:
            pass
        return c, res, text, fl

    results = common.pmap(one, list(enumerate(texts)))
    failures = []
    nontrivial = set()
    for c, res, text, fl in results:
        stats[c] += 1
        if len(text) > 10:
            nontrivial.add(hash(text))
        if res is None:
            continue
        kind, site, loc, detail = res
        kf = match_finding(ctx.findings, kind, site)
        if kf is not None:
            if kf["id"] not in seen_known:
                seen_known.add(kf["id"])
                common.known_finding(ctx, kf, "%s at %s (%s)" % (kind, site, kf.get("what", "")))
            stats["known-finding-hits"] += 1
            continue
        failures.append({"kind": kind, "site": site, "location": loc, "flags": fl, "input": text, "detail": detail,
                         "key": [kind, site], "replay_cmd": "cd <dir with .ti-config> && ti input.rb " + " ".join(fl)})
    # shrink: keep the shortest input per site
    best = {}
    for f in failures:
        k = (f["kind"], f["site"])
        if k not in best or len(f["input"]) < len(best[k]["input"]):
            best[k] = f
    lay = ctx.cov["layers"].setdefault(layer, {"runs": 0, "distinct_nontrivial": 0, "outcomes": {}})
    lay["runs"] += len(texts)
    lay["distinct_nontrivial"] += len(nontrivial)
    for k, v in stats.items():
        lay["outcomes"][k] = lay["outcomes"].get(k, 0) + v
    lay["solo_reruns_of_timeouts"] = common.SOLO_RERUNS[0]
    return list(best.values()), stats


def replay_findings(ctx, flags_default, line_check=None):
    """Replays the stored witnesses first. An open finding that still fails prints KNOWN-FINDING.
    A fixed finding suppresses nothing: if its witness fails again it is returned as a failure."""
    wd = common.make_workdir(ctx, "bb-findings")
    regress = []
    n = 0
    for f in ctx.findings:
        if "input" not in f:
            continue
        n += 1
        name = "kf%d.rb" % n
        blackbox.write_input(wd, name, f["input"])
        fl = f.get("flags", flags_default)
        rc, so, se = common.run_ti(ctx.ti, [name] + fl, wd)
        c = blackbox.classify(rc, so, se, name)
        bad = (line_check or blackbox.bad_lines)(so, name) if c == "ok" else []
        if f.get("status", "open") == "open":
            still = (f.get("kind") == "panic" and c == "panic") or (f.get("kind") == "hang" and c in ("hang", "hard-timeout")) or \
                    (f.get("kind") == "badline" and bad)
            if still:
                common.known_finding(ctx, f, "%s at %s (%s)" % (f.get("kind"), f.get("site"), f.get("what", "")))
        elif c != "ok" or bad:
            regress.append({"kind": "regression-of-fixed-finding", "finding": f.get("id"), "commit": f.get("commit"), "outcome": c,
                            "flags": fl, "input": f["input"], "detail": (so + se)[-800:], "key": ["regress", f.get("id")]})
    ctx.cov["layers"]["regression-corpus"] = {"runs": n, "distinct_nontrivial": n}
    return regress


def tok_ops(ctx, n, bcs):
    """ops for the `tok` stream: runes + a client call sequence (R read, A read-ahead, U unget, S skip)."""
    rng = ctx.rng
    ins = lexgen.lex_inputs(rng, n // 2, n // 4, n // 4, maxlen=600)
    ops = []
    for r in ins:
        k = len(r) + 6
        calls = []
        for _ in range(min(k, 400)):
            x = rng.random()
            calls.append("R" if x < 0.7 else "A" if x < 0.8 else "U" if x < 0.93 else "S")
        ops.append("tok %s | %s | %s" % (bcs, lexgen.fmt_runes(r), " ".join(calls)))
    # runaway clients: keep reading far past the end (budget must unwind them)
    for r in ins[:max(3, n // 200)]:
        ops.append("tok %s | %s | %s" % (bcs, lexgen.fmt_runes(r[:50]), " ".join(["R"] * 1100)))
        ops.append("tok %s | %s | %s" % (bcs, lexgen.fmt_runes(r[:50]), " ".join(["R", "U"] * 1100)))
    return ops


def builtin_classes(ctx, cwd):
    return common.run_lines(ctx.godrv, ["bclasses"], cwd=cwd)[0]

"""Generators of rune strings for the lexer / reader / token streams (C03, C02, C06, C01)."""
import os
from . import common

ALPHA = (
    [ord(c) for c in "abcxyzABC_019 \t\n\n..,;:()[]{}<>=!+-*/%&|^#\"'`\\?@$~"] +
    [0, 0x85, 0xA0, 0x3000, 0x2028, 0x660, 0x0967, 0xFF11, 0xFFFD, 0xE9, 0x3042, 0x1F600, 0x1680]
)
SNIPPETS = ["def ", "end", "nil", "1.5", "1..2", "1...3", "0xff", "1_000", "-1", "+2", "->", "=>", "===", "==", "!=", "||=", "&&", "&.",
            "<<~EOS", "<<EOS", "%w[", "%i(", "%=", "#{", ":\"a b\"", "*=", "**", "x.y", "@a", "$b", "A::B", "a: 1", "\\\"", "\\",
            "1.", "1.x", "9223372036854775807", "9223372036854775808", "12e3", "a?", "b!", "<=>", "<<", ">>", ">=", "<=", "|x|",
            "\n# c\n", "=begin\n", "=end\n", "'a\nb'", "\"a\nb\"", "\"a\\\nb\"", "'x\\\n'", "`ls`", "nil?", "-", "- 1", "-x", "1.2.3", "1__2", "0b1", "0o7x"]


def random_runes(rng, maxlen=40):
    n = rng.randint(0, maxlen)
    out = []
    while len(out) < n:
        r = rng.random()
        if r < 0.35:
            out.extend(ord(c) for c in rng.choice(SNIPPETS))
        elif r < 0.97:
            out.append(rng.choice(ALPHA))
        else:
            out.append(rng.randint(0, 0x10FFFF) if rng.random() < 0.5 else rng.randint(0, 0x2FF))
    # no surrogates: []rune(string) never yields them
    return [c if not (0xD800 <= c <= 0xDFFF) else 0xFFFD for c in out[:maxlen + 8]]


def corpus_texts():
    out = []
    for f in common.corpus_files():
        try:
            out.append(open(f, encoding="utf-8", errors="replace").read())
        except Exception:
            pass
    return out


def mutate(rng, runes):
    runes = list(runes)
    k = rng.randint(1, 3)
    for _ in range(k):
        if not runes:
            runes.append(rng.choice(ALPHA))
            continue
        i = rng.randrange(len(runes))
        m = rng.random()
        if m < 0.3:
            del runes[i]
        elif m < 0.6:
            runes.insert(i, rng.choice(ALPHA))
        elif m < 0.8:
            runes[i] = rng.choice(ALPHA)
        else:
            sn = [ord(c) for c in rng.choice(SNIPPETS)]
            runes[i:i] = sn
    return runes


def lex_inputs(rng, n_random, n_corpus_prefix, n_mut, maxlen=4000):
    """Mix: random strings, rune-prefixes of corpus files, mutations of corpus lines."""
    texts = corpus_texts()
    out = []
    for _ in range(n_random):
        out.append(random_runes(rng, rng.choice([3, 8, 20, 60])))
    for _ in range(n_corpus_prefix):
        t = [ord(c) for c in rng.choice(texts)][:maxlen]
        cut = rng.randint(0, len(t))
        out.append(t[:cut])
    lines = [l for t in texts for l in t.split("\n") if l.strip()]
    for _ in range(n_mut):
        base = [ord(c) for c in rng.choice(lines)]
        if rng.random() < 0.5:
            base += [10] + [ord(c) for c in rng.choice(lines)]
        out.append(mutate(rng, base))
    return out


def fmt_runes(rs):
    return " ".join(str(r) for r in rs)

"""End-to-end layer shared by C07 and C08: generated configurations (next to the shipped test configuration) and generated call
programs judged by the class-level oracle of vlib/calls.py."""
import json
import os
import shutil
from . import common, calls, meta


def match_ops(rng, n):
    atoms = ["I", "S", "F", "Y", "B", "N", "A", "H", "U", "K", "L", "R", "O:Foo", "O:Bar", "O:GPIO", "C:Foo"]
    inner = ["I", "S", "F", "Y", "N", "U", "B", "O:Foo", "O:Bar"]

    def recipe():
        r = rng.random()
        if r < 0.45:
            return rng.choice(atoms)
        k = rng.choice([0, 1, 2, 2, 3, 4])
        items = []
        for _ in range(k):
            if rng.random() < 0.08:
                items.append("v<%s>" % ";".join(rng.choice(inner) for _ in range(rng.randint(0, 3))))
            else:
                items.append(rng.choice(atoms[:9] + atoms[12:15]))
        return "u[%s]" % ",".join(items)

    return ["match %s | %s" % (recipe(), recipe()) for _ in range(n)]


def bind_ops(rng, n):
    """signatures (required, defaulted, required-after-optional, rest, keyword parameters) and argument lists that mostly fit: the
    real binding loop (through hooks that declare a configured method and call checkAndPropagateArgs) against Model/Bind.lean"""
    TY = ["I", "S", "F", "Y", "N", "U", "B", "A", "H", "O:Foo", "I+S", "S+Y+N", "O:Foo+I"]
    AR = ["I", "S", "F", "Y", "N", "B", "A( I )", "H( a= I )", "O:Foo", "O:Bar", "U( I S )", "U( F N )", "U", "K"]
    FIT = {"I": "I", "S": "S", "F": "F", "Y": "Y", "N": "N", "U": "I", "B": "B", "A": "A( I )", "H": "H( a= I )", "O:Foo": "O:Foo", "I+S": "U( I S )", "S+Y+N": "Y", "O:Foo+I": "O:Foo"}
    ops = []
    for _ in range(n):
        ps = []
        for _ in range(rng.choice([0, 1, 1, 2, 3])):
            ps.append("p:" + rng.choice(TY))
        for _ in range(rng.choice([0, 0, 1, 2])):
            ps.append("p:" + rng.choice(TY) + "?")
        if rng.random() < 0.2:
            ps.append("p:" + rng.choice(TY))
        if rng.random() < 0.25:
            ps.append("s:" + rng.choice(TY))
        keys = rng.sample(["alpha", "beta", "gamma"], rng.choice([0, 0, 1, 2]))
        ktypes = {}
        for k in keys:
            ktypes[k] = rng.choice(TY)
            ps.append("k:%s:%s%s" % (k, ktypes[k], rng.choice(["", "?"])))
        good = rng.random() < 0.7
        args = []
        npos = len([p for p in ps if p[0] == "p"])
        count = max(0, npos + rng.choice([-1, 0, 0, 0, 1]) - (rng.randint(0, 2) if rng.random() < 0.3 else 0))
        posps = [p for p in ps if p[0] in "ps"]
        for i in range(count):
            t = posps[min(i, len(posps) - 1)].split(":", 1)[1].rstrip("?") if posps else "I"
            args.append(FIT[t] if good or rng.random() < 0.6 else rng.choice(AR))
        order = list(keys)
        rng.shuffle(order)
        for k in order + (["zeta"] if rng.random() < 0.1 else []):
            if rng.random() < 0.8:
                a = "%s=%s" % (k, FIT[ktypes[k]] if k in ktypes and (good or rng.random() < 0.6) else rng.choice(AR))
                args.insert(rng.randint(0, len(args)) if rng.random() < 0.1 else len(args), a)
        ops.append("bind %s | %s | %s" % (" ".join(ps) or "-", " ; ".join(args) or "-", rng.choice("0001")))
    return ops


def bindu_ops(rng, n):
    """a receiver that is a union of 1-3 classes, each declaring the method once or with overloads (positional, defaulted and
    rest parameters; no keyword parameters: overloads that share a keyword name are K33), and one argument list"""
    TY = ["I", "S", "F", "Y", "N", "U", "B", "A", "H", "O:Foo", "I+S", "S+Y+N"]
    AR = ["I", "S", "F", "Y", "N", "B", "A( I )", "H( a= I )", "O:Foo", "O:Bar", "U( I S )", "U( F N )", "K"]
    FIT = {"I": "I", "S": "S", "F": "F", "Y": "Y", "N": "N", "U": "I", "B": "B", "A": "A( I )", "H": "H( a= I )", "O:Foo": "O:Foo", "I+S": "U( I S )", "S+Y+N": "Y"}

    def decl(base):
        ps = []
        for t in base:
            ps.append("p:" + (t if rng.random() < 0.75 else rng.choice(TY)))
        for _ in range(rng.choice([0, 0, 1])):
            ps.append("p:" + rng.choice(TY) + "?")
        if rng.random() < 0.15:
            ps.append("s:" + rng.choice(TY))
        if rng.random() < 0.15 and ps:
            ps.pop(0)
        return " ".join(ps) or "-"

    ops = []
    for _ in range(n):
        base = [rng.choice(TY) for _ in range(rng.choice([0, 1, 1, 2, 2, 3]))]
        classes = []
        for _ in range(rng.choice([1, 2, 2, 3])):
            classes.append(" ;; ".join(decl(base) for _ in range(rng.choice([1, 1, 2, 3]))))
        args = [FIT[t] if rng.random() < 0.8 else rng.choice(AR) for t in base]
        if rng.random() < 0.2 and args:
            args.pop()
        if rng.random() < 0.15:
            args.append(rng.choice(AR))
        ops.append("bindu %s | %s" % (" || ".join(classes), " ; ".join(args) or "-"))
    return ops


def run_calls(ctx, nconf, nprog, tag):
    """returns {"C07": [...], "C08": [...]} failure replays; known findings are printed through ctx"""
    rng = ctx.rng
    base = os.path.join(common.REPO, "test", ".ti-config")
    jobs = []
    for ci in range(nconf):
        mdl = calls.gen_config(rng, n=rng.randint(2, 5), shipped_dir=base)
        wd = os.path.join(ctx.tmp, "calls%s_%d" % (tag, ci))
        os.makedirs(os.path.join(wd, ".ti-config"))
        for f in os.listdir(base):
            shutil.copy(os.path.join(base, f), os.path.join(wd, ".ti-config", f))
        for fn, c in mdl.files.items():
            json.dump(c, open(os.path.join(wd, ".ti-config", fn), "w"))
        for pi in range(nprog):
            g = calls.ProgGen(rng, mdl, errors=(pi % 2 == 0), nested=(pi % 3 != 0))
            text = g.program(rng.randint(8, 18))
            jobs.append((wd, "p%d.rb" % pi, text, g, mdl))

    def one(job):
        wd, name, text, g, mdl = job
        meta.write(wd, name, text)
        return common.run_ti(ctx.ti, [name], wd)

    out = {"C07": [], "C08": []}
    stats = {"programs": 0, "rows_certainly_failing": 0, "rows_certainly_fitting": 0, "union_receivers": 0, "static_calls": 0, "keyword_calls": 0,
             "rest_only_failures_skipped": 0, "unusable": 0}
    for (wd, name, text, g, mdl), (rc, so, se) in zip(jobs, common.pmap(one, jobs)):
        if rc != 0 or "timeout" in so.split("\n"):
            stats["unusable"] += 1
            continue
        stats["programs"] += 1
        rows = {}
        for l in so.split("\n"):
            f = l.split(":::", 2)
            if len(f) == 3 and f[1].isdigit():
                rows.setdefault(int(f[1]), []).append(f[2])
        first_fail = min([r for r, v in g.expect.items() if v == "fail" and r not in g.unknown_key] or [10 ** 9])
        first_fail = min([first_fail] + list(rows))      # ... or the first diagnostic ti actually printed (an undecided call may be reported)
        cfg = {fn: c for fn, c in mdl.files.items()}
        for r in sorted(g.info):
            i = g.info[r]
            stats["union_receivers"] += len(i["recv"]) > 1
            stats["static_calls"] += i["kind"] == "static"
            stats["keyword_calls"] += bool(i["kw"])
        done = set()
        for r, v in sorted(g.expect.items()):
            if r in g.strict:
                # the verdict depends on whether a rest parameter checks its element type: known finding K28 when ti stays silent
                stats["rest_only_failures_skipped"] += 1
                if g.strict[r] == "fail" and r not in rows:
                    kf = next((f for f in ctx.findings if f.get("status") == "open" and f.get("predicate") == "rest-type-unchecked"), None)
                    if kf and kf["id"] not in ctx.known_hits:
                        common.known_finding(ctx, kf, kf["what"])
                continue
            if r in g.unknown_key:
                # the call is wrong only by a keyword argument that no declaration has: ti skips such an argument when nothing else
                # forces a report (known finding K37)
                stats["unknown_keyword_only_failures_skipped"] = stats.get("unknown_keyword_only_failures_skipped", 0) + 1
                if r not in rows:
                    kf = next((f for f in ctx.findings if f.get("status") == "open" and f.get("predicate") == "unknown-keyword-ignored"), None)
                    if kf and kf["id"] not in ctx.known_hits:
                        common.known_finding(ctx, kf, kf["what"])
                continue
            if v == "fail":
                if r > first_fail:
                    stats["failing_rows_after_first_error_not_judged"] = stats.get("failing_rows_after_first_error_not_judged", 0) + 1
                    continue        # recovery effects: after a diagnostic inside a block the block's own assignments are forgotten
                stats["rows_certainly_failing"] += 1
                if r not in rows and "C07" not in done:
                    done.add("C07")
                    out["C07"].append({"kind": "definite-misuse-not-reported", "row": r, "line": g.lines[r - 1], "call": g.info[r], "program": text, "output": so[:2000],
                                       "config": cfg, "key": ["C07", g.info[r]["method"][-3:], len(g.info[r]["recv"]), g.info[r]["kind"]]})
            elif r <= first_fail:
                stats["rows_certainly_fitting"] += 1
                if r in rows and "C08" not in done:
                    done.add("C08")
                    out["C08"].append({"kind": "false-alarm", "row": r, "line": g.lines[r - 1], "call": g.info[r], "diagnostic": rows[r], "program": text, "output": so[:2000],
                                       "config": cfg, "key": ["C08", rows[r][0][:30], len(g.info[r]["recv"]), g.info[r]["kind"]]})
    lay = ctx.cov["layers"].setdefault("e2e-calls", {"runs": 0, "distinct_nontrivial": 0})
    lay["runs"] += len(jobs)
    lay["distinct_nontrivial"] += stats["rows_certainly_failing"] + stats["rows_certainly_fitting"]
    d = ctx.cov.setdefault("distribution", {})
    for k, v in stats.items():
        d[k] = d.get(k, 0) + v
    if jobs:
        ctx.sample({"program": jobs[0][2][:500], "expectations": {str(r): v for r, v in sorted(jobs[0][3].expect.items())}})
    return out


def replay_failure(ctx, r):
    """re-runs one stored failure (config + program) and prints ti's output"""
    wd = common.make_workdir(ctx, "replay")
    for fn, c in (r.get("config") or {}).items():
        json.dump(c, open(os.path.join(wd, ".ti-config", fn), "w"))
    meta.write(wd, "p.rb", r["program"])
    rc, so, se = common.run_ti(ctx.ti, ["p.rb"], wd)
    print(so)
    return so

"""Black-box layer: run the built `ti` on many inputs; classify crashes and hangs by site."""
import os
import re
import signal
import subprocess
import time
from . import common

FRAME_RE = re.compile(r"^(ti/[\w/]+|main)\.(\S+?)\(.*\)\n\t(\S+?):(\d+)", re.M)
LINE_OK = {
    "diag": re.compile(r"^(?P<file>.+?):::(?P<row>-?\d+):::"),
    "hint": re.compile(r"^@(?P<file>.+?):::(?P<row>-?\d+):::"),
}


def panic_site(stderr):
    """(function, message-class) of the first non-runtime frame of the panicking goroutine."""
    m = re.search(r"(panic: .*|fatal error: .*)", stderr)
    msg = m.group(1) if m else "?"
    msg_class = re.sub(r"\[[^\]]*\]", "[..]", msg)
    msg_class = re.sub(r"\d+", "N", msg_class)[:80]
    # frames after the 'goroutine N [running]' header
    i = stderr.find("[running]")
    body = stderr[i:] if i >= 0 else stderr
    # a re-panic from a deferred recover keeps the original frames below the last sigpanic / panic frame
    j = max(body.rfind("runtime.sigpanic"), body.rfind("\npanic("))
    if j >= 0:
        body = body[j:]
    for fm in FRAME_RE.finditer(body):
        pkg, fn, path, line = fm.groups()
        if "verif" in path:
            continue
        return "%s.%s" % (pkg, fn), msg_class, "%s:%s" % (os.path.basename(path), line)
    return "?", msg_class, "?"


def hang_site(ti, args, cwd):
    """Re-runs a hanging input and asks the Go runtime for a goroutine dump (SIGQUIT) shortly before
    the 500 ms watchdog; returns the innermost ti/ frame of the analysis goroutine."""
    env = dict(os.environ)
    env["GOTRACEBACK"] = "all"
    p = subprocess.Popen([ti] + args, cwd=cwd, stdout=subprocess.PIPE, stderr=subprocess.PIPE, env=env)
    time.sleep(0.30)
    try:
        p.send_signal(signal.SIGQUIT)
    except Exception:
        pass
    try:
        so, se = p.communicate(timeout=5)
    except subprocess.TimeoutExpired:
        p.kill()
        so, se = p.communicate()
    se = se.decode(errors="replace")
    # the analysis goroutine is the one with eval/ or parser/ or lexer/ frames
    best = None
    for block in se.split("\n\n"):
        frames = [f for f in FRAME_RE.finditer(block) if f.group(1) != "main" and "verif" not in f.group(3)]
        if frames:
            f = frames[0]
            # first frame with a loop owner in eval/ (skip parser.Read / lexer internals to name the spinning evaluator)
            owner = next((g for g in frames if g.group(1).startswith("ti/eval")), f)
            best = ("%s.%s" % (f.group(1), f.group(2)), "%s.%s" % (owner.group(1), owner.group(2)))
            break
    return best or ("?", "?")


def classify(rc, so, se, fname):
    """Outcome class of one `ti` run for C01/C02/C04."""
    if rc == -9:
        return "hard-timeout"
    if "panic:" in se or "fatal error:" in se or rc == 2:
        return "panic"
    lines = so.split("\n")
    if rc in (0, 1) and "timeout" in so.split("\n"):
        return "hang"
    if rc != 0:
        return "exit-%d" % rc
    return "ok"


def bad_lines(so, fname, allow_prefixes=("@",)):
    """Lines of a plain / -i run that are neither `<file>:::<row>:::msg` nor `@<file>:::<row>:::...`."""
    bad = []
    for line in so.split("\n"):
        if line == "":
            continue
        m = LINE_OK["hint"].match(line) if line.startswith("@") else LINE_OK["diag"].match(line)
        if not m or m.group("file") != fname:
            bad.append(line)
    return bad


def write_input(d, name, text):
    path = os.path.join(d, name)
    with open(path, "w", encoding="utf-8", errors="surrogatepass") as f:
        f.write(text)
    return path

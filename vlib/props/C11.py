"""C11 — independent code does not change the analysis of other code."""
import json
import os
import re
from .. import common, meta, progs

LEVEL = "proof"
RULE = ("Lean (table level): a fragment's writes go to its own keys, so every lookup at another key — configured declarations, the host's variables and methods — and every host call of a configured "
        "method give the same result with and without the fragment (fragment_invisible, host_call_unaffected, on the analysis model tied by C12's in-process snapshot op). Block scopes and narrowing "
        "restore what they touch (C17, C10). End-to-end (what is not a table: parser flags, the last evaluated value at a statement boundary): fragments generated from the typed grammar "
        "(conditionals with nil?/is_a?, blocks, array/hash literals, builtin calls on unions; own variable prefix; no definitions) are inserted at top-level and nested statement boundaries that are "
        "followed by another statement of the same body, in generated and corpus host programs; a whole independent program is appended; every output line (plain and -i) outside the fragment's rows "
        "must be unchanged up to the row shift.")

CONT = ("end", "else", "elsif", "}", "rescue", "when", "in ", "ensure", ")", "]", ".", "&.", "||", "&&", "+", "-", "*", "/", "then", "do")
OPEN = re.compile(r"(\bdo\b(\s*\|[^|]*\|)?\s*$|\{\s*(\|[^|]*\|)?\s*$|^\s*(if|unless|while|until|case|def|class|module|begin|for)\b|=\s*(if|unless|case|begin)\b|,\s*$|\\\s*$|[\[\(\{]\s*$)")


def boundaries(lines):
    """indices j such that a fragment may be inserted BEFORE line j: line j starts a statement, the previous non-blank line ended one at the
    same indentation (so both belong to one body), and nothing suggests a continuation"""
    out = []
    for j in range(1, len(lines)):
        l, prev = lines[j], lines[j - 1]
        if not l.strip() or not prev.strip():
            continue
        ind = len(l) - len(l.lstrip())
        pind = len(prev) - len(prev.lstrip())
        s = l.strip()
        if ind != pind or s.startswith(CONT) or s.startswith("#") or prev.strip().startswith("#"):
            continue
        if OPEN.search(prev) or prev.rstrip().endswith(("(", "[", "{", ",", "\\", "|", "&&", "||", "=", "+", "-", ".")):
            continue
        if re.match(r"^\s*(private|protected|public|attr_\w+|include|extend|require)\b", prev) or re.match(r"^\s*(private|protected|public)\s*$", l):
            continue
        out.append((j, ind))
    return out


TYPE_WORD = re.compile(r"^([A-Z][A-Za-z0-9:]*|untyped)$")


def is_type_text(x):
    """the text of a dbtp / bind record (a rendered type), as opposed to a diagnostic sentence"""
    x = x[6:] if x.startswith("bind: ") else x
    if "->" in x:
        return True
    return all(w == "" or TYPE_WORD.match(w) for w in re.split(r"[<> ]+", x))


def fragment(rng, cfg, k):
    for _ in range(20):
        level = rng.choice([0, 1, 2, 2])
        text = progs.gen_program(rng, cfg, level=level, nstmts=rng.randint(1, 4), prefix="zf%d_" % k)
        if "{}" not in text.replace("= {}", ""):       # known finding K31: an empty brace block inside a conditional ends it early
            break
    lines = [l for l in text.rstrip("\n").split("\n")]
    # statements that begin with a literal receiver (array literal, parenthesised range): what precedes the fragment must not be taken as their receiver
    r = rng.random()
    if r < 0.25:
        lines.insert(0, rng.choice(["[1, 2].each do |zf%d_q|\n  dbtp zf%d_q\nend" % (k, k), "[3, 4].length", "(1..3).each do |zf%d_r|\n  zf%d_s = zf%d_r\nend" % (k, k, k)]))
    elif r < 0.4:
        lines.append(rng.choice(["[1, 'a'].first", "[5].push(6)", "zf%d_t = [1, 2].length" % k]))
    return "\n".join(lines).split("\n")


K31 = "def t\n  a = [1]\n  if true\n    b = a.each {}\n  end\n  5\nend\ndbtp t\n"


def replay_k31(ctx):
    kf = next((f for f in ctx.findings if f.get("status") == "open" and f.get("predicate") == "empty-brace-block-in-conditional"), None)
    if not kf:
        return
    wd = common.make_workdir(ctx, "k31")
    meta.write(wd, "k.rb", K31)
    rc, so, se = common.run_ti(ctx.ti, ["k.rb"], wd)
    if ":::8:::Integer" not in so and kf["id"] not in ctx.known_hits:
        common.known_finding(ctx, kf, kf["what"])


def heredoc_or_multiline(text):
    return "<<" in text or "=begin" in text or '"""' in text or "%w" in text or "__END__" in text


def run_e2e(ctx, nhost, tag):
    rng = ctx.rng
    cfg = os.path.join(common.REPO, "test", ".ti-config")
    wd = common.make_workdir(ctx, "fr" + tag)
    hosts = []
    corpus = common.corpus_files()
    rng.shuffle(corpus)
    for f in corpus[: nhost // 2]:
        t = open(f, errors="replace").read()
        if "\x00" in t or heredoc_or_multiline(t) or not t.endswith("\n"):
            continue
        hosts.append(("corpus:" + os.path.basename(f), t))
    for i in range(nhost - len(hosts)):
        hosts.append(("gen%d" % i, progs.gen_program(rng, cfg, level=rng.choice([1, 2, 3, 4]))))
    # hosts whose branches narrow union variables (C10's programs): a fragment with its own conditional inside a branch must leave
    # the host's narrowing state alone
    from .. import narrow
    for i in range(max(4, nhost // 4)):
        hosts.append(("narrow%d" % i, narrow.Gen(rng).program()))
    # hosts that probe configured methods on fresh literals (C12's probe file: results that show whole declared return types),
    # with fragments that call methods on union receivers of two literal classes in both orders
    from . import C12
    probe = C12.probe_text(cfg)
    pairs = C12.union_pair_programs(rng, cfg, 30)        # every ordered pair of the literal classes
    jobs = []
    for pi, (pname, ptext) in enumerate(pairs):
        frag = [l.replace("uq", "zfu%d" % pi).replace("aq", "zfa%d" % pi).replace("rq", "zfr%d" % pi) for l in ptext.rstrip("\n").split("\n")]
        # keep the calls ti accepts: a fragment that is reported on its own is not used (two passes: dropping a line may unmask another)
        for _ in range(2):
            meta.write(wd, "pf.rb", "\n".join(frag) + "\n")
            rc, so, se = common.run_ti(ctx.ti, ["pf.rb"], wd)
            badrows = set(r for p_, r, x in meta.parse(so) if r is not None and not is_type_text(x))
            frag = [l for i, l in enumerate(frag, 1) if i not in badrows or i <= 2]
        if len(frag) <= 2:
            continue
        hosts.append(("probe+" + pname, probe))
        hi = len(hosts) - 1
        plines = probe.rstrip("\n").split("\n")
        j = 0 if pi % 3 else len(plines) // 3
        jobs.append((hi, "probe+" + pname, probe, "\n".join(plines[:j] + frag + plines[j:]) + "\n", j, len(frag), "insert", "\n".join(frag) + "\n"))
    for hi, (hname, host) in enumerate(hosts):
        if hname.startswith("probe+"):
            continue
        lines = host.rstrip("\n").split("\n")
        bs = boundaries(lines)
        picks = rng.sample(bs, min(len(bs), 2)) if bs else []
        for (j, ind) in picks:
            raw = fragment(rng, cfg, hi)
            frag = [" " * ind + l for l in raw]
            new = lines[:j] + frag + lines[j:]
            jobs.append((hi, hname, host, "\n".join(new) + "\n", j, len(frag), "insert", "\n".join(raw) + "\n"))
        # a whole independent program appended
        ap = fragment(rng, cfg, 1000 + hi) + fragment(rng, cfg, 2000 + hi)
        jobs.append((hi, hname, host, host + "\n".join(ap) + "\n", host.count("\n"), len(ap), "append", "\n".join(ap) + "\n"))

    def base_run(iv):
        hi, (hname, host) = iv
        meta.write(wd, "h%d.rb" % hi, host)
        return meta.outputs(ctx, wd, "h%d.rb" % hi, meta.STD_FLAGS)

    bases = dict(enumerate(common.pmap(base_run, list(enumerate(hosts)))))

    def one(iv):
        n, (hi, hname, host, new, j, k, kind, alone) = iv
        name = "v%d.rb" % n
        meta.write(wd, name, new)
        o = meta.outputs(ctx, wd, name, meta.STD_FLAGS)
        os.unlink(os.path.join(wd, name))
        meta.write(wd, "f%d.rb" % n, alone)
        fa = meta.outputs(ctx, wd, "f%d.rb" % n, [[]])
        os.unlink(os.path.join(wd, "f%d.rb" % n))
        return o, fa

    failures = []
    nontriv = set()
    shapes = {"insert-top": 0, "insert-nested": 0, "append": 0}
    for (hi, hname, host, new, j, k, kind, alone), (o, fa) in zip(jobs, common.pmap(one, list(enumerate(jobs)))):
        b = bases[hi]
        if meta.unusable(b) or meta.unusable(o) or meta.unusable(fa):
            continue
        shapes["append" if kind == "append" else ("insert-top" if not new.split("\n")[min(j, new.count("\n") - 1)].startswith(" ") else "insert-nested")] += 1
        if any(so.strip() for _, so, _ in b):
            nontriv.add(hi)
        bad = None
        # a fragment that is itself reported (its rows carry a diagnostic) triggers ti's error recovery, which forgets what the enclosing
        # body had bound: such fragments are not "independent code the analysis accepts" and are left to C07/C08
        alone_diag = [x for p_, r, x in meta.parse(fa[0][1]) if r is not None and not is_type_text(x)]
        if alone_diag:
            shapes["fragment-reported-skipped"] = shapes.get("fragment-reported-skipped", 0) + 1
            continue
        inside = [(r, x) for p_, r, x in meta.parse(o[0][1]) if r is not None and j + 1 <= r <= j + k and not is_type_text(x)]
        if inside:
            # the fragment is accepted on its own but reported next to the host: the host changed the analysis of the fragment
            failures.append({"kind": "host-changes-fragment-output", "how": kind, "host": hname, "inserted_before_line": j + 1, "fragment_lines": k, "flags": [],
                             "host_lines_lost": [], "host_lines_new": [list(map(str, i)) for i in inside[:4]], "program": new, "host_program": host,
                             "key": ["fragment-reported", inside[0][1][:60]]})
            continue
        for (rc, sb, _), (rc2, so, _), fl in zip(b, o, meta.STD_FLAGS):
            want = meta.shift_rows(meta.parse(sb), j + 1, k)
            got = [(p, r, x) for p, r, x in meta.parse(so) if r is None or not (j + 1 <= r <= j + k)]
            # C06's known finding K22: `recv.slice` at the end of the fragment's last line reports on the row of the next token
            got = [g for g in got if not (g[1] == j + k + 1 and re.match(r"^\\n is not Integer$", g[2]) and g not in want)]
            if want != got:
                bad = (fl, [w for w in want if w not in got][:5], [g for g in got if g not in want][:5])
                break
        if bad and kind == "insert":
            # K35: the insertion point lies in a brace/do body whose opening line the host run itself reports (e.g. `too many arguments`):
            # ti abandons that statement and does not evaluate the braces as a body
            hl = host.rstrip("\n").split("\n")
            ind = len(new.split("\n")[j]) - len(new.split("\n")[j].lstrip(" "))
            opener = next((r for r in range(j, 0, -1) if hl[r - 1].strip() and len(hl[r - 1]) - len(hl[r - 1].lstrip(" ")) < ind), None) if ind > 0 else None
            reported = set(r for p_, r, x in meta.parse(b[0][1]) if r is not None and not is_type_text(x))
            kf = next((f for f in ctx.findings if f.get("status") == "open" and f.get("predicate") == "insertion-inside-body-of-reported-statement"), None)
            if opener in reported and kf:
                if kf["id"] not in ctx.known_hits:
                    common.known_finding(ctx, kf, kf["what"])
                shapes["insert-inside-reported-statement (K35)"] = shapes.get("insert-inside-reported-statement (K35)", 0) + 1
                continue
        if bad:
            failures.append({"kind": "fragment-changes-host-output", "how": kind, "host": hname, "inserted_before_line": j + 1, "fragment_lines": k, "flags": bad[0],
                             "host_lines_lost": bad[1], "host_lines_new": bad[2], "program": new, "host_program": host,
                             "key": ["fragment", kind, str(bad[1][:1] or bad[2][:1])[:70]]})
    lay = ctx.cov["layers"].setdefault("e2e-fragments", {"runs": 0, "distinct_nontrivial": 0})
    lay["runs"] += 2 * (len(jobs) + len(hosts))
    lay["distinct_nontrivial"] += len(nontriv)
    d = ctx.cov.setdefault("distribution", {})
    for k2, v in shapes.items():
        d[k2] = d.get(k2, 0) + v
    if jobs:
        ctx.sample({"host": jobs[0][2][:200], "with_fragment": jobs[0][3][:400]})
    return failures


def run(ctx):
    common.build_ti(ctx)
    proof_ok = common.prove(ctx)
    replay_k31(ctx)
    failures = run_e2e(ctx, ctx.pick(140, 1400), "a")

    def search():
        return run_e2e(ctx, 250, "s")

    common.conclude(ctx, proof_ok, {}, failures, search)
    evidence(ctx)


def evidence(ctx):
    ctx.assumptions += ["statement boundaries are found textually (equal indentation, no continuation / opening construct on the previous line); corpus files with heredocs, =begin blocks or %w literals are not used as hosts",
                        "a diagnostic `\\n is not Integer` of the fragment's own last line that lands on the following host row is C06's known finding K22 (row attribution) and is not counted here",
                        "a fragment that is reported when analysed alone is skipped: after a diagnostic ti's recovery forgets bindings of the enclosing body (the restriction C08 states as `recovery effects`); a fragment that is clean alone but reported next to the host counts as interference",
                        "fragments use their own variable prefix, define nothing and call only configured methods"]
    common.write_evidence(ctx, LEVEL, RULE, trusted=common.BASE_TRUST + [
        "modelled: the analysis as table operations (Model/Analysis.lean), tied by C12's analyze op",
        "not modelled: parser flags / last evaluated value at statement boundaries, error recovery (end-to-end only)"])


def replay(ctx, path):
    r = json.load(open(path))
    print(json.dumps(r, indent=1)[:3000])
    return 1

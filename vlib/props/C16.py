"""C16 — user classes: resolution, inheritance and visibility follow Ruby."""
import json
import re
import os
from .. import common, meta

LEVEL = "proof"
RULE = ("Lean (the models are tied to base.GetMethodT / base.GetClassMethodT by the `lookup` differential stream over generated method tables and inheritance graphs): on the model of GetMethodT/getParentMethodT over Go-map models of TFrame and ClassInheritanceMap (any graph, cycles included): a resolved definition always carries the asked method "
        "name and privacy flag and exists in the table; the class's own definition wins; a direct superclass's / included module's definition is found; nothing is resolved when no key of that name "
        "exists; explicit ancestors registered through AddParentNode come before the implicit Object ancestor for any number of them, so a superclass's override of an Object method wins "
        "(`addparent` stream against base.AddParentNode); the protected-method check passes for the class itself, for a direct subclass whatever else the graph holds (cycles included), and for a descendant at ANY depth of a superclass chain (each class having the next as its first parent, other parents such as Object allowed), and it accepts only real ancestors (isAncestor_sound: a true answer means the defining class is reachable through parent edges, for every graph, fuel and entered-set; protected_outsider_reported) (`ancestor` stream against isAncestorNode on generated graphs). End-to-end: generated hierarchies (superclass chains of depth 1-4, included and extended modules, class << self, initialize, private/protected/public sections, protected calls from descendants and outsiders, overrides of to_s/inspect, classes nested after a section, receiverless calls of module methods, the whole group inside a namespace) with calls whose "
        "outcome (resolves / is reported on its row) is computed by a reference model of Ruby's rules; plus same-named classes at several lexical levels with an unqualified superclass inside nested modules "
        "(the innermost enclosing definition is the parent: C27's superclass_innermost, tied by the findns stream). Non-trivial = a hierarchy with at least one inherited call.")


def gen_case(rng, k, plain=False):
    """plain: without the constructs C23's structure parser does not know (nested classes, overrides of Object methods, namespace wrap)"""
    lines = []
    mods = []
    for m in range(rng.randint(0, 2)):
        name = "Mo%d_%d" % (k, m)
        meth = "mod%d_%d" % (k, m)
        lines += ["module %s" % name, "  def %s" % meth, "    1", "  end", "end", ""]
        mods.append((name, meth))
    classes = []          # dict: name, parent, pub, priv, prot, cms, init_arity, includes, extends

    def chain_of(ci):
        out = []
        while ci:
            out.append(ci)
            ci = ci["parent"]
        return out

    depth = rng.randint(1, 4)
    for c in range(depth):
        name = "Cl%d_%d" % (k, c)
        parent = classes[-1] if classes and rng.random() < 0.8 else None
        info = {"name": name, "parent": parent, "pub": [], "priv": [], "prot": [], "cms": [], "init": None, "inc": [], "ext": []}
        lines.append("class %s%s" % (name, " < " + parent["name"] if parent else ""))
        for (mn, mm) in mods:
            r = rng.random()
            if r < 0.25:
                lines.append("  include %s" % mn)
                info["inc"].append(mm)
            elif r < 0.4:
                lines.append("  extend %s" % mn)
                info["ext"].append(mm)
        if rng.random() < 0.5:
            ar = rng.randint(0, 2)
            lines += ["  def initialize(%s)" % ", ".join("a%d" % i for i in range(ar)), "    @v = 1", "  end"]
            info["init"] = ar
        for j in range(rng.randint(1, 3)):
            mname = "pu%d_%d_%d" % (k, c, j)
            lines += ["  def %s" % mname, "    1", "  end"]
            info["pub"].append(mname)
        if info["ext"] and rng.random() < 0.6:
            lines += ["  def self.ce%d_%d" % (k, c), "    %s" % info["ext"][0], "  end"]       # receiverless call of an extended module's method
            info["cms"].append("ce%d_%d" % (k, c))
        if info["inc"] and rng.random() < 0.6:
            lines += ["  def ci%d_%d" % (k, c), "    %s" % info["inc"][0], "  end"]
            info["pub"].append("ci%d_%d" % (k, c))
        if not plain and rng.random() < 0.25:
            om = rng.choice(["to_s", "inspect"])
            lines += ["  def %s" % om, "    %d" % (7 + c), "  end"]           # overrides Object's method with another return type
            info["over"] = om
        anc_prot = [(x["name"], m) for x in chain_of(parent) for m in x["prot"]]
        if anc_prot and rng.random() < 0.8:
            # a protected method of an ancestor (any depth) called on another object from inside a descendant: fine
            lines += ["  def pk%d_%d(other)" % (k, c), "    other.%s" % rng.choice(anc_prot)[1], "  end"]
            info["peek"] = "pk%d_%d" % (k, c)
        if rng.random() < 0.5:
            mname = "cm%d_%d" % (k, c)
            if rng.random() < 0.5:
                lines += ["  def self.%s" % mname, "    2", "  end"]
            else:
                lines += ["  class << self", "    def %s" % mname, "      2", "    end", "  end"]
            info["cms"].append(mname)
        if rng.random() < 0.5:
            mname = "pr%d_%d" % (k, c)
            lines += ["  private", "  def %s" % mname, "    3", "  end"]
            info["priv"].append(mname)
            if rng.random() < 0.5:
                lines += ["  public", "  def pb%d_%d" % (k, c), "    %s" % mname, "  end"]     # private call without receiver: fine
                info["pub"].append("pb%d_%d" % (k, c))
        elif rng.random() < 0.4:
            mname = "pt%d_%d" % (k, c)
            lines += ["  protected", "  def %s" % mname, "    4", "  end"]
            info["prot"].append(mname)
        if not plain and rng.random() < 0.25:
            # a class nested after the visibility sections: its body starts public again
            lines += ["  class In%d_%d" % (k, c), "    def inn%d_%d" % (k, c), "      5", "    end", "  end"]
            info["inner"] = ("In%d_%d" % (k, c), "inn%d_%d" % (k, c))
        lines += ["end", ""]
        classes.append(info)

    all_prot = [(x, m) for x in classes for m in x["prot"]]
    outsider = None
    if all_prot and rng.random() < 0.6:
        # the same call from a class outside the hierarchy is reported (on the line of the call in the body)
        x, m = rng.choice(all_prot)
        lines += ["class Out%d" % k, "  def pko%d(other)" % k, "    other.%s" % m, "  end", "end", ""]
        outsider = (x, len(lines) - 3)

    def chain(ci):
        out = []
        while ci:
            out.append(ci)
            ci = ci["parent"]
        return out

    expect_bad = set()
    expect_type = {}
    inherited = 0
    for ci in classes:
        var = "o_" + ci["name"].lower()
        ch = chain(ci)
        init = next((x["init"] for x in ch if x["init"] is not None), None)
        ar = init if init is not None else 0
        lines.append("%s = %s.new(%s)" % (var, ci["name"], ", ".join(["1"] * ar)))
        pubs = [m for x in ch for m in x["pub"]] + [m for x in ch for m in x["inc"]]
        privs = [m for x in ch for m in x["priv"]]
        prots = [m for x in ch for m in x["prot"]]
        cms = [m for x in ch for m in x["cms"]] + [m for x in ch for m in x["ext"]]
        for m in pubs:
            lines.append("%s.%s" % (var, m))
            if m not in ci["pub"]:
                inherited += 1
        for m in privs:
            lines.append("%s.%s" % (var, m))
            expect_bad.add(len(lines))
        for m in prots:
            lines.append("%s.%s" % (var, m))
            expect_bad.add(len(lines))
        for m in cms:
            lines.append("%s.%s" % (ci["name"], m))
        over = next((x["over"] for x in ch if x.get("over")), None)
        if over:
            lines.append("dbtp %s.%s" % (var, over))          # the nearest ancestor's definition, not Object's
            expect_type[len(lines)] = "Integer"
        if ci.get("inner"):
            lines.append("%s::%s.new.%s" % (ci["name"], ci["inner"][0], ci["inner"][1]))
        if ci.get("peek"):
            lines.append("%s.%s(%s.new(%s))" % (var, ci["peek"], ci["name"], ", ".join(["1"] * ar)))
        if pubs and rng.random() < 0.5:
            lines.append("%s.new(%s).%s" % (ci["name"], ", ".join(["1"] * ar), rng.choice(pubs)))      # chained on the fresh instance
        lines.append("%s.nope%d" % (var, k))
        expect_bad.add(len(lines))
        lines.append("%s.nope%d" % (ci["name"], k))
        expect_bad.add(len(lines))
        if init is not None:
            lines.append("%s.new(%s)" % (ci["name"], ", ".join(["1"] * (ar + 1))))
            expect_bad.add(len(lines))
        # a class method is not an instance method and vice versa
        if ci["cms"]:
            lines.append("%s.%s" % (var, ci["cms"][0]))
            expect_bad.add(len(lines))
        if ci["pub"]:
            lines.append("%s.%s" % (ci["name"], ci["pub"][0]))
            expect_bad.add(len(lines))
    if outsider:
        x, row = outsider
        init = next((y["init"] for y in chain(x) if y["init"] is not None), None)
        lines.append("ou%d = Out%d.new" % (k, k))
        lines.append("ou%d.pko%d(%s.new(%s))" % (k, k, x["name"], ", ".join(["1"] * (init or 0))))
        expect_bad.add(row)
    first_call_row = next(i + 1 for i, l in enumerate(lines) if " = Cl" in l)
    if not plain and rng.random() < 0.3:
        # the whole group inside a namespace: unqualified superclasses, includes and extends are resolved lexically
        ns = "Nw%d" % k
        defs = ["module " + ns] + [("  " + l) if l else l for l in lines[:first_call_row - 1]] + ["end"]
        calls = [re.sub(r"\b(Cl%d_\d+|Out%d)\b" % (k, k), ns + r"::\1", l) for l in lines[first_call_row - 1:]]
        lines = defs + calls
        sh = lambda r: r + 1 if r < first_call_row else r + 2
        expect_bad = set(sh(r) for r in expect_bad)
        expect_type = {sh(r): v for r, v in expect_type.items()}
        first_call_row += 2
    return "\n".join(lines) + "\n", (expect_bad, expect_type), first_call_row, inherited


def gen_lookup(rng):
    """one GetMethodT / GetClassMethodT query over a generated method table and inheritance graph (same short names in several frames,
    include/extend edges, cycles, Builtin fallbacks); the query is aimed at the graph"""
    frames = ["-", "-", "Builtin", "Core", "Ext", "Builtin::Core"]
    classes = ["Node", "Root", "Leaf", "Mod", "-"]
    meths = ["m", "n"]
    ms = set()
    for _ in range(rng.randint(1, 6)):
        ms.add("~".join([rng.choice(frames), rng.choice(classes), rng.choice(meths), rng.choice("001"), rng.choice("01")]))
    ms = sorted(ms)
    rng.shuffle(ms)
    es = []
    for _ in range(rng.randint(0, 6)):
        inc, ext = rng.choice([(0, 0), (0, 0), (0, 0), (1, 0), (0, 1)])
        es.append("~".join([rng.choice(frames), rng.choice(classes[:4]), rng.choice(frames), rng.choice(classes[:4]), str(inc), str(ext)]))
    if es and rng.random() < 0.5:
        es += ["Ext~Node~Core~Node~0~0", "Core~Node~Core~Root~0~0"]       # a chain through two classes of one short name
    bc = ",".join(rng.sample(classes[:4], rng.randint(0, 2)))
    if rng.random() < 0.8:
        src = rng.choice(es) if es and rng.random() < 0.7 else rng.choice(ms)
        f = src.split("~")
        qf, qc = f[0], f[1]
        if qc == "-":
            qc = "Node"
        if qf == "Builtin" and rng.random() < 0.5:
            qf = "-"
        mm = rng.choice(ms).split("~")
        q = " ".join(["c" if mm[4] == "1" else "i", qf, qc, mm[2], mm[3] if rng.random() < 0.8 else rng.choice("01")])
    else:
        q = " ".join([rng.choice("ic"), rng.choice(frames), rng.choice(classes[:4]), rng.choice(meths), rng.choice("001")])
    top = ",".join(rng.sample(classes[:4], rng.randint(0, 2))) if rng.random() < 0.5 else ""      # defined at top level by the program itself
    return "lookup %s | %s | %s | %s | %s" % (q, ";".join(ms), ";".join(es), bc, top)


def gen_addparent(rng):
    """a registration history of one class: the implicit Object ancestor (usually first, as the evaluators register it) and explicit ancestors"""
    nodes = []
    for _ in range(rng.randint(0, 5)):
        inc, ext = rng.choice([(0, 0), (0, 0), (1, 0), (0, 1)])
        nodes.append("~".join([rng.choice(["-", "-", "Builtin", "Mo", "Mo::Na"]), rng.choice(["Pa", "Qa", "Mod", "-"]), str(inc), str(ext)]))
    r = rng.random()
    if r < 0.7:
        nodes.insert(0, "OBJ")
    elif r < 0.85 and nodes:
        nodes.insert(rng.randint(0, len(nodes)), "OBJ")
    if rng.random() < 0.1:
        nodes.append("Builtin~-~0~0")          # the Object node passed to AddParentNode itself
    return "addparent " + " ".join(nodes)


def gen_ancestor(rng):
    """the protected-method check on a generated inheritance graph (chains, diamonds, include/extend edges, cycles)"""
    frames = ["-", "-", "Mo"]
    classes = ["A", "B", "C", "D", "E"]
    es = []
    for _ in range(rng.randint(0, 7)):
        inc, ext = rng.choice([(0, 0), (0, 0), (0, 0), (1, 0), (0, 1)])
        es.append("~".join([rng.choice(frames), rng.choice(classes), rng.choice(frames), rng.choice(classes), str(inc), str(ext)]))
    if rng.random() < 0.3:
        es += ["-~A~-~B~0~0", "-~B~-~C~0~0", "-~C~-~A~0~0"]       # a cycle
    if rng.random() < 0.3:
        es += ["-~E~-~D~0~0", "-~D~-~C~0~0"]                     # a chain
    rng.shuffle(es)
    n = lambda: "~".join([rng.choice(frames), rng.choice(classes), rng.choice("0001"), "0"])
    return "ancestor %s %s | %s" % (n(), n(), ";".join(es))


def gen_ns_case(rng, k):
    """classes of one short name at several lexical levels; `class Sub < Core` must inherit from the innermost enclosing definition"""
    core = "Core%d" % k
    depth = rng.randint(2, 3)                      # the subclass lives inside `depth` nested modules
    mods = ["Nz%d%s" % (k, "abc"[i]) for i in range(depth)]
    levels = [l for l in range(depth + 1) if rng.random() < 0.6]      # level 0 = top level, level i = inside mods[:i]
    if not levels:
        levels = [rng.randint(0, depth)]
    lines = []

    def core_def(l, ind):
        return [ind + "class %s" % core, ind + "  def lv%d_only%d" % (l, k), ind + "    1", ind + "  end",
                ind + "  def self.mk%d_%d" % (l, k), ind + "    2", ind + "  end", ind + "end"]

    if 0 in levels:
        lines += core_def(0, "")
    for i in range(depth):
        lines.append("  " * i + "module %s" % mods[i])
        if (i + 1) in levels:
            lines += core_def(i + 1, "  " * (i + 1))
    ind = "  " * depth
    lines += [ind + "class Sub%d < %s" % (k, core), ind + "  def own%d" % k, ind + "    1", ind + "  end", ind + "end"]
    for i in reversed(range(depth)):
        lines.append("  " * i + "end")
    first = len(lines) + 1
    q = "::".join(mods) + "::Sub%d" % k
    lines.append("sb = %s.new" % q)
    resolved = max(levels)
    bad = set()
    lines.append("sb.own%d" % k)
    for l in range(depth + 1):
        if l in levels:
            lines.append("sb.lv%d_only%d" % (l, k))
            if l != resolved:
                bad.add(len(lines))
            lines.append("%s.mk%d_%d" % (q, l, k))
            if l != resolved:
                bad.add(len(lines))
    return "\n".join(lines) + "\n", bad, first, 1 if len(levels) > 1 else 0


def run_e2e(ctx, n, tag):
    rng = ctx.rng
    wd = common.make_workdir(ctx, "e2e" + tag)
    cases = [gen_case(rng, k) for k in range(n)] + [gen_ns_case(rng, 5000 + k) for k in range(max(10, n // 5))]

    def one(iv):
        k, (text, bad, first, inh) = iv
        name = "cl%s%d.rb" % (tag, k)
        meta.write(wd, name, text)
        return common.run_ti(ctx.ti, [name], wd)

    failures = []
    nontriv = 0
    for (text, bad, first, inh), (rc, so, se) in zip(cases, common.pmap(one, list(enumerate(cases)))):
        if rc != 0 or "timeout" in so.split("\n"):
            continue
        if inh:
            nontriv += 1
        got = {}
        for line in so.split("\n"):
            f = line.split(":::", 2)
            if len(f) == 3:
                got.setdefault(int(f[1]), []).append(f[2])
        bad, types = bad if isinstance(bad, tuple) else (bad, {})
        wrong_type = [(r, t, got.get(r)) for r, t in sorted(types.items()) if got.get(r) != [t]]
        for r in types:
            got.pop(r, None)
        rows_bad = set(r for r in got if r >= first or r in bad)
        defs_bad = [r for r in got if r < first and r not in bad]
        if wrong_type:
            tl = text.split("\n")
            failures.append({"kind": "class-resolution", "wrong_type": [(r, tl[r - 1], want, g) for r, want, g in wrong_type][:5], "not_reported": [], "wrongly_reported": [],
                             "program": text, "output": so[:1500], "key": ["class", "type " + tl[wrong_type[0][0] - 1].split(".")[-1][:8]]})
        elif rows_bad != bad or defs_bad:
            miss = sorted(bad - rows_bad)
            extra = sorted(rows_bad - bad) + defs_bad
            tl = text.split("\n")
            failures.append({"kind": "class-resolution", "not_reported": [(r, tl[r - 1]) for r in miss][:5],
                             "wrongly_reported": [(r, tl[r - 1], got[r]) for r in extra][:5], "program": text, "output": so[:1500],
                             "key": ["class", ("miss " + tl[miss[0] - 1].split(".")[-1][:2]) if miss else ("extra " + str(got[extra[0]])[:40])]})
    lay = ctx.cov["layers"].setdefault("e2e-class-hierarchies", {"runs": 0, "distinct_nontrivial": 0})
    lay["runs"] += len(cases)
    lay["distinct_nontrivial"] += nontriv
    if cases:
        ctx.sample({"program": cases[0][0][:600], "rows_expected_to_be_reported": sorted(cases[0][1][0] if isinstance(cases[0][1], tuple) else cases[0][1])})
    return failures


def run(ctx):
    from . import C27
    common.build_ti(ctx)
    common.build_godrv(ctx)
    proof_ok = common.prove(ctx, extra_modules=["RubyTi.Props.C27"])
    dis = common.run_stream(ctx, "findns", [C27.gen_findns(ctx.rng) for _ in range(ctx.pick(3000, 30000))])
    dis2 = common.run_stream(ctx, "lookup", [gen_lookup(ctx.rng) for _ in range(ctx.pick(12000, 120000))])
    failures = run_e2e(ctx, ctx.pick(400, 4000), "a") + C27.run_samename(ctx, ctx.pick(20, 200), "c16")

    def search():
        return run_e2e(ctx, 800, "s") + C27.run_samename(ctx, 60, "c16s")

    dis3 = common.run_stream(ctx, "addparent", [gen_addparent(ctx.rng) for _ in range(ctx.pick(4000, 40000))])
    dis4 = common.run_stream(ctx, "ancestor", [gen_ancestor(ctx.rng) for _ in range(ctx.pick(6000, 60000))])
    common.conclude(ctx, proof_ok, {"findns": dis, "lookup": dis2, "addparent": dis3, "ancestor": dis4}, failures, search)
    evidence(ctx)


def evidence(ctx):
    ctx.assumptions += ["class and module names are fresh (do not collide with configured class names)"]
    common.write_evidence(ctx, LEVEL, RULE, trusted=common.BASE_TRUST + [
        "modelled: GetMethodT / getParentMethodT over the Go-map models of TFrame and ClassInheritanceMap",
        "not modelled: how class/module/include/extend/def evaluators populate the maps, the visibility checks of the strategies (end-to-end against a Ruby reference model)"])


def replay(ctx, path):
    r = json.load(open(path))
    print(json.dumps(r, indent=1)[:3000])
    return 1

"""C14 — keyword argument order at a call site is irrelevant."""
import itertools
import json
import os
from .. import common

LEVEL = "proof"
RULE = ("Lean: any two admissible results of prioritizeArgTs (positional ++ ANY key-sorted permutation of the keyword arguments) coincide when the call "
        "sites agree on positionals and on the multiset of keyword arguments with distinct keys. Stream prio/pdef: real prioritizeArgTs / "
        "prioritizeDefineArgNames vs the model on generated argument lists. End-to-end: user-defined and configured methods called with 2-5 keyword "
        "arguments (required, defaulted, missing, unknown, mixed with positionals) in every permutation (random sample beyond 24); outputs of ti and ti -i "
        "must be identical. Non-trivial = at least two distinct permutations.")

KEYS = ["a", "b", "c", "d", "ab", "zz", "k", "name", "é", "B", "_x", "a1"]


def gen_ops(ctx, n):
    rng = ctx.rng
    ops = []
    for _ in range(n):
        k = rng.randint(0, 8)
        keys = rng.sample(KEYS, min(k, len(KEYS)))
        items = ["k:" + x for x in keys] + ["p:v%d" % i for i in range(rng.randint(0, 3))]
        rng.shuffle(items)
        ops.append("prio " + " ".join(items))
    for _ in range(n // 3):
        names = [rng.choice(KEYS) + rng.choice(["", ":", ":", "="]) for _ in range(rng.randint(0, 7))]
        names = [x for x in names if x]
        ops.append("pdef " + " ".join(names))
    return ops


VALS = {"Integer": "1", "String": "'s'", "Float": "1.5", "NilClass": "nil", "Symbol": ":s", "Array": "[1]"}


def gen_case(rng, k):
    """A user-defined method with keyword parameters and a set of calls whose keyword arguments get permuted."""
    nkw = rng.randint(2, 5)
    keys = rng.sample(["a", "b", "c", "d", "e", "ab", "zz", "k"], nkw)
    npos = rng.randint(0, 2)
    params = ["p%d" % i for i in range(npos)]
    for key in keys:
        r = rng.random()
        params.append(key + ":" if r < 0.5 else "%s: %s" % (key, rng.choice(["nil", "1", "'x'"])))
    body = ["  dbtp %s" % key for key in keys] + ["  1"]
    method = "def meth%d(%s)\n%s\nend\n" % (k, ", ".join(params), "\n".join(body))
    # call: choose which keys to pass (maybe missing one, maybe an unknown one)
    passed = [key for key in keys if rng.random() < 0.85]
    if rng.random() < 0.25:
        passed.append("unk")
    if len(passed) < 2:
        passed = keys[:2]
    kv = ["%s: %s" % (key, rng.choice(list(VALS.values()))) for key in passed]
    pos = [rng.choice(list(VALS.values())) for _ in range(npos)]
    if rng.random() < 0.3:
        # a receiver that is a union of two user classes which both define the method: the same evaluated arguments are bound twice
        ind = "\n".join("  " + l for l in method.rstrip("\n").split("\n"))
        method = "class Ka%d\n%s\nend\nclass Kb%d\n%s\nend\nu%d = true ? Ka%d.new : Kb%d.new\n" % (k, ind, k, ind, k, k, k)
        return method, pos, kv, "u%d." % k
    return method, pos, kv, ""


def builtin_case(rng):
    # configured methods with keyword parameters in the shipped test configuration
    kv = ["name: %s" % rng.choice(["1", "'s'"]), "age: 2"][: rng.randint(1, 2)]
    return None, [], kv


def run_e2e(ctx, n):
    rng = ctx.rng
    wd = common.make_workdir(ctx, "e2e")
    cases = []
    for k in range(n):
        method, pos, kv, recv = gen_case(rng, k)
        perms = list(itertools.permutations(kv))
        if len(perms) > 24:
            perms = [perms[0]] + rng.sample(perms[1:], 11)
        elif len(perms) > 12:
            perms = [perms[0]] + rng.sample(perms[1:], 11)
        progs = []
        for pi, perm in enumerate(perms):
            args = ", ".join(pos + list(perm))
            style = k % 3
            call = ("r = %smeth%d(%s)" if style == 0 else "r = %smeth%d %s" if style == 1 else "r = %smeth%d(%s)\ndbtp r") % (recv, k, args)
            progs.append(method + call + "\n")
        cases.append((k, progs, kv))

    def one(c):
        k, progs, kv = c
        outs = []
        for pi, prog in enumerate(progs):
            name = "c%d_%d.rb" % (k, pi)
            open(os.path.join(wd, name), "w").write(prog)
            o = []
            for fl in ([], ["-i"]):
                rc, so, se = common.run_ti(ctx.ti, [name] + fl, wd)
                o.append((rc, so.replace(name, "F"), "panic" in se))
            outs.append(o)
            os.unlink(os.path.join(wd, name))
        return outs

    results = common.pmap(one, cases)
    failures = []
    runs = 0
    nontriv = 0
    for (k, progs, kv), outs in zip(cases, results):
        runs += 2 * len(progs)
        if len(progs) > 1:
            nontriv += 1
        for pi in range(1, len(outs)):
            if outs[pi] != outs[0]:
                failures.append({"kind": "keyword-order-changes-output", "program_a": progs[0], "program_b": progs[pi],
                                 "out_a": outs[0], "out_b": outs[pi], "key": ["e2e", progs[0][:100]]})
                break
    ctx.cov["layers"]["e2e-permutations"] = {"runs": runs, "distinct_nontrivial": nontriv, "cases": len(cases)}
    if cases:
        ctx.sample({"program": cases[0][1][0], "permutations": len(cases[0][1])})
    return failures


def run(ctx):
    common.build_ti(ctx)
    common.build_godrv(ctx)
    proof_ok = common.prove(ctx)
    wd = common.make_workdir(ctx, "cfg")
    dis = {}
    ops = gen_ops(ctx, ctx.pick(3000, 30000))
    if proof_ok:
        dis["prio"] = common.run_stream(ctx, "prio", ops, cwd=wd)
    for o in ops[:3]:
        ctx.sample(o)
    failures = run_e2e(ctx, ctx.pick(90, 900))

    def search():
        return run_e2e(ctx, 400)

    common.conclude(ctx, proof_ok, dis, failures, search)
    evidence(ctx)


def evidence(ctx):
    ctx.assumptions += ["duplicate keyword keys at one call site are outside the statement",
                        "argument collection (collectArgs) and the binder are exercised end-to-end only; the theorem covers the ordering step every binder input passes through"]
    common.write_evidence(ctx, LEVEL, RULE, trusted=common.BASE_TRUST + [
        "modelled: prioritizeArgTs / prioritizeDefineArgNames (sort.Slice as any sorted permutation)",
        "not modelled: collectArgs, checkAndPropagateArgs (black-box via permutations)"])


def replay(ctx, path):
    r = json.load(open(path))
    print(json.dumps(r, indent=1)[:3000])
    return 1

"""C20 — declarations for classes a program never mentions do not affect it."""
import json
import os
import re
import shutil
from .. import common, meta, progs, cfggen, robust

LEVEL = "proof"
RULE = ("Lean: writes to map keys a program never looks up are invisible to it; token classification (IsClassIdentifier / IsConstIdentifier over the flat BuiltinClasses list) ignores added "
        "short names the identifier does not equal; the collision case is refuted with a witness. Streams tok (classification with the configured class list), config and lookup (include/extend edges consult the list minus what the program defines at top level). End-to-end: corpus and "
        "generated programs analysed with and without generated extra configuration files whose class names the program never mentions (plain, in other frames, and namespaced `Zq::Name` where `Name` is a class the program defines itself); outputs of ti and ti -i "
        "must be identical. Non-trivial = baseline output non-empty.")


def extra_files(rng, mentioned):
    """extra classes: fresh names never mentioned by the program"""
    files = {}
    k = rng.randint(1, 4)
    for i in range(k):
        name = "Qx%s%d" % (rng.choice(["Alpha", "Beta", "Gamma"]), i)
        frame = rng.choice(["Builtin", "Builtin", "Builtin::Outer%d" % i, "Deep::Ns%d" % i])
        cls = {"frame": frame, "class": name,
               "instance_methods": [{"name": rng.choice(["to_s", "size", "each", "qx_m%d" % j, "foo", "name"]), "arguments": [{"type": [rng.choice(cfggen.ARG)]}],
                                     "return_type": {"type": [rng.choice(cfggen.RET)]}} for j in range(rng.randint(1, 4))],
               "class_methods": [{"name": "new", "arguments": [], "return_type": {"type": [name]}}] +
                                ([{"name": rng.choice(["methods", "methods", "name", "class", "qx_cm"]), "arguments": [{"type": [rng.choice(cfggen.ARG)]}],
                                   "return_type": {"type": ["Int"]}}] if rng.random() < 0.6 else []),      # names Object answers too
               "extends": rng.choice([[], [], ["String"], ["Enumerable"]])}
        assert name not in mentioned
        files["qx_extra_%d.json" % i] = cls
    # a namespaced class whose LAST segment is a class the program defines itself: `Zq::Item` is not `Item`
    own = sorted(set(re.findall(r"^\s*class\s+([A-Z][A-Za-z0-9]*[a-z][A-Za-z0-9]*)\b", mentioned, re.M)))
    mods = sorted(set(re.findall(r"^\s*module\s+([A-Z][A-Za-z0-9]*[a-z][A-Za-z0-9]*)\b", mentioned, re.M)))
    if (own or mods) and rng.random() < 0.7:
        # a class of another frame with the short name of a class or MODULE the program defines (`Gui::Helper` is not `App::Helper`)
        short = rng.choice(own + mods + mods)
        files["qx_fr_%s.json" % short.lower()] = {
            "frame": rng.choice(["Gui", "Builtin::Gui", "Zq::Inner"]), "class": short,
            "instance_methods": [{"name": rng.choice(["tooltip", "qx_only", "name", "size"]), "arguments": [{"type": ["String"]}], "return_type": {"type": ["String"]}}],
            "class_methods": [], "extends": [], "constants": []}
    if own and rng.random() < 0.7:
        short = rng.choice(own)
        files["qx_ns_%s.json" % short.lower()] = {
            "frame": rng.choice(["Builtin", "Builtin", ""]), "class": "Zq::" + short,
            "instance_methods": [{"name": rng.choice(["price", "qx_only", "zz_nope", "name", "size"]), "arguments": [], "return_type": {"type": ["Int"]}} for _ in range(2)],
            "class_methods": [{"name": "qx_make", "arguments": [], "return_type": {"type": ["Int"]}}], "extends": [], "constants": []}
    return files


# programs aimed at lookups that consult the flat list of configured short names or the Object fallback
AIMED = [
    "module App\n  module Helper\n    def help(n)\n      n + 1\n    end\n  end\nend\n\nclass Widget\n  include App::Helper\n\n  def initialize(n)\n    @count = n\n  end\n\n  def run(x)\n    help(x) + @count\n  end\nend\n\nw = Widget.new(1)\nw.run(2)\ndbtp w.help(3)\nw.help(\"a\")\n",
    "module Tools\n  def tool\n    :t\n  end\nend\nclass Bench\n  extend Tools\n  include Tools\nend\ndbtp Bench.tool\ndbtp Bench.new.tool\nBench.tool(1)\n",
    "class Foo\nend\nx = Foo.methods(1)\ndbtp x\ndbtp Foo.methods\nFoo.name\nFoo.new.class\ndbtp Foo.new.to_s\nFoo.new.to_s(1)\n",
    "module Outer\n  class Node\n    def val\n      1\n    end\n  end\n  class Leaf < Node\n  end\nend\nl = Outer::Leaf.new\ndbtp l.val\nl.nope\nOuter::Node.methods(2)\n",
    "class Base\n  def self.build\n    new\n  end\n  def hi\n    's'\n  end\nend\nclass Derived < Base\nend\ndbtp Derived.build\ndbtp Derived.new.hi\nDerived.methods('x')\n",
]


def run_e2e(ctx, n, tag):
    rng = ctx.rng
    base = os.path.join(common.REPO, "test", ".ti-config")
    jobs = []
    cf_all = common.corpus_files()
    corpus = rng.sample(cf_all, min(n, len(cf_all)))
    texts = [open(f, errors="replace").read() for f in corpus] + [progs.gen_program(rng, base, level=rng.choice([2, 3, 4])) for _ in range(n)]
    texts += [a for a in AIMED for _ in range(max(5, n // 12))]
    for i, t in enumerate(texts):
        if "Qx" in t:
            continue
        d0 = os.path.join(ctx.tmp, "c20%s_%d_a" % (tag, i))
        d1 = os.path.join(ctx.tmp, "c20%s_%d_b" % (tag, i))
        os.makedirs(d0)
        os.makedirs(d1)
        cfggen.write_config(base, d0, {})
        ex = extra_files(rng, t)
        cfggen.write_config(base, d1, ex)
        jobs.append((d0, d1, t, ex))

    def one(job):
        d0, d1, t, ex = job
        meta.write(d0, "p.rb", t)
        meta.write(d1, "p.rb", t)
        a = meta.outputs(ctx, d0, "p.rb", meta.STD_FLAGS)
        # aim the lookalike at what the baseline reports: `Zq::C` declares exactly the methods the program's own class C lacks
        own = set(re.findall(r"^\s*class\s+([A-Z]\w*)", t, re.M))
        k = 0
        for _, so, _ in a[:1]:
            for m in re.finditer(r"(instance|class) method '([^']+)' is not defined for (\w+)", so):
                kind, meth, cls = m.groups()
                if cls in own and k < 3:
                    k += 1
                    decl = {"name": meth, "arguments": [{"type": "*Untyped"}], "return_type": {"type": ["Int"]}}
                    f = {"frame": "Builtin", "class": "Zq::" + cls, "instance_methods": [decl] if kind == "instance" else [], "class_methods": [decl] if kind == "class" else [],
                         "extends": [], "constants": []}
                    ex["qx_aim_%d.json" % k] = f
                    json.dump(f, open(os.path.join(d1, ".ti-config", "qx_aim_%d.json" % k), "w"))
        return a, meta.outputs(ctx, d1, "p.rb", meta.STD_FLAGS)

    failures = []
    nontriv = 0
    for (d0, d1, t, ex), (a, b) in zip(jobs, common.pmap(one, jobs)):
        if meta.unusable(a) or meta.unusable(b):
            continue
        if any(so.strip() for _, so, _ in a):
            nontriv += 1
        if a != b:
            failures.append({"kind": "unmentioned-class-changes-output", "program": t, "extra_config": ex, "out_without": a, "out_with": b, "key": ["extra", t[:60]]})
        shutil.rmtree(d0, ignore_errors=True)
        shutil.rmtree(d1, ignore_errors=True)
    lay = ctx.cov["layers"].setdefault("e2e-extra-config", {"runs": 0, "distinct_nontrivial": 0})
    lay["runs"] += 4 * len(jobs)
    lay["distinct_nontrivial"] += nontriv
    if jobs:
        ctx.sample({"extra_config": list(jobs[0][3].values())[0], "program": jobs[0][2][:160]})
    return failures


def run(ctx):
    common.build_ti(ctx)
    common.build_godrv(ctx)
    proof_ok = common.prove(ctx)
    wd = common.make_workdir(ctx, "cfg")
    dis = {}
    if proof_ok:
        bcs = robust.builtin_classes(ctx, wd)
        dis["tok"] = common.run_stream(ctx, "tok", robust.tok_ops(ctx, ctx.pick(1200, 12000), bcs), cwd=wd)
    if proof_ok:
        from . import C16
        # include / extend edges consult the flat list too (minus what the program defines at top level itself)
        dis["lookup"] = common.run_stream(ctx, "lookup", [C16.gen_lookup(ctx.rng) for _ in range(ctx.pick(6000, 60000))])
    failures = run_e2e(ctx, ctx.pick(70, 700), "a")

    def search():
        return run_e2e(ctx, 150, "s")

    common.conclude(ctx, proof_ok, dis, failures, search)
    evidence(ctx)


def evidence(ctx):
    ctx.assumptions += ["extra classes either use short names that do not occur in the program text, or (lookalikes) sit in another frame and share the short name of a class or module the program defines, "
                        "which must contain a lower-case rune: an ALL-CAPITAL program constant that equals a configured short name is classified differently (`classify_collision`, the refuted case of the flat BuiltinClasses list)"]
    common.write_evidence(ctx, LEVEL, RULE, trusted=common.BASE_TRUST + [
        "modelled: TFrame as a Go map; Token.classify with the BuiltinClasses list", "modelled: the BuiltinClasses redirect of include/extend edges in getParentMethodT (lookup stream)", "modelled: the superclass choice of eval/class.go (Namespace.superclassFrame); its shape in the source is a regenerated syntactic fact (Gen/ClassFacts.lean), its behaviour is tied end-to-end"])


def replay(ctx, path):
    r = json.load(open(path))
    print(json.dumps(r, indent=1)[:3000])
    return 1

"""C12 — analysing a program never alters configured builtin signatures."""
import json
import os
import re
import shutil
from .. import common, meta, progs, straight, calls

LEVEL = "proof"
RULE = ("Lean: on the table model of the analysis, for every initial table and every sequence of writes outside the Builtin frame and calls of configured methods (any receivers and arguments), every "
        "Builtin-frame entry is unchanged (builtin_invariant) and the type of a configured call is the same after the program as before it (probe_independent). The premise — the analyser never writes to a "
        "Builtin-frame key and computes results on copies — is checked against the real code on every program by the in-process `analyze` op (verif hook): all Builtin-frame TFrame entries (method types, "
        "declared parameter types, overloads, flags) are rendered before and after the four rounds. Black-box: a probe file exercising configured methods on fresh literal receivers must print the same "
        "alone and appended to a program. Programs: corpus files that do not reopen configured classes, typed-grammar programs (levels 0-4), straight-line programs and call programs over generated configurations.")

REOPEN = re.compile(r"^\s*class\s+(Integer|String|Array|Hash|Float|Symbol|NilClass|Object|Kernel|Range|Proc|Comparable|Enumerable|Bool|TrueClass|FalseClass)\b", re.M)


def esc(t):
    return t.replace("\\", "\\\\").replace("\n", "\\n")


def programs(ctx, n, cfgdir):
    rng = ctx.rng
    out = []
    corpus = [f for f in common.corpus_files()]
    rng.shuffle(corpus)
    for f in corpus[: n // 2]:
        t = open(f, errors="replace").read()
        if "\x00" in t or REOPEN.search(t):
            continue
        out.append(("corpus:" + os.path.basename(f), t))
    shipped = straight.calls_from_config(cfgdir)
    out += union_pair_programs(rng, cfgdir, max(6, n // 20))
    out += misuse_programs(rng, cfgdir, max(6, n // 20))
    for i in range(n // 4):
        out.append(("grammar%d" % i, progs.gen_program(rng, cfgdir, level=rng.choice([0, 1, 2, 3, 4]))))
    for i in range(n // 4):
        g = straight.Gen(rng, shipped)
        out.append(("straight%d" % i, g.program(rng.randint(8, 16))))
    return out


def union_pair_programs(rng, cfgdir, n):
    """calls on union receivers built from two literal classes, in both orders, for the method names (operators included) that both
    classes declare: the return types of the two declarations are merged while the call is resolved"""
    import glob
    lits = {"Integer": "1", "Float": "1.5", "String": "'s'", "Symbol": ":a", "Array": "[1]", "Hash": "{a: 1}"}
    meths = {}
    for f in glob.glob(os.path.join(cfgdir, "*.json")):
        try:
            d = json.load(open(f))
        except Exception:
            continue
        if d.get("class") in lits and d.get("frame") == "Builtin":
            for m in d.get("instance_methods") or []:
                if not m.get("block_parameters"):
                    meths.setdefault(d["class"], {})[m["name"]] = len([a for a in (m.get("arguments") or []) if not a.get("is_default")])
    out = []
    pairs = [(a, b) for a in sorted(meths) for b in sorted(meths) if a != b]
    rng.shuffle(pairs)
    for (a, b) in pairs[:n]:
        common_names = sorted(set(meths[a]) & set(meths[b]))
        lines = ["uq = true ? %s : %s" % (lits[a], lits[b]), "aq = 2"]
        for name in common_names:
            ar = max(meths[a][name], meths[b][name])
            if re.match(r"^[a-z_][a-z0-9_]*[?!]?$", name):
                lines.append("uq.%s%s" % (name, "(%s)" % ", ".join(["aq"] * ar) if ar else ""))
            elif name in ("+", "-", "*", "/", "%", "==", "<", ">", "<=", ">=", "<=>", "<<", "&", "|"):
                lines.append("rq = uq %s aq" % name)
        out.append(("unionpair:%s|%s" % (a, b), "\n".join(lines) + "\n"))
    return out


def run_analyze(ctx, n, tag):
    """in-process analysis; returns failures (programs after which a baseline Builtin-frame entry differs)"""
    import time
    t0 = time.time()
    rng = ctx.rng
    base = os.path.join(common.REPO, "test", ".ti-config")
    failures = []
    groups = []
    wd0 = common.make_workdir(ctx, "an" + tag)
    groups.append((wd0, programs(ctx, n, base), None))
    # generated configurations with union receivers, overloads, rest parameters
    for ci in range(max(2, n // 150)):
        mdl = calls.gen_config(rng, n=rng.randint(2, 4), shipped_dir=base)
        wd = os.path.join(ctx.tmp, "an%s_c%d" % (tag, ci))
        os.makedirs(os.path.join(wd, ".ti-config"))
        for f in os.listdir(base):
            shutil.copy(os.path.join(base, f), os.path.join(wd, ".ti-config", f))
        for fn, c in mdl.files.items():
            json.dump(c, open(os.path.join(wd, ".ti-config", fn), "w"))
        ps = []
        for pi in range(30):
            g = calls.ProgGen(rng, mdl, errors=(pi % 2 == 0))
            ps.append(("calls%d_%d" % (ci, pi), g.program(rng.randint(8, 16))))
        groups.append((wd, ps, mdl.files))
    nops = 0
    for wd, ps, cfg in groups:
        # shards of 40 programs per process: a corruption is attributed to the first program that shows it
        for s in range(0, len(ps), 40):
            shard = ps[s:s + 40]
            ans = common.run_lines(ctx.godrv, ["analyze " + esc(t) for _, t in shard], cwd=wd)
            nops += len(shard)
            for (name, t), a in zip(shard, ans):
                if a.startswith("changed=") and not a.startswith("changed=0 "):
                    failures.append({"kind": "builtin-entry-changed", "program_name": name, "program": t, "answer": a[:1500], "config": cfg,
                                     "key": ["builtin-changed", a.split(" ", 3)[2][:60] if len(a.split(" ", 3)) > 2 else a[:40]]})
                    break
    st = ctx.cov["streams"].setdefault("analyze", {"ops": 0, "disagreements": 0, "wall_s": 0.0})
    st["ops"] += nops
    st["disagreements"] += len(failures)
    st["wall_s"] = round(st["wall_s"] + time.time() - t0, 2)
    return failures


def constructors(cfgdir):
    """configured classes of frame Builtin with a class method `new`: (class, number of required parameters, number of all parameters)"""
    import glob
    out = []
    for f in sorted(glob.glob(os.path.join(cfgdir, "*.json"))):
        try:
            d = json.load(open(f))
        except Exception:
            continue
        if d.get("frame") != "Builtin" or not re.match(r"^[A-Z][A-Za-z]*[a-z][A-Za-z]*$|^GPIO$", d.get("class") or ""):
            continue
        for m in d.get("class_methods") or []:
            if m["name"] == "new":
                args = m.get("arguments") or []
                ts = [a.get("type") if isinstance(a.get("type"), list) else [a.get("type")] for a in args]
                req = len([t for t, a in zip(ts, args) if not a.get("is_default") and not any(str(x).startswith(("Default", "Optional", "?")) for x in t)])
                out.append((d["class"], req, len(args)))
    return out


def misuse_programs(rng, cfgdir, n):
    """programs whose calls of configured constructors and methods FAIL their argument check (too many / too few arguments): the error
    path of a call must leave the declaration as it was"""
    cs = constructors(cfgdir)
    out = []
    for i in range(n):
        lines = []
        for cls, req, tot in rng.sample(cs, min(len(cs), rng.randint(1, 3))):
            k = rng.choice([tot + 1, tot + 2] + ([req - 1] if req > 0 else []))
            lines.append("mq%d = %s.new(%s)" % (len(lines), cls, ", ".join(["1"] * k)))
        lines += rng.sample(["'s'.upcase(1, 2)", "[1].push", "1.times(1, 2, 3)", "{a: 1}.fetch", "[1, 2].first(1, 2, 3)", "1.5.round(1, 2, 3)", ":a.to_s(1)"], 3)
        rng.shuffle(lines)
        out.append(("misuse%d" % i, "\n".join(lines) + "\n"))
    return out


def probe_text(cfgdir):
    """one dbtp per configured method of the literal classes, on a fresh literal receiver with sample arguments, plus the operators"""
    shipped = straight.calls_from_config(cfgdir)
    recv = {"Integer": "2", "Float": "2.5", "String": "'q'", "Symbol": ":q", "Array": "[1, 2]", "Hash": "{a: 1}"}
    lines = []
    for cls, ms in sorted(shipped.items()):
        for m, args, ret in ms:
            lines.append("dbtp %s.%s%s" % (recv[cls], m, "(%s)" % args if args else ""))
    for a, op, b in [("2", "*", "3"), ("2", "+", "3"), ("2", "-", "1.5"), ("2", "/", "3"), ("2", "%", "3"), ("2.5", "*", "2"), ("'a'", "+", "'b'"), ("'a'", "*", "3"), ("[1]", "+", "[2]")]:
        lines.append("zq = %s %s %s" % (a, op, b))
        lines.append("dbtp zq")
    lines.append("wq = 3\nzq2 = 2 * wq\ndbtp zq2")
    for cls, req, tot in constructors(cfgdir):
        for k in sorted(set([req, tot])):
            lines.append("cq = %s.new(%s)" % (cls, ", ".join(["1"] * k)))       # a valid constructor call: no diagnostic, whatever was analysed before
            lines.append("dbtp cq")
    for a, op in [("2", "*"), ("2", "+"), ("2.5", "*"), ("'a'", "+"), ("'a'", "*")]:
        lines.append("zq3 = %s %s undefq" % (a, op))       # an argument of unknown type: the whole declared return type shows
        lines.append("dbtp zq3")
    return "\n".join(lines) + "\n"


def run_probes(ctx, n, tag):
    rng = ctx.rng
    base = os.path.join(common.REPO, "test", ".ti-config")
    wd = common.make_workdir(ctx, "pr" + tag)
    probe = probe_text(base)
    meta.write(wd, "probe.rb", probe)
    rc, alone, se = common.run_ti(ctx.ti, ["probe.rb"], wd)
    alone_rows = [(r, x) for p, r, x in meta.parse(alone)]
    ps = programs(ctx, n, base)

    def one(iv):
        i, (name, t) = iv
        if not t.endswith("\n"):
            t += "\n"
        meta.write(wd, "w%d.rb" % i, t + probe)
        r = common.run_ti(ctx.ti, ["w%d.rb" % i], wd)
        os.unlink(os.path.join(wd, "w%d.rb" % i))
        return r

    failures = []
    used = 0
    for (name, t), (rc2, so, se2) in zip(ps, common.pmap(one, list(enumerate(ps)))):
        if rc2 != 0 or "timeout" in so.split("\n") or "syntax error" in so:
            continue
        off = (t if t.endswith("\n") else t + "\n").count("\n")
        got = [(r - off, x) for p, r, x in meta.parse(so) if r is not None and r > off]
        used += 1
        if got != alone_rows:
            diff = [(a, b) for a, b in zip(alone_rows, got) if a != b][:4]
            failures.append({"kind": "probe-depends-on-earlier-code", "program_name": name, "program": t, "probe_alone_vs_after": diff, "key": ["probe", str(diff[:1])[:80]]})
    lay = ctx.cov["layers"].setdefault("e2e-probes", {"runs": 0, "distinct_nontrivial": 0})
    lay["runs"] += len(ps) + 1
    lay["distinct_nontrivial"] += used
    ctx.sample({"probe_lines": probe.count("\n"), "probe_head": probe[:200]})
    return failures


def run(ctx):
    common.build_ti(ctx)
    common.build_godrv(ctx)
    proof_ok = common.prove(ctx)
    fa = run_analyze(ctx, ctx.pick(400, 3000), "a")
    fp = run_probes(ctx, ctx.pick(160, 1200), "a")

    def search():
        return run_analyze(ctx, 600, "s") + run_probes(ctx, 200, "s")

    common.conclude(ctx, proof_ok, {"analyze": fa}, fa + fp, search)
    evidence(ctx)


def evidence(ctx):
    ctx.assumptions += ["programs that reopen a configured class (class Integer, class String, ...) are excluded, as the statement does",
                        "the in-process analysis replicates main.go's round loop without the output modes; the snapshot compares the entries present when the process started (new Builtin-frame keys are not declarations)",
                        "black-box probes are skipped for programs after which ti prints a syntax error (unterminated constructs swallow the probes)"]
    common.write_evidence(ctx, LEVEL, RULE, trusted=common.BASE_TRUST + [
        "modelled: the analysis as writes outside the Builtin frame and copy-then-resolve calls (Model/Analysis.lean); calculateExecutionType as in C09",
        "not modelled: the evaluators that issue the writes; pointer sharing between T values (observed through the snapshot hook instead)"])


def replay(ctx, path):
    r = json.load(open(path))
    print(json.dumps({k: v for k, v in r.items() if k not in ("config",)}, indent=1)[:3000])
    return 1

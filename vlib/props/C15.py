"""C15 — user method parameter and return types are inferred from all call sites."""
import json
import os
from .. import common, meta, calls, usermeth

LEVEL = "proof"
RULE = ("Lean: on the model of propagationForCalledTo: replaying the call sites of a method — any non-empty list of plain argument types, in any round, from an empty slot or from the single-class slot an "
        "earlier round left — leaves a parameter slot that covers the type of EVERY call site (covers_all_sites, covers_all_sites_next_round; invariant + induction over the site list); a union slot "
        "inferred from calls only accumulates. The model is tied by the `prop` differential stream through a verif hook (site sequences over several rounds from empty, plain and defaulted slots). "
        "End-to-end: generated programs with 1-4 user methods (positional, default and keyword parameters), 1-5 call sites each placed before / after the definition and inside another method: "
        "dbtp of each parameter inside the body must cover the classes of all sites, dbtp of each call result must be the body's result type (explicit `return` included), a body operation defined "
        "for none of the parameter's classes must be reported on its row and one defined for all of them must not.")


def stream_ops(rng, n):
    SC = ["I", "S", "F", "Y", "N", "B", "O:Foo", "U", "A( I )", "H( a= I )"]
    ops = []
    for _ in range(n):
        r = rng.random()
        if r < 0.6:
            init = "-"
        elif r < 0.8:
            init = "D:" + rng.choice(SC[:7])
        else:
            init = "V:" + rng.choice(SC[:7] + ["U( I S )", "U( U I )", "K"])
        rounds = ["define", "collect", "inference", "check"]
        sites = [rng.choice(SC) if rng.random() < 0.85 else "U( " + " ".join(rng.sample(SC[:7], 2)) + " )" for _ in range(rng.randint(1, 4))]
        steps = []
        for rd in rounds[rng.randint(0, 2):]:
            for a in sites:
                if rng.random() < 0.9:
                    steps.append("%s:%s" % (rd, a))
        ops.append("prop %s | %s" % (init, " ; ".join(steps)))
    return ops


def run_e2e(ctx, n, tag):
    rng = ctx.rng
    base = os.path.join(common.REPO, "test", ".ti-config")
    mdl = calls.shipped_model(base)
    wd = common.make_workdir(ctx, "um" + tag)
    jobs = []
    for k in range(n):
        g = usermeth.Gen(rng, mdl)
        jobs.append(("um%s%d.rb" % (tag, k), g.program(), g))

    def one(job):
        name, text, g = job
        meta.write(wd, name, text)
        return common.run_ti(ctx.ti, [name], wd)

    failures = []
    tot = {}
    for (name, text, g), (rc, so, se) in zip(jobs, common.pmap(one, jobs)):
        if rc != 0 or "timeout" in so.split("\n"):
            continue
        got = {}
        for l in so.split("\n"):
            f = l.split(":::", 2)
            if len(f) == 3 and f[1].isdigit():
                got.setdefault(int(f[1]), []).append(f[2])
        for r, kind, data in g.checks:
            tot[kind] = tot.get(kind, 0) + 1
            out = got.get(r, [])
            if kind == "covers":
                types = [x for x in out if " is " not in x and "mismatch" not in x and " for " not in x]
                ok = bool(types) and all(set(data) <= usermeth.classes_of(t) for t in types)
            elif kind == "returns":
                ok = len(out) == 1 and usermeth.classes_of(out[0]) == set(data)
            elif kind == "silent":
                ok = not any("not defined" in x for x in out)
            else:
                ok = any("not defined" in x for x in out)
            if ok:
                continue
            pred = g.known.get(r)
            kf = next((f for f in ctx.findings if f.get("status") == "open" and f.get("predicate") == pred), None) if pred else None
            if kf:
                if kf["id"] not in ctx.known_hits:
                    common.known_finding(ctx, kf, kf["what"])
                break
            failures.append({"kind": "user-method-inference", "check": kind, "row": r, "line": g.lines[r - 1], "expected": data, "got": out, "program": text, "output": so[:1500],
                             "key": ["usermeth", kind, str(data)[:24], str(out)[:24]]})
            break
    lay = ctx.cov["layers"].setdefault("e2e-user-methods", {"runs": 0, "distinct_nontrivial": 0})
    lay["runs"] += len(jobs)
    lay["distinct_nontrivial"] += sum(tot.values())
    d = ctx.cov.setdefault("distribution", {})
    for k, v in tot.items():
        d["check-" + k] = d.get("check-" + k, 0) + v
    if jobs:
        ctx.sample({"program": jobs[0][1][:600]})
    return failures


def run(ctx):
    common.build_ti(ctx)
    common.build_godrv(ctx)
    proof_ok = common.prove(ctx)
    dis = {"prop": common.run_stream(ctx, "prop", stream_ops(ctx.rng, ctx.pick(12000, 120000)))}
    failures = run_e2e(ctx, ctx.pick(300, 3000), "a")

    def search():
        return run_e2e(ctx, 600, "s")

    common.conclude(ctx, proof_ok, dis, failures, search)
    evidence(ctx)


def evidence(ctx):
    ctx.assumptions += ["call-site arguments are literals of Integer / String / Float / Symbol / NilClass; `covers` = the rendered parameter type contains every site class (extra classes, e.g. a default value's, are allowed)",
                        "body operations are judged only when the shipped configuration's declarations for all classes of the parameter are within the oracle's vocabulary (vlib/calls.py)",
                        "rows of methods covered by the known finding K32 (call placed before the definition of a method with two or more positional parameters and a keyword parameter) are not judged"]
    common.write_evidence(ctx, LEVEL, RULE, trusted=common.BASE_TRUST + [
        "modelled: propagationForCalledTo for methods defined in ruby source (slot = TFrame value + Round tag); AppendVariant / UnifyVariants / IsMatchType from the C09 / C07 models",
        "not modelled: def header parsing, SnapShotArgumentTypes / RestoreArgumentTypes, unifyReturnT / makeReturnT, the four-round driver (end-to-end against vlib/usermeth.py)"])


def replay(ctx, path):
    r = json.load(open(path))
    print(json.dumps(r, indent=1)[:3000])
    return 1

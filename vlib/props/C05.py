"""C05 — same input, same output (run-to-run determinism)."""
import json
import os
import shutil
from .. import common, progs

LEVEL = "proof"
RULE = ("Lean: for ANY map iteration order and ANY sorted permutation returned by the unstable sort, the rendered signature sequence is unique (both comparators, "
        "field order regenerated from signature.go); every range over a map in the module is on a reviewed list (regenerated with go/types). Stream sortsig: the real "
        "GetSortedTSignatures/ByClass on real Go maps (4 calls each, fresh iteration order) vs the model. End-to-end: every output mode on corpus and generated programs, "
        "N separate processes with varied GOMAXPROCS/GOGC, byte comparison (--define as sorted lines). Non-trivial = output longer than 1 line.")

MODES = [[], ["-i"], ["--hover", "--row={r}"], ["--suggest", "--row={r}"], ["--llm-nav"], ["--llm-nav", "--all"],
         ["--llm-nav", "--target={t}"], ["--llm-define"], ["--llm-class"], ["--extends", "--class={c}"], ["--define", "--row={r}"]]
NAMES = ["a", "b", "test", "to_s", "x", "new", "each"]
CLASSES = ["", "Test", "Integer", "Foo", "Bar", "Object", "Kernel"]
FRAMES = ["", "Builtin", "M", "M::N"]


def gen_ops(ctx, n):
    rng = ctx.rng
    ops = []
    for _ in range(n):
        k = rng.randint(0, 9)
        sigs = []
        for _ in range(k):
            m, c, f = rng.choice(NAMES), rng.choice(CLASSES), rng.choice(FRAMES)
            d = "%s.%s(%s)" % (c, m, rng.choice(["", "Integer", "String", "Integer, String"]))
            sigs.append("~".join([m, d, f, c, str(rng.randint(0, 1)), rng.choice(["unknown", "f.rb", "g.rb"]), str(rng.randint(0, 30))]))
        # duplicates of the full key are excluded (the map key determines them in the implementation)
        sigs = list(dict.fromkeys(sigs))
        fn = rng.choice(["GetSortedTSignatures", "GetSortedTSignaturesByClass"])
        ops.append("%s | %s" % ("sortsig " + fn, " ;; ".join(sigs)))
    return ops


def run_e2e(ctx, nfiles, nproc):
    rng = ctx.rng
    wd = common.make_workdir(ctx, "e2e")
    files = rng.sample(common.corpus_files(), min(nfiles, 585))
    jobs = []
    for i, f in enumerate(files):
        name = os.path.basename(f)
        shutil.copy(f, os.path.join(wd, name))
        text = open(f, errors="replace").read()
        rows = text.count("\n") + 1
        for mode in MODES:
            fl = [a.format(r=rng.randint(1, rows), t=rng.choice(["test", "Test", "hoge", "initialize"]),
                           c=rng.choice(["Integer", "Base", "Test", "String", "Hoge"])) for a in mode]
            jobs.append((name, fl))
    # generated programs with overloads / same-named class+instance methods / same-named classes in two frames
    for i, text in enumerate(progs.determinism_programs(rng, max(4, nfiles // 4))):
        name = "gen%d.rb" % i
        open(os.path.join(wd, name), "w").write(text)
        for mode in MODES:
            fl = [a.format(r=rng.randint(1, text.count("\n") + 1), t="go", c=rng.choice(["Base", "Aa", "Integer"])) for a in mode]
            jobs.append((name, fl))
    # conditionals that narrow several union variables at once (their else branch is computed by a loop over a map of variables)
    from .. import narrow
    for i in range(max(6, nfiles // 3)):
        g = narrow.Gen(rng)
        text = g.program()
        name = "nar%d.rb" % i
        open(os.path.join(wd, name), "w").write(text)
        jobs.append((name, []))
        jobs.append((name, ["-i"]))
    rng.shuffle(jobs)
    envs = [{"GOMAXPROCS": "1"}, {"GOMAXPROCS": "2"}, {"GOMAXPROCS": "16"}, {"GOMAXPROCS": "4", "GOGC": "1"},
            {"GOMAXPROCS": "8", "GOGC": "off"}, {"GOMAXPROCS": "3"}, {}, {"GOMAXPROCS": "5", "GOGC": "10"}]

    def one(job):
        name, fl = job
        outs = []
        for i in range(nproc):
            env = dict(os.environ)
            env.update(envs[i % len(envs)])
            rc, so, se = common.run_ti(ctx.ti, [name] + fl, wd, env=env)
            if fl and fl[0] == "--define":
                so = "\n".join(sorted(so.split("\n")))
            outs.append((rc, so))
        return outs

    results = common.pmap(one, jobs)
    failures = []
    nontriv = 0
    for (name, fl), outs in zip(jobs, results):
        if outs[0][1].count("\n") > 1:
            nontriv += 1
        if any(o != outs[0] for o in outs[1:]):
            other = next(o for o in outs[1:] if o != outs[0])
            failures.append({"kind": "nondeterministic-output", "file": name, "flags": fl,
                             "program": open(os.path.join(wd, name), errors="replace").read()[:3000],
                             "out_a": outs[0][1][-1500:], "out_b": other[1][-1500:], "key": ["nondet", " ".join(fl[:1])]})
    ctx.cov["layers"]["e2e-repeated-runs"] = {"runs": len(jobs) * nproc, "distinct_nontrivial": nontriv, "jobs": len(jobs), "processes_per_job": nproc}
    if jobs:
        ctx.sample({"file": jobs[0][0], "flags": jobs[0][1]})
    return failures


def run(ctx):
    common.build_ti(ctx)
    common.build_godrv(ctx)
    proof_ok = common.prove(ctx)
    wd = common.make_workdir(ctx, "cfg")
    dis = {}
    ops = gen_ops(ctx, ctx.pick(2500, 25000))
    if proof_ok:
        dis["sortsig"] = common.run_stream(ctx, "sortsig", ops, cwd=wd)
    ctx.sample(ops[0])
    # implementation-level oracle: the real getter must give one order for one map content (4 calls, fresh iteration order each)
    failures = []
    for a, op in zip(common.run_lines(ctx.godrv, ops[:1500], cwd=wd), ops[:1500]):
        if a.startswith("NONDET"):
            failures.append({"kind": "sorted-signatures-differ-between-calls", "op": op, "observed": a[:1500], "key": ["nondet-unit", op.split(" ")[1]],
                             "replay_cmd": "echo '<op>' | godrv  # built from /repo with -tags verif"})
    failures += run_e2e(ctx, ctx.pick(20, 120), ctx.pick(4, 10))

    def search():
        return run_e2e(ctx, 60, 8)

    common.conclude(ctx, proof_ok, dis, failures, search)
    evidence(ctx)


def evidence(ctx):
    ctx.assumptions += ["entries of TSignatures that agree on (method, class, frame, static, detail, file, row) also agree on document/private (both are functions of the map key)",
                        "scheduler/GC effects and the race between the 500 ms watchdog and os.Exit are outside any executable model; runs that print `timeout` are re-run alone"]
    common.write_evidence(ctx, LEVEL, RULE, trusted=common.BASE_TRUST + [
        "modelled: Go map iteration as an arbitrary permutation, slices.SortFunc as an arbitrary sorted permutation, both comparators (field order regenerated)",
        "reviewed by hand (list in Props/C05.lean, membership re-checked by decide): why each map range cannot influence output order"])


def replay(ctx, path):
    r = json.load(open(path))
    print(json.dumps(r, indent=1)[:3000])
    return 1

"""C22 — definition info and hover point at the right definition."""
import json
import os
import re
from .. import common, meta, robust

LEVEL = "proof"
RULE = ("Lean: ErrorRow captured after a freshly lexed non-newline token (the `def` keyword) is the line the token starts on; the visibility tag is a function of the flags, and after any sequence of "
        "private/protected/public keywords exactly the last one applies. Tied by the tok stream (rows in every answer). End-to-end: generated classes and modules with methods under "
        "public/private/protected sections, def self., class << self, endless defs, multi-line signatures and top-level methods: the -i hint and the --define record of every method must name the "
        "target file and the row of its `def` line with the right c/ or i/ tag and visibility; --hover on every row holding a single call must show that method's signature.")


def gen_case(rng, k):
    """returns (text, defs, calls): defs = [(row, name, static, visibility, class)], calls = [(row, method name)]"""
    lines = []
    defs = []
    calls = []
    cname = "Dk%d" % k
    lines.append("class %s" % cname)
    vis = "public"
    inst, stat = [], []
    for i in range(rng.randint(2, 6)):
        r = rng.random()
        if r < 0.25:
            vis = rng.choice(["private", "protected", "public"])
            lines.append("  %s" % vis)
            lines.append("")
            continue
        name = "me%d_%d" % (k, i)
        style = rng.choice(["plain", "plain", "self", "endless", "multi", "sclass", "endless-multi", "self-endless-multi", "self-multi"])
        row = len(lines) + 1
        if style == "plain":
            lines += ["  def %s(a)" % name, "    a", "  end"]
            defs.append((row, name, False, vis, cname))
            if vis == "public":
                inst.append((name, 1))
        elif style == "self":
            lines += ["  def self.%s(a)" % name, "    a", "  end"]
            defs.append((row, name, True, vis, cname))
            if vis == "public":
                stat.append((name, 1))
        elif style == "endless":
            lines += ["  def %s(a) = a" % name]
            defs.append((row, name, False, vis, cname))
            if vis == "public":
                inst.append((name, 1))
        elif style == "endless-multi":
            # the signature of an endless definition spread over two or three lines: the row is still the `def` line
            if rng.random() < 0.5:
                lines += ["  def %s(a," % name, "      b) = a"]
            else:
                lines += ["  def %s(a," % name, "      b,", "      c = 2) = a"]
            defs.append((row, name, False, vis, cname))
        elif style == "self-endless-multi":
            lines += ["  def self.%s(a," % name, "      b = 2) = a"]
            defs.append((row, name, True, vis, cname))
        elif style == "self-multi":
            lines += ["  def self.%s(a," % name, "      b)", "    a", "  end"]
            defs.append((row, name, True, vis, cname))
        elif style == "multi":
            lines += ["  def %s(a," % name, "      b)", "    a", "  end"]
            defs.append((row, name, False, vis, cname))
            if vis == "public":
                inst.append((name, 2))
        else:
            lines += ["  class << self", "    def %s(a)" % name, "      a", "    end", "  end"]
            defs.append((row + 1, name, True, vis, cname))
            if vis == "public":
                stat.append((name, 1))
        if rng.random() < 0.3:
            lines.append("")
    lines.append("end")
    lines.append("")
    tname = "top%d" % k
    row = len(lines) + 1
    r = rng.random()
    if r < 0.4:
        lines += ["def %s(t)" % tname, "  t", "end"]
    elif r < 0.7:
        lines += ["def %s(t) = t" % tname]
    else:
        lines += ["def %s(t," % tname, "    u = 1) = t"]
    defs.append((row, tname, False, "public", ""))
    lines.append("o%d = %s.new" % (k, cname))
    for name, ar in inst:
        calls.append((len(lines) + 1, name, "%s.%s" % (cname, name)))
        lines.append("o%d.%s(%s)" % (k, name, ", ".join(["1"] * ar)))
    for name, ar in stat:
        calls.append((len(lines) + 1, name, "%s.%s" % (cname, name)))
        lines.append("%s.%s(1)" % (cname, name))
    calls.append((len(lines) + 1, tname, tname))
    lines.append("%s(1)" % tname)
    return "\n".join(lines) + "\n", defs, calls


def run_e2e(ctx, n, tag):
    rng = ctx.rng
    wd = common.make_workdir(ctx, "e2e" + tag)
    cases = [gen_case(rng, k) for k in range(n)]
    jobs = []
    for k, (text, defs, calls) in enumerate(cases):
        name = "df%s%d.rb" % (tag, k)
        meta.write(wd, name, text)
        jobs.append((name, ["-i"], k, None))
        jobs.append((name, ["--define", "--row=1"], k, None))
        for row, m, shown in calls:
            jobs.append((name, ["--hover", "--row=%d" % row], k, (row, m, shown)))

    def one(job):
        name, fl, k, info = job
        return common.run_ti(ctx.ti, [name] + fl, wd)

    failures = []
    nontriv = 0
    for (name, fl, k, info), (rc, so, se) in zip(jobs, common.pmap(one, jobs)):
        text, defs, calls = cases[k]
        if rc != 0 or "timeout" in so.split("\n"):
            continue
        why = None
        if fl == ["-i"]:
            nontriv += 1
            hints = {}
            for line in so.split("\n"):
                m = re.match(r"^@(.+?):::(\d+):::(.*) \[([ci])/(\w+)\]$", line)
                if m:
                    if m.group(1) != name:
                        why = "hint names another file: " + line
                    hints[int(m.group(2))] = (m.group(4), m.group(5))
            for row, mname, static, vis, cls in defs:
                want = ("c" if static else "i", "public" if (static and vis != "public" and False) else vis)
                got = hints.get(row)
                if got is None:
                    why = "no -i hint on row %d for %s" % (row, mname)
                elif got[0] != want[0]:
                    why = "hint for %s tagged %s/, expected %s/" % (mname, got[0], want[0])
                elif got[1] != want[1] and not static:
                    why = "hint for %s has visibility %s, expected %s" % (mname, got[1], want[1])
        elif fl[0] == "--define":
            recs = {}
            for line in so.split("\n"):
                f = line.split(":::")
                if line.startswith("%") and len(f) == 5 and f[3] == name:
                    recs[f[2]] = int(f[4])
            for row, mname, static, vis, cls in defs:
                # --define --row=1 lists the signatures whose static flag matches the captured target (an instance context on row 1)
                if static:
                    continue
                if recs.get(mname) != row:
                    why = "--define record for %s names row %s, expected %d" % (mname, recs.get(mname), row)
        else:
            row, mname, shown = info
            if not any(l.startswith("%" + mname + ":::") for l in so.split("\n")):
                why = "--hover on row %d (call of %s) does not show its signature: %r" % (row, mname, so[:200])
        if why:
            failures.append({"kind": "definition-info", "why": why, "flags": fl, "program": text, "output": so[:1500], "key": ["definfo", why.split(" ")[0], text[:50]]})
    lay = ctx.cov["layers"].setdefault("e2e-definition-info", {"runs": 0, "distinct_nontrivial": 0})
    lay["runs"] += len(jobs)
    lay["distinct_nontrivial"] += nontriv
    if cases:
        ctx.sample({"program": cases[0][0][:400]})
    return failures


def run(ctx):
    common.build_ti(ctx)
    common.build_godrv(ctx)
    proof_ok = common.prove(ctx)
    wd = common.make_workdir(ctx, "cfg")
    dis = {}
    if proof_ok:
        bcs = robust.builtin_classes(ctx, wd)
        dis["tok"] = common.run_stream(ctx, "tok", robust.tok_ops(ctx, ctx.pick(1200, 12000), bcs), cwd=wd)
    failures = run_e2e(ctx, ctx.pick(110, 1100), "a")

    def search():
        return run_e2e(ctx, 250, "s")

    common.conclude(ctx, proof_ok, dis, failures, search)
    evidence(ctx)


def evidence(ctx):
    ctx.assumptions += ["hover is asked on rows holding exactly one call", "the visibility of class methods (def self. / class << self) is not compared: Ruby's private does not apply to them and ti tags them with the section in effect"]
    common.write_evidence(ctx, LEVEL, RULE, trusted=common.BASE_TRUST + [
        "modelled: row bookkeeping of parser/read.go; the visibility flags of context/context.go", "not modelled: Def.Evaluation / setDefineInfos article recording (end-to-end)"])


def replay(ctx, path):
    r = json.load(open(path))
    print(json.dumps(r, indent=1)[:3000])
    return 1

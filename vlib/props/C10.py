"""C10 — nil?/is_a? narrowing is exact inside branches and undone afterwards."""
import json
import os
from .. import common, meta, narrow

LEVEL = "proof"
RULE = ("Lean: on the model of setConditionalCtx / narrowing / the restore closures: in the branch a test admits the variable is the unified tested class; in the branch that excludes it, exactly the "
        "variants whose class is not the tested one, in order; the else branch of a positive test likewise; no other variable changes; after the conditional every tested variable has its previous value. "
        "The model is tied by the `narrow` differential stream through a verif hook (sequences of tested atoms, else and elsif steps over 1-3 variables of generated union types); two facts about "
        "Evaluation (state maps saved/restored, elsif restores deferred) are re-extracted from the source. End-to-end: generated programs with 2-3 union variables and conditionals "
        "(if/unless/elsif/else, nil?, !nil?, is_a?, && chains, nesting to depth 2, unrelated statements and conditionals inside branches); dbtp of every variable inside each branch and after `end` "
        "against a reference model of the admitted variants.")


def stream_ops(rng, n):
    SC = {"Integer": "I", "String": "S", "Float": "F", "Symbol": "Y", "NilClass": "N", "Bool": "B", "Foo": "O:Foo", "Array": "A( I )", "Hash": "H( a= I )"}
    ops = []
    for _ in range(n):
        names = ["x", "y", "z"][: rng.randint(1, 3)]
        decls = []
        for nm in names:
            k = rng.choice([1, 2, 2, 3, 3])
            cs = rng.sample(list(SC), k)
            decls.append("%s=%s" % (nm, SC[cs[0]] if k == 1 else "U( " + " ".join(SC[c] for c in cs) + " )"))
        steps = []
        for _ in range(rng.randint(1, 5)):
            r = rng.random()
            if r < 0.7:
                steps.append("c %s %s %s %s" % (rng.choice(names), rng.choice(list(SC)[:7] + ["Array", "Hash", "Bar"]), rng.choice("001"), rng.choice("0001")))
            elif r < 0.85:
                steps.append("e")
            else:
                steps.append("s")
        ops.append("narrow %s | %s | %s" % (rng.choice(["if", "unless"]), ";".join(decls), ";".join(steps)))
    return ops


def run_e2e(ctx, n, tag):
    rng = ctx.rng
    wd = common.make_workdir(ctx, "nw" + tag)
    jobs = []
    for k in range(n):
        feats = rng.choice(["", "e", "n", "u", "en", "enu", "enuc", "enuc", "c"])
        g = narrow.Gen(rng, nesting="n" in feats, unrelated="u" in feats, elsif="e" in feats, chains="c" in feats)
        jobs.append(("nw%s%d.rb" % (tag, k), g.program(), g))

    def one(job):
        name, text, g = job
        meta.write(wd, name, text)
        return common.run_ti(ctx.ti, [name], wd)

    failures = []
    shapes = {}
    rows = 0
    for (name, text, g), (rc, so, se) in zip(jobs, common.pmap(one, jobs)):
        if rc != 0 or "timeout" in so.split("\n"):
            continue
        for k, v in g.shapes.items():
            shapes[k] = shapes.get(k, 0) + v
        got = {}
        for l in so.split("\n"):
            f = l.split(":::", 2)
            if len(f) == 3 and f[1].isdigit():
                got.setdefault(int(f[1]), []).append(f[2])
        for r, e in sorted(g.expect.items()):
            rows += 1
            if got.get(r) == [e]:
                continue
            pred = g.known.get(r)
            kf = next((f for f in ctx.findings if f.get("status") == "open" and f.get("predicate") == pred), None) if pred else None
            if kf:
                if kf["id"] not in ctx.known_hits:
                    common.known_finding(ctx, kf, kf["what"])
                break          # what follows a deviating branch may be affected by it
            failures.append({"kind": "narrowed-type-differs", "row": r, "line": g.lines[r - 1], "expected": e, "got": got.get(r), "program": text, "output": so[:1500],
                             "key": ["narrow", e[:14], str(got.get(r))[:18]]})
            break
    lay = ctx.cov["layers"].setdefault("e2e-narrowing", {"runs": 0, "distinct_nontrivial": 0})
    lay["runs"] += len(jobs)
    lay["distinct_nontrivial"] += rows
    d = ctx.cov.setdefault("distribution", {})
    for k, v in shapes.items():
        d[k] = d.get(k, 0) + v
    if jobs:
        ctx.sample({"program": jobs[0][1][:500]})
    return failures


def run(ctx):
    common.build_ti(ctx)
    common.build_godrv(ctx)
    proof_ok = common.prove(ctx)
    dis = {"narrow": common.run_stream(ctx, "narrow", stream_ops(ctx.rng, ctx.pick(15000, 150000)))}
    failures = run_e2e(ctx, ctx.pick(350, 3500), "a")

    def search():
        return run_e2e(ctx, 600, "s")

    common.conclude(ctx, proof_ok, dis, failures, search)
    evidence(ctx)


def evidence(ctx):
    ctx.assumptions += ["is_a? is tested with Ruby class names; Bool variants are narrowed through nil? only (ti's Bool is not a Ruby class)",
                        "branches never assign the narrowed variables (the statement's proviso); other statements and conditionals inside branches are allowed",
                        "rows covered by the known findings K29 (elsif with a negated test after earlier narrowing of the same variable) and K30 (negative branch of an && chain) are not judged; judging of a program stops at such a row"]
    common.write_evidence(ctx, LEVEL, RULE, trusted=common.BASE_TRUST + [
        "modelled: setConditionalCtx, narrowing, the elsif reset, the restore closures (Model/Narrow.lean); ConvertToBuiltinT from the regenerated table",
        "regenerated syntactic facts about IfUnless.Evaluation (Gen/NarrowFacts.lean)",
        "not modelled: getBackupContext's token-level parsing of the condition, branch evaluation (end-to-end against vlib/narrow.py)"])


def replay(ctx, path):
    r = json.load(open(path))
    print(json.dumps(r, indent=1)[:3000])
    return 1

"""C27 — same-named classes in different namespaces do not interfere."""
import json
import os
import re
from .. import common, meta

LEVEL = "proof"
RULE = ("Lean: M::C splits into namespace M / class C and A::B::C into frame A::B (models of SeparateNameSpaces / CalculateFrame); frames of differently wrapped groups differ, so all their map "
        "keys differ, and writes under a decoy's frame are invisible to lookups under the group's frame; the lexical lookup of an unqualified superclass (FindDefinedClassFrame, tied by the findns stream) answers the innermost enclosing namespace that defines the class. End-to-end: a generated self-contained class group (inheritance inside the group, instance "
        "and class methods, calls that resolve and calls that are reported) analysed at top level, wrapped in one and in two modules (outside references qualified), and next to a same-named decoy "
        "class with different methods and parent (in another module, or in the ENCLOSING module of a doubly wrapped group); diagnostics and dbtp output must be identical up to the module prefix in messages and the row shift. Non-trivial = baseline prints at least 3 lines.")


def gen_group(rng, k):
    """(definition lines, usage lines, class names)"""
    names = ["Nq%d%s" % (k, s) for s in ("Aa", "Bb", "Cc")][: rng.randint(2, 3)]
    G, U = [], []
    infos = []
    for i, n in enumerate(names):
        parent = names[rng.randrange(i)] if i > 0 and rng.random() < 0.6 else None
        G.append("class %s%s" % (n, " < " + parent if parent else ""))
        meths = []
        for j in range(rng.randint(1, 3)):
            m = "gm%d_%d_%d" % (k, i, j)
            ret = rng.choice(["1", "'s'", "1.5", ":a", "nil"])
            G += ["  def %s(x)" % m, "    %s" % ret, "  end"]
            meths.append(m)
        if rng.random() < 0.5:
            cm = "gc%d_%d" % (k, i)
            G += ["  def self.%s" % cm, "    %s.new" % n, "  end"]
            meths.append("self." + cm)
        G.append("end")
        infos.append((n, parent, meths))
    for (n, parent, meths) in infos:
        v = "u_" + n.lower()
        U.append("%s = %s.new" % (v, n))
        chain = [x for x in infos if x[0] == n]
        p = parent
        while p:
            pi = next(x for x in infos if x[0] == p)
            chain.append(pi)
            p = pi[1]
        for (cn, _, ms) in chain:
            for m in ms:
                if m.startswith("self."):
                    if cn == n:
                        U.append("w_%d = %s.%s" % (len(U), n, m[5:]))
                        U.append("dbtp w_%d" % (len(U) - 1))
                else:
                    U.append("dbtp %s.%s(1)" % (v, m))
        U.append("%s.nothing%d" % (v, k))
        U.append("%s.nothing%d" % (n, k))
        U.append("%s.%s" % (v, chain[0][2][0].replace("self.", "")))     # missing argument or class method on instance: reported either way
    return G, U, names


def variant(G, U, names, wrap, decoy, rng):
    """returns (text, row_of_definition_line i, row_of_usage_line i)"""
    lines = []
    if decoy == "before":
        lines += decoy_lines(names, rng)
    for d, w in enumerate(wrap):
        lines.append("  " * d + "module %s" % w)
        if decoy == "outer" and d == 0 and len(wrap) >= 2:
            # a same-named class in the ENCLOSING namespace: the group's unqualified references must still find the innermost one
            lines += ["  " + l for l in decoy_lines(names, rng)[1:-1]]
    gstart = len(lines)
    lines += ["  " * len(wrap) + g for g in G]
    for d in reversed(range(len(wrap))):
        lines.append("  " * d + "end")
    if decoy == "after":
        lines += decoy_lines(names, rng)
    ustart = len(lines)
    prefix = "::".join(wrap)
    for u in U:
        if prefix:
            for n in names:
                u = re.sub(r"\b%s\b" % n, prefix + "::" + n, u)
        lines.append(u)
    return "\n".join(lines) + "\n", gstart, ustart


def decoy_lines(names, rng):
    n = names[0]
    # a class with the same short name in another namespace, different parent and methods
    return ["module Dz%s" % n, "  class Other%s" % n, "    def zz", "      1", "    end", "  end",
            "  class %s < Other%s" % (n, n), "    def decoy_only(a, b)", "      a", "    end", "  end", "end"]


def normalise(so, gstart, ustart, glen, prefix):
    out = []
    for p, r, x in meta.parse(so):
        if r is None:
            out.append((p, r, x))
            continue
        if r > ustart:
            r2 = ("u", r - ustart)
        elif gstart < r <= gstart + glen:
            r2 = ("g", r - gstart)
        else:
            r2 = ("other", r)
        if prefix:
            x = x.replace(prefix + "::", "")
        out.append((p, r2, x))
    return out


def run_e2e(ctx, n, tag):
    rng = ctx.rng
    wd = common.make_workdir(ctx, "e2e" + tag)
    jobs = []
    for k in range(n):
        G, U, names = gen_group(rng, k)
        vs = [((), None), (("Wm%d" % k,), None), (("Wm%d" % k, "Wn%d" % k), None), ((), rng.choice(["before", "after"])), (("Wm%d" % k,), "before"), (("Wm%d" % k, "Wn%d" % k), "outer")]
        jobs.append((k, G, U, names, vs))

    def one(job):
        k, G, U, names, vs = job
        res = []
        for vi, (wrap, decoy) in enumerate(vs):
            text, gs, us = variant(G, U, names, list(wrap), decoy, rng)
            name = "ns%s%d_%d.rb" % (tag, k, vi)
            meta.write(wd, name, text)
            outs = meta.outputs(ctx, wd, name, [[]])
            res.append((text, outs, gs, us, "::".join(wrap)))
        return res

    failures = []
    nontriv = 0
    runs = 0
    for (k, G, U, names, vs), res in zip(jobs, common.pmap(one, jobs)):
        runs += len(res)
        if any(meta.unusable(r[1]) for r in res):
            continue
        base = normalise(res[0][1][0][1], res[0][2], res[0][3], len(G), res[0][4])
        if len(base) >= 3:
            nontriv += 1
        for (text, outs, gs, us, prefix), (wrap, decoy) in zip(res[1:], vs[1:]):
            got = normalise(outs[0][1], gs, us, len(G), prefix)
            if got != base:
                failures.append({"kind": "namespace-interference", "wrap": list(wrap), "decoy": decoy, "top_level_program": res[0][0], "variant_program": text,
                                 "expected": [list(map(str, x)) for x in base if x not in got][:6], "got": [list(map(str, x)) for x in got if x not in base][:6],
                                 "key": ["ns", len(wrap), str(decoy)]})
                break
    lay = ctx.cov["layers"].setdefault("e2e-namespaces", {"runs": 0, "distinct_nontrivial": 0})
    lay["runs"] += runs
    lay["distinct_nontrivial"] += nontriv
    if jobs:
        ctx.sample({"group": jobs[0][1][:12], "usage": jobs[0][2][:8]})
    return failures


def samename_case(rng, k):
    """an inheritance chain that passes through two classes of ONE short name in different namespaces; the control gives the
    second class another name. Returns (text, control text, the other name)"""
    depth = rng.randint(1, 2)
    lines = ["module Cq%da" % k, "  class Root%d" % k, "    def lbl%d" % k, "      %s" % rng.choice(["1", "'s'", ":a"]), "    end",
             "    def self.mk%d" % k, "      2", "    end", "  end"]
    if depth == 2:
        lines += ["  class Mid%d < Root%d" % (k, k), "    def mid%d" % k, "      1.5", "    end", "  end"]
    lines += ["  class Node%d < %s%d" % (k, "Mid" if depth == 2 else "Root", k), "    def own_a%d" % k, "      1", "    end", "  end", "end",
              "module Cq%db" % k, "  class NODE < Cq%da::Node%d" % (k, k), "    def own_b%d" % k, "      's'", "    end", "  end", "end",
              "xq = Cq%db::NODE.new" % k, "dbtp xq.lbl%d" % k, "dbtp xq.own_a%d" % k, "dbtp xq.own_b%d" % k, "dbtp Cq%db::NODE.mk%d" % (k, k)]
    if depth == 2:
        lines.append("dbtp xq.mid%d" % k)
    lines += ["xq.nope%d" % k, "yq = Cq%da::Node%d.new" % (k, k), "yq.own_b%d" % k, "dbtp yq.lbl%d" % k]
    text = "\n".join(lines) + "\n"
    other = "Leaf%d" % k
    return text.replace("NODE", "Node%d" % k), text.replace("NODE", other), other


def run_samename(ctx, n, tag):
    rng = ctx.rng
    wd = common.make_workdir(ctx, "sn" + tag)
    cases = [samename_case(rng, k) for k in range(n)]

    def one(iv):
        k, (same, ctl, other) = iv
        meta.write(wd, "sn%d.rb" % k, same)
        meta.write(wd, "sc%d.rb" % k, ctl)
        return meta.outputs(ctx, wd, "sn%d.rb" % k, [[]]), meta.outputs(ctx, wd, "sc%d.rb" % k, [[]])

    failures = []
    for (k, (same, ctl, other)), (a, b) in zip(enumerate(cases), common.pmap(one, list(enumerate(cases)))):
        if meta.unusable(a) or meta.unusable(b):
            continue
        sa = a[0][1].replace("sn%d.rb" % k, "F")
        sb = b[0][1].replace("sc%d.rb" % k, "F").replace(other, "Node%d" % k)
        if sa != sb:
            failures.append({"kind": "same-short-name-in-chain", "program": same, "control_program": ctl, "output": sa, "control_output": sb, "key": ["samename", sa[:60]]})
    lay = ctx.cov["layers"].setdefault("e2e-samename-chain", {"runs": 0, "distinct_nontrivial": 0})
    lay["runs"] += 2 * len(cases)
    lay["distinct_nontrivial"] += len(cases)
    return failures


def gen_findns(rng):
    segs = ["A", "B", "C", "Api", "V1"]
    depth = rng.randint(0, 4)
    frame = [rng.choice(segs) for _ in range(depth)]
    cls = rng.choice(["Core", "Base", "A"])
    tbl = []
    for _ in range(rng.randint(0, 5)):
        r = rng.random()
        if r < 0.15:
            f = []                                           # defined at top level
        elif r < 0.6 and frame:
            f = frame[: rng.randint(1, len(frame))]          # an enclosing namespace
        elif r < 0.8:
            f = [rng.choice(segs) for _ in range(rng.randint(1, 3))]
        else:
            f = frame + [rng.choice(segs)]
        tbl.append("%s~%s" % ("::".join(f) or "-", rng.choice(["Core", "Core", "Base", "A"])))
    return "findns %s %s | %s" % ("::".join(frame) or "-", cls, ";".join(tbl))


def run(ctx):
    common.build_ti(ctx)
    common.build_godrv(ctx)
    proof_ok = common.prove(ctx, extra_modules=["RubyTi.Props.C16"])
    from . import C16
    dis = common.run_stream(ctx, "findns", [gen_findns(ctx.rng) for _ in range(ctx.pick(4000, 40000))])
    dis_lookup = common.run_stream(ctx, "lookup", [C16.gen_lookup(ctx.rng) for _ in range(ctx.pick(12000, 120000))])
    failures = run_e2e(ctx, ctx.pick(90, 900), "a") + run_samename(ctx, ctx.pick(30, 300), "a")

    def search():
        return run_e2e(ctx, 250, "s") + run_samename(ctx, 60, "s")

    common.conclude(ctx, proof_ok, {"findns": dis, "lookup": dis_lookup}, failures, search)
    evidence(ctx)


def evidence(ctx):
    common.write_evidence(ctx, LEVEL, RULE, trusted=common.BASE_TRUST + [
        "modelled: SeparateNameSpaces / CalculateFrame / the frame component of every map key; FindDefinedClassFrame on `::`-segments (string cutting tied by the findns stream)",
        "not modelled: eval/class.go, eval/module.go, eval/namespace.go (end-to-end: top level vs wrapped vs decoy)"])


def replay(ctx, path):
    r = json.load(open(path))
    print(json.dumps(r, indent=1)[:3000])
    return 1

"""C25 — rbs2json conversion is deterministic and keeps signature shape."""
import json
import os
import shutil
import subprocess
from .. import common

LEVEL = "proof"
RULE = ("Lean: convertArguments is invariant under every iteration order of the two keyword maps (any sorted permutation; names distinct) and emits required, optional(is_default), "
        "rest(is_asterisk), trailing, required keywords, optional keywords(is_default) in that order. Correspondence at the binary level: generated RBS AST documents (the JSON the embedded "
        "Ruby script emits) are fed to the real rbs2json through a stand-in `ruby`; every overload's emitted arguments are compared with the model. End-to-end: each document is converted "
        "several times (byte-identical output required) and the result is loaded by ti, which must accept k positional arguments exactly when the RBS signature allows k.")

TYPES = {"Int": {"class": "class_instance", "name": "::Integer"}, "String": {"class": "class_instance", "name": "String"},
         "Float": {"class": "class_instance", "name": "Float"}, "Symbol": {"class": "class_instance", "name": "Symbol"},
         "Bool": {"class": "bool"}, "NilClass": {"class": "nil"}, "Untyped": {"class": "untyped"}, "Foo": {"class": "class_instance", "name": "Foo"},
         "Hash": {"class": "class_instance", "name": "Hash"}}
VAL = {"Int": "1", "String": "'s'", "Float": "1.5", "Symbol": ":a", "Bool": "true", "NilClass": "nil", "Untyped": "1", "Foo": "1", "Hash": "{}"}


def rbs_type(names):
    if len(names) == 1:
        return TYPES[names[0]]
    return {"class": "union", "types": [TYPES[n] for n in names]}


def gen_functype(rng, kw=True):
    def param():
        if rng.random() < 0.08:
            return None
        return rng.sample(["Int", "String", "Float", "Symbol", "Bool", "Foo"], rng.choice([1, 1, 1, 2]))
    f = {"R": [param() for _ in range(rng.randint(0, 3))], "O": [param() for _ in range(rng.randint(0, 2))],
         "S": (param() or "_") if rng.random() < 0.3 else None, "T": [param() for _ in range(rng.randint(0, 1))] if rng.random() < 0.3 else [],
         "RK": {}, "OK": {}}
    if kw:
        names = rng.sample(["a", "b", "c", "key", "zz", "name", "x1", "B"], rng.randint(0, 4))
        for n in names:
            (f["RK"] if rng.random() < 0.5 else f["OK"])[n] = param()
    return f


def op_of(f):
    def p(x):
        return "_" if x is None else ",".join(x)
    s = "-" if f["S"] is None else ("_" if f["S"] == "_" else p(f["S"]))
    return "rbsargs R=%s|O=%s|S=%s|T=%s|RK=%s|OK=%s" % (";".join(p(x) for x in f["R"]), ";".join(p(x) for x in f["O"]), s,
                                                       ";".join(p(x) for x in f["T"]), ";".join("%s:%s" % (k, p(v)) for k, v in f["RK"].items()),
                                                       ";".join("%s:%s" % (k, p(v)) for k, v in f["OK"].items()))


def ast_of(f, rng):
    def prm(x, name="p"):
        return {"type": None if x is None else rbs_type(x), "name": name}
    def kwmap(d):
        items = list(d.items())
        rng.shuffle(items)           # JSON object order = the order Go's decoder inserts, irrelevant for a map
        return {k: prm(v, k) for k, v in items}
    return {"required_positionals": [prm(x) for x in f["R"]], "optional_positionals": [prm(x) for x in f["O"]],
            "rest_positionals": None if f["S"] is None else prm(None if f["S"] == "_" else f["S"]),
            "trailing_positionals": [prm(x) for x in f["T"]], "required_keywords": kwmap(f["RK"]), "optional_keywords": kwmap(f["OK"]),
            "rest_keywords": None, "return_type": TYPES["Int"]}


def canon(args):
    return " ; ".join("%s~%s~%d~%d" % (",".join(a.get("type") or []), a.get("key", ""), bool(a.get("is_asterisk")), bool(a.get("is_default"))) for a in args)


def setup_tool(ctx):
    tool = common.build_tool(ctx, "./cmd/rbs2json", "rbs2json")
    bindir = os.path.join(ctx.tmp, "fakebin")
    os.makedirs(bindir, exist_ok=True)
    ruby = os.path.join(bindir, "ruby")
    open(ruby, "w").write("#!/bin/sh\n# stand-in for ruby: rbs2json runs `ruby <script> <input>`; the input already is the AST JSON\ncat \"$2\"\n")
    os.chmod(ruby, 0o755)
    env = dict(os.environ)
    env["PATH"] = bindir + ":" + env["PATH"]
    return tool, env


def convert(tool, env, ast, cwd, name):
    path = os.path.join(cwd, name)
    json.dump(ast, open(path, "w"))
    p = subprocess.run([tool, path], cwd=cwd, env=env, stdout=subprocess.PIPE, stderr=subprocess.PIPE, timeout=60)
    return p.returncode, p.stdout.decode(errors="replace"), p.stderr.decode(errors="replace")


def run(ctx):
    common.build_ti(ctx)
    proof_ok = common.prove(ctx)
    tool, env = setup_tool(ctx)
    rng = ctx.rng
    wd = os.path.join(ctx.tmp, "rbs")
    os.makedirs(wd)
    failures = []
    dis = {"rbsargs": []}
    # ---- correspondence: documents of N methods each
    ndocs, per = ctx.pick(40, 400), 25
    nops = 0
    for d in range(ndocs):
        fts = [gen_functype(rng) for _ in range(per)]
        members = [{"member": "method_definition", "name": "m%d" % i, "kind": "instance", "visibility": "public", "overloads": [{"method_type": {"type_params": [], "type": ast_of(f, rng), "block": None}}]}
                   for i, f in enumerate(fts)]
        ast = [{"declaration": "class", "name": "Gen%d" % d, "members": members}]
        outs = [convert(tool, env, ast, wd, "d%d.json" % d) for _ in range(3 if d % 4 == 0 else 1)]
        if any(o != outs[0] for o in outs[1:]):
            failures.append({"kind": "rbs2json-nondeterministic", "ast": ast, "out_a": outs[0][1][:1500], "out_b": [o for o in outs if o != outs[0]][0][1][:1500], "key": ["nondet"]})
            continue
        rc, so, se = outs[0]
        try:
            cfg = json.loads(so)
            methods = {m["name"]: m for m in cfg["instance_methods"]}
        except Exception as e:
            failures.append({"kind": "rbs2json-output-unreadable", "ast": ast, "stdout": so[:800], "stderr": se[:800], "key": ["unreadable"]})
            continue
        ops = [op_of(f) for f in fts]
        nops += len(ops)
        model = common.run_lines(common.lean_driver(), ops) if proof_ok else None
        for i, (f, op) in enumerate(zip(fts, ops)):
            impl = canon(methods["m%d" % i]["arguments"])
            if model is not None and impl != model[i]:
                dis["rbsargs"].append((d * per + i, op, impl, model[i]))
            # property oracle on the implementation alone: shape
            why = shape_violation(f, methods["m%d" % i]["arguments"])
            if why:
                failures.append({"kind": "signature-shape", "functype": f, "emitted": methods["m%d" % i]["arguments"], "why": why, "key": ["shape", why[:30]]})
        if d == 0:
            ctx.sample({"op": ops[0], "emitted": canon(methods["m0"]["arguments"])})
    ctx.cov["streams"]["rbsargs"] = {"ops": nops, "disagreements": len(dis["rbsargs"]), "wall_s": 0}
    # ---- end to end arity
    failures += arity_e2e(ctx, tool, env, ctx.pick(25, 250))

    def search():
        return arity_e2e(ctx, tool, env, 150)

    common.conclude(ctx, proof_ok, dis, failures, search)
    evidence(ctx)


def shape_violation(f, args):
    exp = []
    for x in f["R"]:
        if x is not None:
            exp.append(("", False, False))
    for x in f["O"]:
        if x is not None:
            exp.append(("", False, True))
    if f["S"] is not None:
        exp.append(("", True, False))
    for x in f["T"]:
        if x is not None:
            exp.append(("", False, False))
    for k in sorted(f["RK"]):
        if f["RK"][k] is not None:
            exp.append((k + ":", False, False))
    for k in sorted(f["OK"]):
        if f["OK"][k] is not None:
            exp.append((k + ":", False, True))
    got = [(a.get("key", ""), bool(a.get("is_asterisk")), bool(a.get("is_default"))) for a in args]
    # keyword order inside a group is "deterministic", name order is what the fixed code emits; the property only fixes the group order
    def groups(seq):
        return [(bool(k), ast, d) for k, ast, d in seq]
    if sorted(got) != sorted(exp):
        return "emitted (key, asterisk, default) multiset %r differs from the RBS signature's %r" % (got, exp)
    if groups(got) != groups(exp):
        return "group order differs: %r vs %r" % (got, exp)
    return None


def arity_e2e(ctx, tool, env, n):
    rng = ctx.rng
    failures = []
    base = os.path.join(common.REPO, "test", ".ti-config")
    jobs = []
    for c in range(n):
        f = gen_functype(rng, kw=False)
        for grp in ("R", "O", "T"):
            f[grp] = [[t for t in x if t != "Foo"] or ["Int"] if x else x for x in f[grp]]
        if f["S"] not in (None, "_"):
            f["S"] = [t for t in f["S"] if t != "Foo"] or ["Int"]
        f["R"] = [x or ["Int"] for x in f["R"]]
        f["O"] = [x or ["Int"] for x in f["O"]]
        f["T"] = [] if f["O"] or f["S"] else [x or ["Int"] for x in f["T"]]
        if f["S"] == "_":
            f["S"] = ["Int"]
        d = os.path.join(ctx.tmp, "ar%d_%d" % (id(jobs) % 1000, c))
        os.makedirs(d)
        shutil.copytree(base, os.path.join(d, ".ti-config"))
        ast = [{"declaration": "class", "name": "Rz", "members": [{"member": "method_definition", "name": "mm", "kind": "singleton", "visibility": "public",
                "overloads": [{"method_type": {"type_params": [], "type": ast_of(f, rng), "block": None}}]}]}]
        rc, so, se = convert(tool, env, ast, d, "ast.json")
        try:
            json.loads(so)
        except Exception:
            failures.append({"kind": "rbs2json-output-unreadable", "ast": ast, "stdout": so[:500], "stderr": se[:500], "key": ["unreadable"]})
            continue
        open(os.path.join(d, ".ti-config", "rz.json"), "w").write(so)
        lo = len(f["R"]) + len(f["T"])
        hi = None if f["S"] is not None else lo + len(f["O"])
        order = f["R"] + f["O"] + ([f["S"]] * 3 if f["S"] else []) + f["T"]
        lines = ["r = 1"]
        exp = []
        for k in range(0, 7):
            vals = [VAL[(order[i] if i < len(order) else ["Int"])[0]] for i in range(k)]
            # trailing positionals bind from the right in Ruby; keep arities only (types of the trailing part may not line up)
            lines.append("Rz.mm(%s)" % ", ".join(vals))
            exp.append(lo <= k and (hi is None or k <= hi))
        open(os.path.join(d, "p.rb"), "w").write("\n".join(lines) + "\n")
        jobs.append((d, f, exp, so))

    def one(job):
        d, f, exp, so = job
        rc, out, se = common.run_ti(ctx.ti, ["p.rb"], d)
        return rc, out, se

    for (d, f, exp, so), (rc, out, se) in zip(jobs, common.pmap(one, jobs)):
        arity_rows = set()
        for line in out.split("\n"):
            parts = line.split(":::")
            if len(parts) >= 3 and ("too few arguments" in parts[2] or "too many arguments" in parts[2] or "wrong number" in parts[2]):
                arity_rows.add(int(parts[1]))
        for k, ok in enumerate(exp):
            row = k + 2
            if (row not in arity_rows) != ok:
                failures.append({"kind": "arity-mismatch", "functype": f, "k": k, "rbs_accepts": ok, "ti_output": out[:1500], "config": json.loads(so),
                                 "key": ["arity", json.dumps(f, sort_keys=True)[:60]]})
                break
    lay = ctx.cov["layers"].setdefault("e2e-arity", {"runs": 0, "distinct_nontrivial": 0})
    lay["runs"] += len(jobs)
    lay["distinct_nontrivial"] += len(jobs)
    return failures


def evidence(ctx):
    ctx.assumptions += ["the embedded Ruby script (rbs_ast.rb) and the rbs gem are replaced by a stand-in `ruby` that emits generated AST JSON",
                        "convertType is exercised (class_instance, bool, nil, untyped, unions), not modelled"]
    common.write_evidence(ctx, LEVEL, RULE, trusted=common.BASE_TRUST + [
        "modelled: convertArguments with the keyword maps in arbitrary order", "compared at the binary level: real rbs2json output vs lean Driver `rbsargs`"])


def replay(ctx, path):
    r = json.load(open(path))
    print(json.dumps(r, indent=1)[:3000])
    return 1

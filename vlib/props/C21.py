"""C21 — equivalent type notations in .ti-config mean the same thing."""
import json
import os
import shutil
from .. import common

LEVEL = "proof"
RULE = ("Lean: equality of the parsed T / argument for every plain type name and every notation pair (A|B vs array, ?T, *T, [T], Int/Integer, "
        "OptionalX, DefaultX). Streams ptype/pret/pargs/builtin: generated type strings (nested ?*[]| notations, spaces, namespaces) through the real "
        "parseTypeString/parseArguments/parseReturnType (JSON-decoded exactly as a config file) vs the model. End-to-end: a generated class written once "
        "per notation, ti output (diagnostics, dbtp types, -i / --hover signatures) compared byte-wise. Non-trivial = the two config files differ textually.")

NAMES = ["String", "Int", "Integer", "Float", "Bool", "Symbol", "NilClass", "Array", "Hash", "Untyped", "Foo", "Bar", "Range",
         "StringArray", "IntArray", "OptionalString", "DefaultInt", "Self", "Unify", "Number", "Block", "A::B", "X::Y::Z", "Zork9", "é"]


def gen_type_string(rng, depth=0):
    r = rng.random()
    if depth > 2 or r < 0.45:
        return rng.choice(NAMES)
    if r < 0.55:
        return "?" + gen_type_string(rng, depth + 1)
    if r < 0.65:
        return "*" + gen_type_string(rng, depth + 1)
    if r < 0.78:
        return "[" + gen_type_string(rng, depth + 1) + "]"
    if r < 0.95:
        sep = rng.choice(["|", " | ", "| ", " |"])
        return sep.join(gen_type_string(rng, depth + 1) for _ in range(rng.randint(2, 3)))
    return rng.choice(["", "?", "*", "[", "[]", "|", "||", "[|]", "??Int", "*?Int", "?*Int", " Int", "Int "])


def spec(rng):
    r = rng.random()
    if r < 0.1:
        return "-"
    if r < 0.6:
        return "s:" + gen_type_string(rng).replace(",", "").replace("~", "")
    return "a:" + ",".join(gen_type_string(rng).replace(",", "").replace("~", "") for _ in range(rng.randint(0, 3)))


def gen_ops(ctx, n):
    rng = ctx.rng
    ops = []
    for nm in NAMES + ["KeyArray", "KeyValueArray", "IntInt", "Owner", "Item", "Flatten", "UnifyArgument", "Argument", "SelfArray",
                       "BlockResultArray", "OptionalUnify", "DefaultUntyped", "DefaultBlock", "DefaultBool", "DefaultFloat",
                       "DefaultString", "OptionalFloat", "OptionalInt", "FloatArray", "Hash", ""]:
        ops.append("builtin " + nm)
    for _ in range(n):
        ops.append("ptype " + gen_type_string(rng))
    for _ in range(n // 2):
        ops.append("pret %d%d%d %s" % (rng.randint(0, 1), rng.randint(0, 1), rng.randint(0, 1), spec(rng)))
    for _ in range(n // 2):
        args = []
        for _ in range(rng.randint(0, 4)):
            key = rng.choice(["", "", "", "k:", "name:"])
            args.append("%s~%s~%d~%d" % (spec(rng), key, rng.random() < 0.2, rng.random() < 0.2))
        ops.append("pargs " + " ;; ".join(args))
    return [o for o in ops if "\n" not in o]


# ---- end to end: one class, two notations

BASES = ["String", "Int", "Float"]
ARGS_OK = {"String": "'s'", "Int": "1", "Integer": "1", "Float": "1.5", "Symbol": ":a", "Bool": "true", "NilClass": "nil"}


def gen_pair(rng):
    """(compact_methods, long_methods, calls): class methods of class `Nz`."""
    compact, long_, calls = [], [], []
    for i in range(rng.randint(2, 5)):
        name = "m%d" % i
        kind = rng.choice(["union", "optret", "optarg", "optarg-mid", "optarg-key", "ast", "array", "int", "optional", "default"])
        a, b = rng.sample(["String", "Int", "Float", "Symbol"], 2)
        if kind == "union" and rng.random() < 0.4:
            a2, b2 = rng.sample(["Number", "OptionalString", "String", "Int", "Integer", "IntInt"], 2)
            c = {"name": name, "arguments": [{"type": a2 + "|" + b2}], "return_type": {"type": a2 + "|" + b2}}
            l = {"name": name, "arguments": [{"type": [a2, b2]}], "return_type": {"type": [a2, b2]}}
            argv = ["1", "1.5", "'s'", "nil", ":a"]
        elif kind == "union":
            c = {"name": name, "arguments": [{"type": a + "|" + b}], "return_type": {"type": a + "|" + b}}
            l = {"name": name, "arguments": [{"type": [a, b]}], "return_type": {"type": [a, b]}}
            argv = [ARGS_OK[a], ARGS_OK[b], "nil", "[1]"]
        elif kind == "optret":
            c = {"name": name, "arguments": [{"type": a}], "return_type": {"type": "?" + b}}
            l = {"name": name, "arguments": [{"type": a}], "return_type": {"type": [b, "NilClass"]}}
            argv = [ARGS_OK[a], ARGS_OK[b]]
        elif kind == "optarg":
            c = {"name": name, "arguments": [{"type": a}, {"type": "?" + b}], "return_type": {"type": a}}
            l = {"name": name, "arguments": [{"type": a}, {"type": b, "is_default": True}], "return_type": {"type": a}}
            argv = [ARGS_OK[a], ARGS_OK[a] + ", " + ARGS_OK[b], ARGS_OK[a] + ", nil", ""]
        elif kind == "optarg-mid":
            # the optional argument is NOT the last one: what follows keeps its own (required) status in both notations
            c = {"name": name, "arguments": [{"type": "?" + a}, {"type": b}], "return_type": {"type": a}}
            l = {"name": name, "arguments": [{"type": a, "is_default": True}, {"type": b}], "return_type": {"type": a}}
            argv = ["", ARGS_OK[a], ARGS_OK[a] + ", " + ARGS_OK[b], ARGS_OK[b]]
        elif kind == "optarg-key":
            c = {"name": name, "arguments": [{"type": "?" + a}, {"key": "size:", "type": b}], "return_type": {"type": a}}
            l = {"name": name, "arguments": [{"type": a, "is_default": True}, {"key": "size:", "type": b}], "return_type": {"type": a}}
            argv = ["", ARGS_OK[a], ARGS_OK[a] + ", size: " + ARGS_OK[b], "size: " + ARGS_OK[b]]
        elif kind == "ast":
            c = {"name": name, "arguments": [{"type": "*" + a}], "return_type": {"type": b}}
            l = {"name": name, "arguments": [{"type": a, "is_asterisk": True}], "return_type": {"type": b}}
            argv = ["", ARGS_OK[a], ARGS_OK[a] + ", " + ARGS_OK[a], ARGS_OK[b]]
        elif kind == "array":
            t = rng.choice(BASES)
            c = {"name": name, "arguments": [{"type": "[" + t + "]"}], "return_type": {"type": "[" + t + "]"}}
            l = {"name": name, "arguments": [{"type": t + "Array"}], "return_type": {"type": t + "Array"}}
            argv = ["[" + ARGS_OK[t] + "]", "[nil]", ARGS_OK[t], "[]"]
        elif kind == "int":
            c = {"name": name, "arguments": [{"type": "Int"}], "return_type": {"type": "Int"}}
            l = {"name": name, "arguments": [{"type": "Integer"}], "return_type": {"type": "Integer"}}
            argv = ["1", "'s'", "1.5"]
        elif kind == "optional":
            t = rng.choice(BASES)
            c = {"name": name, "arguments": [], "return_type": {"type": "Optional" + t}}
            l = {"name": name, "arguments": [], "return_type": {"type": [t, "NilClass"]}}
            argv = ["", "1"]
        else:
            t = rng.choice(BASES)
            c = {"name": name, "arguments": [{"type": "Default" + t}], "return_type": {"type": t}}
            l = {"name": name, "arguments": [{"type": t, "is_default": True}], "return_type": {"type": t}}
            argv = ["", ARGS_OK[t], "nil"]
        compact.append(c)
        long_.append(l)
        for j, av in enumerate(argv):
            calls.append("v%d_%d = Nz.%s(%s)" % (i, j, name, av))
            calls.append("dbtp v%d_%d" % (i, j))
    return compact, long_, calls


_E2E = [0]


def impl_pairs(ctx, n, wd):
    """Property oracle on the implementation alone: both notations through the real parser (godrv), encodings must be equal."""
    rng = ctx.rng
    members = [x for x in NAMES if "::" not in x] + ["KeyArray", "FloatArray", "OptionalInt", "IntInt", "DefaultString"]
    pairs = []
    for _ in range(n):
        a, b, c = rng.choice(members), rng.choice(members), rng.choice(members)
        key = rng.choice(["", "", "k:"])
        ast, dflt = rng.randint(0, 1), rng.randint(0, 1)
        fl = "%d%d%d" % (rng.randint(0, 1), rng.randint(0, 1), rng.randint(0, 1))
        kind = rng.randrange(8)
        if kind == 0:
            parts = [a, b] if rng.random() < 0.7 else [a, b, c]
            pairs.append(("pret %s s:%s" % (fl, "|".join(parts)), "pret %s a:%s" % (fl, ",".join(parts))))
        elif kind == 1:
            parts = [a, b] if rng.random() < 0.7 else [a, b, c]
            pairs.append(("pargs s:%s~%s~%d~%d" % ("|".join(parts), key, ast, dflt), "pargs a:%s~%s~%d~%d" % (",".join(parts), key, ast, dflt)))
        elif kind == 2:
            pairs.append(("pret %s s:?%s" % (fl, a), "pret %s a:%s,NilClass" % (fl, a)))
        elif kind == 3:
            pairs.append(("pargs s:?%s~%s~%d~%d" % (a, key, ast, dflt), "pargs s:%s~%s~%d~1" % (a, key, ast)))
        elif kind == 4:
            pairs.append(("pargs s:*%s~%s~%d~%d" % (a, key, ast, dflt), "pargs s:%s~%s~1~%d" % (a, key, dflt)))
        elif kind == 5:
            t = rng.choice(BASES)
            pairs.append(("ptype [%s]" % t, "builtin %sArray" % t))
        elif kind == 6:
            t = rng.choice(BASES)
            pairs.append(("builtin Optional%s" % t, "pret 000 a:%s,NilClass" % t))
            pairs.append(("builtin Int", "builtin Integer"))
        else:
            t = rng.choice(BASES + ["Bool", "Block", "Untyped"])
            pairs.append(("pargs s:Default%s~%s~%d~%d" % (t, key, ast, dflt), "pargs s:%s~%s~%d~1" % (t, key, ast)))
    ops = [x for p in pairs for x in p]
    ans = common.run_lines(ctx.godrv, ops, cwd=wd)
    failures = []
    for i, (x, y) in enumerate(pairs):
        if ans[2 * i] != ans[2 * i + 1]:
            failures.append({"kind": "notations-parse-differently", "compact": x, "long": y, "parsed_compact": ans[2 * i][:800],
                             "parsed_long": ans[2 * i + 1][:800], "key": ["pair", x.split(" ")[0], x[-30:]],
                             "replay_cmd": "printf '%s\\n%s\\n' | godrv   # built from /repo with -tags verif, cwd with .ti-config" % (x, y)})
    ctx.cov["layers"]["impl-notation-pairs"] = {"runs": len(ops), "distinct_nontrivial": len(set(pairs))}
    return failures


def run_e2e(ctx, n):
    rng = ctx.rng
    base = os.path.join(common.REPO, "test", ".ti-config")
    cases = []
    _E2E[0] += 1
    for k in range(n):
        compact, long_, calls = gen_pair(rng)
        prog = "\n".join(calls) + "\n"
        dirs = []
        for tag, ms in (("c", compact), ("l", long_)):
            d = os.path.join(ctx.tmp, "e2e%d" % _E2E[0], "%d%s" % (k, tag))
            os.makedirs(d)
            shutil.copytree(base, os.path.join(d, ".ti-config"))
            use_static = k % 2 == 0
            cls = {"frame": "Builtin", "class": "Nz", "instance_methods": [] if use_static else ms, "class_methods": ms if use_static else [],
                   "extends": []}
            json.dump(cls, open(os.path.join(d, ".ti-config", "nz.json"), "w"))
            p = prog if use_static else "nz = Nz.new\n" + prog.replace("Nz.", "nz.")
            open(os.path.join(d, "p.rb"), "w").write(p)
            dirs.append(d)
        cases.append((dirs, compact, long_, prog))

    def one(c):
        dirs, compact, long_, prog = c
        outs = []
        for d in dirs:
            o = []
            for fl in ([], ["-i"], ["--hover", "--row=1"]):
                rc, so, se = common.run_ti(ctx.ti, ["p.rb"] + fl, d)
                o.append((rc, so, "panic" in se))
            outs.append(o)
        return outs

    results = common.pmap(one, cases)
    failures = []
    nontriv = 0
    for (dirs, compact, long_, prog), outs in zip(cases, results):
        if json.dumps(compact) != json.dumps(long_):
            nontriv += 1
        if outs[0] != outs[1]:
            failures.append({"kind": "notation-changes-output", "compact": compact, "long": long_, "program": prog,
                             "out_compact": outs[0], "out_long": outs[1], "key": ["e2e", json.dumps(compact)[:200]]})
    ctx.cov["layers"]["e2e-two-notations"] = {"runs": len(cases) * 6, "distinct_nontrivial": nontriv, "cases": len(cases)}
    if cases:
        ctx.sample({"compact": cases[0][1], "long": cases[0][2], "program": cases[0][3][:200]})
    return failures


def run(ctx):
    common.build_ti(ctx)
    common.build_godrv(ctx)
    proof_ok = common.prove(ctx)
    wd = common.make_workdir(ctx, "cfg")
    dis = {}
    ops = gen_ops(ctx, ctx.pick(3000, 40000))
    if proof_ok:
        dis["config"] = common.run_stream(ctx, "config", ops, cwd=wd)
    for o in ops[30:34]:
        ctx.sample(o)
    failures = impl_pairs(ctx, ctx.pick(4000, 40000), wd)
    failures += run_e2e(ctx, ctx.pick(120, 1200))

    def search():
        return run_e2e(ctx, 600)

    common.conclude(ctx, proof_ok, dis, failures, search)
    evidence(ctx)


def evidence(ctx):
    common.write_evidence(ctx, LEVEL, RULE, trusted=common.BASE_TRUST + [
        "modelled: parseTypeString, parseArguments, parseReturnType, ConvertToBuiltinT (table regenerated), TypeSpec decoding, the factories of t_factory.go used by the builtin variable block",
        "validated end-to-end only: that equal parsed values lead to equal output (the loader and evaluator are deterministic functions of the parsed values)"])


def replay(ctx, path):
    r = json.load(open(path))
    print(json.dumps(r, indent=1)[:3000])
    return 1

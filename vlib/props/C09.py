"""C09 — inferred types agree with literals and declared return types."""
import json
import os
import shutil
from .. import common, meta, straight

LEVEL = "proof"
RULE = ("Lean: on the models of calculateExecutionType and of the union normalisation (AppendVariant / UnifyVariants / MakeUnifiedT / MergeHash / IsEqualObject / TypeToString): a plain declared return "
        "type is the type of the call; Self is the receiver, Argument nil / the argument / the array of arguments, Unify the unified element type, OptionalUnify the element types plus NilClass; resolving a "
        "return type never changes the receiver; appending a scalar to a union adds it iff no variant has its tag and class; an array literal of one scalar type unifies to that type. The models are tied "
        "by four differential streams over hooks (appendv, unify, render, ret — nested arrays/hashes/unions, the receiver is compared after each ret). End-to-end: generated straight-line programs "
        "(literals, array and hash literals, reassignment, copies, indexing, literal-key lookups, push/<< growth, ternary unions, configured calls of the shipped configuration and of a random "
        "configuration adding Self / Unify / OptionalUnify / Argument / KeyValueArray / union / array returns) against a reference model: every dbtp row and every -i bind hint must show the reference type.")


def one_container(items):
    """a union holds at most one array and one hash variant (AppendVariant merges further ones into them): other shapes are not
    reachable and make the Go code merge an argument it is mutating at the same time"""
    out, seen = [], set()
    for x in items:
        k = x[:2] if x[:2] in ("A(", "H(") else None
        if k and k in seen:
            continue
        if k:
            seen.add(k)
        out.append(x)
    return out


def stream_ops(rng, n):
    SC = ["I", "S", "F", "Y", "B", "N", "U", "K", "R", "O:Foo", "O:Bar"]

    def gen(depth=0):
        r = rng.random()
        if depth >= 3 or r < 0.45:
            return rng.choice(SC)
        if r < 0.65:
            return "A( " + " ".join(gen(depth + 1) for _ in range(rng.randint(0, 3))) + " )"
        if r < 0.85:
            return "U( " + " ".join(one_container(gen(depth + 1) for _ in range(rng.randint(0, 3)))) + " )"
        return "H( " + " ".join("%s= %s" % (rng.choice("abc"), gen(depth + 1)) for _ in range(rng.randint(0, 3))) + " )"

    def cont():
        k = rng.choice(["A(", "U(", "H("])
        if k == "H(":
            return "H( " + " ".join("%s= %s" % (rng.choice("abc"), gen(1)) for _ in range(rng.randint(0, 3))) + " )"
        items = [gen(1) for _ in range(rng.randint(0, 4))]
        return k + " " + " ".join(one_container(items) if k == "U(" else items) + " )"

    RK = ["SELF", "UNIFY", "OPTU", "SELFARR", "ARG", "KVARR", "NS:Js::Obj", "I", "S", "O:Foo", "N"]

    def rk(d=0):
        x = rng.random()
        if d < 2 and x < 0.2:
            return "U( " + " ".join(rk(d + 1) for _ in range(rng.randint(1, 3))) + " )"
        if d < 2 and x < 0.3:
            return "A( " + " ".join(rk(d + 1) for _ in range(rng.randint(1, 2))) + " )"
        return rng.choice(RK)

    ops = {"appendv": [], "unify": [], "render": [], "ret": []}
    for _ in range(n):
        r = rng.random()
        if r < 0.35:
            ops["appendv"].append("appendv %s | %s" % (cont() if rng.random() < 0.9 else gen(), gen()))
        elif r < 0.6:
            ops["unify"].append("unify %s" % cont())
        elif r < 0.85:
            ops["ret"].append("ret %s | %s | %s" % (rk(), cont() if rng.random() < 0.8 else gen(), " ; ".join(gen(1) for _ in range(rng.randint(0, 3)))))
        else:
            ops["render"].append("render %s" % gen())
    return ops


def run_e2e(ctx, nconf, nprog, tag):
    rng = ctx.rng
    base = os.path.join(common.REPO, "test", ".ti-config")
    shipped = straight.calls_from_config(base)
    jobs = []
    for ci in range(nconf):
        wd = os.path.join(ctx.tmp, "st%s_%d" % (tag, ci))
        os.makedirs(os.path.join(wd, ".ti-config"))
        for f in os.listdir(base):
            shutil.copy(os.path.join(base, f), os.path.join(wd, ".ti-config", f))
        files, calls = straight.gen_extra_config(rng, shipped)
        for fn, c in files.items():
            json.dump(c, open(os.path.join(wd, ".ti-config", fn), "w"))
        for pi in range(nprog):
            g = straight.Gen(rng, calls)
            text = g.program(rng.randint(6, 16))
            jobs.append((wd, "p%d.rb" % pi, text, g, files))

    def one(job):
        wd, name, text, g, files = job
        meta.write(wd, name, text)
        return common.run_ti(ctx.ti, [name], wd), common.run_ti(ctx.ti, [name, "-i"], wd)

    failures = []
    kinds = {}
    rows = 0
    for (wd, name, text, g, files), ((rc, so, se), (rc2, so2, se2)) in zip(jobs, common.pmap(one, jobs)):
        if rc != 0 or rc2 != 0 or "timeout" in so.split("\n") or "timeout" in so2.split("\n"):
            continue
        for k, v in g.kinds.items():
            kinds[k] = kinds.get(k, 0) + v
        got, binds = {}, {}
        for l in so.split("\n"):
            f = l.split(":::", 2)
            if len(f) == 3 and f[1].isdigit():
                got.setdefault(int(f[1]), []).append(f[2])
        for l in so2.split("\n"):
            f = l.split(":::", 2)
            if len(f) == 3 and f[0].startswith("@") and f[1].isdigit() and f[2].startswith("bind: "):
                binds.setdefault(int(f[1]), []).append(f[2][6:])
        bad = None
        for r, e in sorted(g.expect.items()):
            rows += 1
            if got.get(r) != [e] and not (r in g.setrows and len(got.get(r) or []) == 1 and straight.class_set(got[r][0]) == straight.class_set(e)):
                bad = {"observe": "dbtp", "row": r, "line": g.lines[r - 1], "expected": e, "got": got.get(r)}
                break
        if not bad:
            for r, e in sorted(g.binds.items()):
                rows += 1
                if binds.get(r) != [e] and not (r in g.setrows and len(binds.get(r) or []) == 1 and straight.class_set(binds[r][0]) == straight.class_set(e)):
                    bad = {"observe": "-i bind", "row": r, "line": g.lines[r - 1], "expected": e, "got": binds.get(r)}
                    break
        if bad:
            bad.update({"kind": "inferred-type-differs", "program": text, "config": files, "output": so[:1500], "key": ["type", bad["observe"], bad["expected"][:12], str(bad["got"])[:16]]})
            failures.append(bad)
    lay = ctx.cov["layers"].setdefault("e2e-straight-line", {"runs": 0, "distinct_nontrivial": 0})
    lay["runs"] += 2 * len(jobs)
    lay["distinct_nontrivial"] += rows
    d = ctx.cov.setdefault("distribution", {})
    for k, v in kinds.items():
        d[k] = d.get(k, 0) + v
    if jobs:
        ctx.sample({"program": jobs[0][2][:400], "expected_dbtp": {str(r): v for r, v in sorted(jobs[0][3].expect.items())[:8]}})
    return failures


def run(ctx):
    common.build_ti(ctx)
    common.build_godrv(ctx)
    proof_ok = common.prove(ctx)
    dis = {}
    for name, ops in stream_ops(ctx.rng, ctx.pick(24000, 240000)).items():
        dis[name] = common.run_stream(ctx, name, ops)
    failures = run_e2e(ctx, ctx.pick(12, 120), 14, "a")

    def search():
        return run_e2e(ctx, 30, 14, "s")

    common.conclude(ctx, proof_ok, dis, failures, search)
    evidence(ctx)


def evidence(ctx):
    ctx.assumptions += ["arrays in generated programs hold scalars; nested arrays and hashes are exercised by the streams only",
                        "a copy (`a = b`) and a Self return give the variable its own array type: later growth of the source is not reflected (the statement's `most recent assignment`)",
                        "calls are certainly valid by construction (sample arguments of the declared classes); methods with blocks, conditional or destructive returns are not used"]
    common.write_evidence(ctx, LEVEL, RULE, trusted=common.BASE_TRUST + [
        "modelled: calculateExecutionType (without BLOCK / BlockResultArray / Owner returns), AppendVariant, AppendHashVariant, MergeHash, UnifyVariants, MakeUnifiedT, IsEqualObject, TypeToString family; recursion bounded by fuel 40 in the drivers",
        "not modelled: bind.go, square_bracket.go, hash.go, the array strategies (push/<<), dbtp and the -i printer (end-to-end against vlib/straight.py)"])


def replay(ctx, path):
    r = json.load(open(path))
    common.build_ti(ctx)
    print(json.dumps({k: v for k, v in r.items() if k not in ("config", "program", "output")}, indent=1)[:2000])
    if "program" not in r:
        return 1
    wd = common.make_workdir(ctx, "replay")
    for fn, c in (r.get("config") or {}).items():
        json.dump(c, open(os.path.join(wd, ".ti-config", fn), "w"))
    meta.write(wd, "p.rb", r["program"])
    rc, so, se = common.run_ti(ctx.ti, ["p.rb"] + (["-i"] if r.get("observe") == "-i bind" else []), wd)
    print(so)
    return 1

"""C23 — completion lists exactly the methods the receiver can answer."""
import json
import os
import re
from .. import common, meta
from . import C16

LEVEL = "proof"
RULE = ("Lean: soundness of the completion filter for every signature, inheritance graph (cycles included) and captured target: a suggested signature is of the receiver's (or defining) class or a "
        "reachable ancestor with matching static flag, never of class \"\"/Kernel, private only for the class of the cursor's context, and for an object-valued receiver nothing private or of the wrong kind (object_receiver_sound). Stream: isSuggest, isSuggestForKernelOrObjectClass and calculateObjectClassAndIsStatic of the real code (verif hooks) against the model on generated inheritance graphs (cycles, include/extend edges, builtin frames), target recipes and signatures. End-to-end: "
        "generated user hierarchies and configured classes; the cursor row ends in `recv.` (instance and class receivers); the suggested names are compared with a reference: every public "
        "instance method of the class and its ancestors / included modules (resp. class methods and `new`) must be listed, and no method of an unrelated class, no private method, no method of "
        "the wrong kind may be. Non-trivial = a receiver whose class has an ancestor.")


def run_e2e(ctx, n, tag):
    rng = ctx.rng
    wd = common.make_workdir(ctx, "e2e" + tag)
    cfg = json.load(open(os.path.join(common.REPO, "test", ".ti-config", "integer.json")))
    int_methods = set(m["name"] for m in cfg["instance_methods"])
    jobs = []
    for k in range(n):
        text, bad, first, inh = C16.gen_case(rng, k, plain=True)
        lines = text.rstrip("\n").split("\n")[: first - 1]
        # parse the generated structure back: class -> parent, pub, priv, cms, inc, ext
        classes = {}
        cur = None
        vis = "public"
        sclass = False
        mods = {}
        curmod = None
        for l in lines:
            s = l.strip()
            m = re.match(r"module (\w+)", s)
            if m:
                curmod = m.group(1); mods[curmod] = []; continue
            m = re.match(r"class (\w+)(?: < (\w+))?$", s)
            if m and not s.startswith("class <<"):
                cur = m.group(1); classes[cur] = {"parent": m.group(2), "pub": [], "priv": [], "prot": [], "cms": [], "inc": [], "ext": []}; vis = "public"; curmod = None; continue
            if s == "class << self":
                sclass = True; continue
            if s in ("private", "protected", "public") and cur:
                vis = s; continue
            mi = re.match(r"def initialize\((.*)\)", s)
            if mi and cur:
                classes[cur]["init"] = len([a for a in mi.group(1).split(",") if a.strip()])
            m = re.match(r"def (self\.)?(\w+)", s)
            if m:
                if curmod and not cur:
                    mods[curmod].append(m.group(2))
                elif cur:
                    if m.group(1) or sclass:
                        classes[cur]["cms"].append(m.group(2))
                    elif m.group(2) != "initialize":
                        classes[cur][{"public": "pub", "private": "priv", "protected": "prot"}[vis]].append(m.group(2))
                continue
            m = re.match(r"(include|extend) (\w+)", s)
            if m and cur:
                classes[cur]["inc" if m.group(1) == "include" else "ext"] += mods.get(m.group(2), [])
            if s == "end" and sclass and l.startswith("  end"):
                sclass = False
        if not classes:
            continue
        cname = rng.choice(list(classes))
        chain = []
        c = cname
        while c and c in classes and c not in chain:
            chain.append(c)
            c = classes[c]["parent"]
        others = [x for x in classes if x not in chain]
        kind = rng.choice(["instance", "class"])
        body = "\n".join(lines) + "\n"
        if kind == "instance":
            ar = next((classes[x]["init"] for x in chain if "init" in classes[x]), 0)
            body += "zq = %s.new(%s)\nzq.\n" % (cname, ", ".join(["1"] * ar))
            must = set(m for x in chain for m in classes[x]["pub"] + classes[x]["inc"])
            must_not = set(m for x in others for m in classes[x]["pub"] + classes[x]["priv"] + classes[x]["cms"]) | \
                set(m for x in chain for m in classes[x]["priv"] + classes[x]["cms"])
        else:
            body += "%s.\n" % cname
            must = set(m for x in chain for m in classes[x]["cms"])
            must_not = set(m for x in others for m in classes[x]["pub"] + classes[x]["priv"] + classes[x]["cms"]) | \
                set(m for x in chain for m in classes[x]["pub"] + classes[x]["priv"])
        row = body.count("\n")
        jobs.append((k, body, row, kind, cname, must, must_not - must, len(chain) > 1))
    # configured receivers
    for k in range(max(3, n // 10)):
        body = "class Unrel%d\n  def unrel_only%d\n    1\n  end\nend\nzi = %s\nzi.\n" % (k, k, rng.choice(["1", "42"]))
        jobs.append((1000 + k, body, 7, "configured", "Integer", set(int_methods), {"unrel_only%d" % k}, False))

    def one(job):
        k, body, row, kind, cname, must, must_not, nt = job
        name = "sg%s%d.rb" % (tag, k)
        meta.write(wd, name, body)
        return common.run_ti(ctx.ti, [name, "--suggest", "--row=%d" % row], wd)

    failures = []
    nontriv = 0
    for (k, body, row, kind, cname, must, must_not, nt), (rc, so, se) in zip(jobs, common.pmap(one, jobs)):
        if rc != 0 or "timeout" in so.split("\n"):
            continue
        if nt:
            nontriv += 1
        listed = set(l[1:].split(":::")[0] for l in so.split("\n") if l.startswith("%"))
        missing = sorted(must - listed)
        wrong = sorted(listed & must_not)
        if missing or wrong:
            failures.append({"kind": "completion", "receiver": kind, "class": cname, "missing": missing[:6], "wrongly_listed": wrong[:6], "program": body,
                             "listed": sorted(listed)[:60], "key": ["suggest", kind, "missing" if missing else "wrong"]})
    lay = ctx.cov["layers"].setdefault("e2e-suggest", {"runs": 0, "distinct_nontrivial": 0})
    lay["runs"] += len(jobs)
    lay["distinct_nontrivial"] += nontriv
    if jobs:
        ctx.sample({"program_tail": jobs[0][1][-200:], "must_list": sorted(jobs[0][5])[:8], "must_not_list": sorted(jobs[0][6])[:8]})
    return failures


NAMES = ["A", "B", "C", "D", "Integer", "Array", "Object", "Kernel", "", "Identifier"]
FRAMES = ["", "", "", "Builtin", "A", "M"]
BEFORE = ["", "", "x", "zq", "A", "A.new", "@v", "self", "Const", "a.b"]
KINDS = ["obj", "obj", "ident", "ident", "cls", "const", "self", "int", "str", "arr", "hash", "nil", "unknown"]


def gen_suggest_op(rng):
    edges = []
    for _ in range(rng.choice([0, 1, 2, 3, 4, 6])):
        inc, ext = rng.choice([(0, 0), (0, 0), (1, 0), (0, 1), (1, 1)])
        edges.append("~".join([rng.choice(FRAMES), rng.choice(NAMES[:6]), rng.choice(FRAMES), rng.choice(NAMES[:7]), str(inc), str(ext)]))
    if edges and rng.random() < 0.4:
        # the same parent reached twice, through edges with different include/extend flags, and diamonds
        f = edges[-1].split("~")
        for _ in range(rng.randint(1, 2)):
            inc, ext = rng.choice([(0, 0), (1, 0), (0, 1)])
            child = f[:2] if rng.random() < 0.6 else [rng.choice(FRAMES), rng.choice(NAMES[:6])]
            edges.insert(rng.randrange(len(edges) + 1), "~".join(child + f[2:4] + [str(inc), str(ext)]))
    kind = rng.choice(KINDS)
    name = rng.choice(NAMES[:7] + ["foo", "zq", "x"])
    if kind in ("obj", "cls", "const") and name == "":
        name = "A"
    recipe = "~".join([kind, name, rng.choice(BEFORE), rng.choice(FRAMES), rng.choice(NAMES), rng.choice(["", "", "m", "new"]), rng.choice("01"), rng.choice(FRAMES)])
    if edges and rng.random() < 0.6:
        # aim the query at the graph: receiver = a child, signature = a class of the graph
        e = rng.choice(edges).split("~")
        name = e[1] or "A"
        rf = recipe.split("~")
        rf[1] = name
        rf[7] = e[0]
        if rng.random() < 0.5:
            rf[4] = name
            rf[3] = e[0]
        recipe = "~".join(rf)
        e2 = rng.choice(edges).split("~")
        sf, sc = (e2[2], e2[3]) if rng.random() < 0.7 else (e2[0], e2[1])
        sig = "~".join([sf, sc, rng.choice(["m", "run", "new"]), rng.choice("01"), rng.choice("001")])
    else:
        sig = "~".join([rng.choice(FRAMES), rng.choice(NAMES), rng.choice(["m", "run", "new"]), rng.choice("01"), rng.choice("001")])
    return "suggest %s | %s | %s" % (";".join(edges), recipe, sig)


def run_suggest_stream(ctx, n):
    """Two passes: the real code answers `accessors | objectClass~static | kernelRule,isSuggest`; the accessors (what the
    T answers to IsClassType/ToString/GetType/GetObjectClass/GetFrame/GetBeforeEvaluateCode) and the process's builtin
    class list are handed to the model, whose objectClass/static and decisions are compared."""
    import time
    t0 = time.time()
    ops = [gen_suggest_op(ctx.rng) for _ in range(n)]
    wd = common.make_workdir(ctx, "sgstream")
    bcs = common.run_lines(ctx.godrv, ["bclasses"], wd)[0]
    ga = common.run_lines(ctx.godrv, ops, wd)
    lops, idx = [], []
    for i, (op, a) in enumerate(zip(ops, ga)):
        parts = a.split(" | ")
        if len(parts) != 3:
            continue
        lops.append("%s | %s | %s" % (op, parts[0], bcs))
        idx.append(i)
    la = common.run_lines(common.lean_driver(), lops, None)
    dis = []
    dist = {"listed": 0, "kernel": 0, "static_target": 0, "with_edges": 0}
    for j, i in enumerate(idx):
        parts = ga[i].split(" | ")
        want = parts[1] + " | " + parts[2]
        if la[j] != want:
            dis.append((i, lops[j], want, la[j]))
        dist["listed"] += parts[2][1] == "1"
        dist["kernel"] += parts[2][0] == "1"
        dist["static_target"] += parts[1].endswith("~1")
        dist["with_edges"] += not ops[i].startswith("suggest  |")
    bad = [(i, ops[i], ga[i], "") for i in range(len(ops)) if i not in set(idx)]
    st = ctx.cov["streams"].setdefault("suggest", {"ops": 0, "disagreements": 0, "wall_s": 0.0})
    st["ops"] += len(ops)
    st["disagreements"] += len(dis) + len(bad)
    st["wall_s"] = round(st["wall_s"] + time.time() - t0, 2)
    st["distribution"] = dist
    return dis + bad


def run(ctx):
    common.build_ti(ctx)
    common.build_godrv(ctx)
    proof_ok = common.prove(ctx)
    dis = run_suggest_stream(ctx, ctx.pick(6000, 60000))
    failures = run_e2e(ctx, ctx.pick(350, 3500), "a")

    def search():
        return run_e2e(ctx, 800, "s")

    common.conclude(ctx, proof_ok, {"suggest": dis}, failures, search)
    evidence(ctx)


def evidence(ctx):
    ctx.assumptions += ["Object/Kernel methods are not part of the end-to-end expectation: the filter rejects class \"\" up front (`object_methods_never_suggested`), they appear only through the lower-case-identifier rule",
                        "protected methods and methods of extended modules are not constrained either way"]
    common.write_evidence(ctx, LEVEL, RULE, trusted=common.BASE_TRUST + [
        "modelled: isSuggest / isParentClass / calculateObjectClassAndIsStatic / isSuggestForKernelOrObjectClass over the Sig and ClassInheritanceMap models and the accessor view of T (names compared on their first byte)",
        "not modelled: which T a row captures (end-to-end)"])


def replay(ctx, path):
    r = json.load(open(path))
    print(json.dumps(r, indent=1)[:3000])
    return 1

"""C04 — editor query modes never crash or hang, whatever row is asked about."""
import re
from .. import common, robust, lexgen, blackbox
from . import C01

LEVEL = "proof"
RULE = ("Lean (shared with C01/C02): token layer total, request bound, nil-safe predicates (regenerated tables). Black-box: --suggest/--hover/--define "
        "with --row=N for N in 0..lines+2 over corpus programs, their line prefixes and token mutations; every run must exit 0 without panic or "
        "persistent timeout and print only %/@/$ records or diagnostics of the target file. Non-trivial = program longer than 10 chars with a row inside it.")

REC = re.compile(r"^[%@$].*:::")


def line_check(so, fname):
    bad = []
    for line in so.split("\n"):
        if line == "":
            continue
        if REC.match(line):
            continue
        m = blackbox.LINE_OK["diag"].match(line)
        if m and m.group("file") == fname:
            continue
        bad.append(line)
    return bad


def cases(ctx, n):
    rng = ctx.rng
    texts = lexgen.corpus_texts()
    mut, kinds = robust.gen_texts(ctx, n // 2)
    out = []
    for i in range(n):
        t = rng.choice(texts) if i % 2 == 0 else mut[i // 2]
        lines = t.count("\n") + 1
        r = rng.random()
        row = rng.randint(0, lines + 2) if r < 0.8 else rng.choice([0, lines, lines + 1, lines + 2, -1, 10 ** 6])
        mode = ["--suggest", "--hover", "--define"][i % 3]
        out.append((t, [mode, "--row=%d" % row]))
    # grammar-generated programs: EVERY row from 0 to lines+2, all three modes
    for t in robust.gen_programs(ctx, max(4, n // 160)):
        lines = t.count("\n") + 1
        for row in range(0, lines + 3):
            for mode in ("--suggest", "--hover", "--define"):
                out.append((t, [mode, "--row=%d" % row]))
    return out


def run(ctx):
    common.build_ti(ctx)
    common.build_godrv(ctx)
    proof_ok = common.prove(ctx)
    regress = robust.replay_findings(ctx, ["--suggest", "--row=1"], line_check=line_check)
    cs = cases(ctx, ctx.pick(1600, 16000))
    failures = sweep_cases(ctx, cs, "query-modes")
    for t, fl in cs[:3]:
        ctx.sample({"flags": fl, "program": t[:160]})

    def search():
        return sweep_cases(ctx, cases(ctx, 6000), "search")

    common.conclude(ctx, proof_ok, {}, regress + failures, search)
    evidence(ctx)


def sweep_cases(ctx, cs, layer):
    # group by flag set so robust.sweep's round-robin keeps the pairing: run one sweep per case list index
    failures = []
    by = {}
    for t, fl in cs:
        by.setdefault(tuple(fl), []).append(t)
    # one sweep per mode keeps the number of sweeps small: rows vary inside, so pass flags per text
    texts = [t for t, _ in cs]
    flags = [fl for _, fl in cs]
    idx = {"i": 0}

    class FlagSeq(list):
        def __len__(self):
            return len(flags)

        def __getitem__(self, i):
            return flags[i]

    f, stats = robust.sweep(ctx, texts, FlagSeq(), {"panic", "hang", "exit", "lines"}, layer, line_check=line_check)
    return f


def evidence(ctx):
    ctx.assumptions += ["the evaluation that precedes printing is covered by C01/C02; the printers of cmd/out.go are validated black-box (their Lean model is part of C23)"]
    common.write_evidence(ctx, LEVEL, RULE, trusted=common.BASE_TRUST + [
        "theorems: RubyTi.Props.C04 re-states the token-layer and nil-guard obligations the query modes rest on",
        "not modelled: cmd/out.go printers in this check (see C23), flag parsing"])


replay = C01.replay

"""C02 — analysis terminates on every finite input without the watchdog."""
from .. import common, robust, lexgen
from . import C03, C01

LEVEL = "proof"
RULE = ("Lean: lexer loops terminate (structural recursion), every successful Advance consumes input, token-request bound for every "
        "client call sequence (EOS budget), loop table obligation. Streams lex+tok with a per-op deadline (a hang is answered HANG). "
        "Black-box: ti on line/rune prefixes, token mutations, random runes and cyclic-inheritance programs; a run is a hang only if it "
        "prints `timeout` again when re-run alone; hangs are keyed by the innermost eval frame of a goroutine dump.")


def cyclic_programs(ctx, n):
    rng = ctx.rng
    out = list(robust.CYCLES)
    names = ["A", "Bb", "Cc", "Dd", "Ee"]
    for _ in range(n):
        k = rng.randint(1, 4)
        cls = names[:k]
        lines = []
        vault = rng.random() < 0.5
        if vault:
            # visibility checks walk the ancestors of the calling class too (protected: is the caller a descendant of the owner?)
            lines += ["class Vault", "  %s" % rng.choice(["protected", "protected", "private"]), "  def code; 1; end", "end"]
        for i, c in enumerate(cls):
            parent = cls[(i + 1) % k]
            kind = rng.choice(["class", "class", "module"])
            if kind == "class":
                lines.append("class %s < %s" % (c, parent))
            else:
                lines.append("module %s\n  %s %s" % (c, rng.choice(["include", "extend"]), parent))
            if rng.random() < 0.7:
                lines.append("  def m%d; %s; end" % (i, rng.choice(["1", "@v", "self.q", "zz"])))
            if rng.random() < 0.3:
                lines.append("  @@c = 1\n  X = 2")
            if vault and kind == "class" and (i == 0 or rng.random() < 0.4):
                lines.append("  def pk%d(other); other.code; end" % i)
            if rng.random() < 0.2:
                lines.append("  protected\n  def pr%d; 2; end\n  public\n  def cmp%d(o); o.pr%d; end" % (i, i, i))
            lines.append("end")
        c0 = cls[0]
        lines.append("o = %s.new" % c0 if lines[4 if vault else 0].startswith("class") else "o = 1")
        lines.append("o.%s" % rng.choice(["nope", "m0", "m1", "to_s"]))
        lines.append("%s.%s" % (c0, rng.choice(["nope", "new", "m0"])))
        if vault and lines[4 if vault else 0].startswith("class"):
            lines.append("o.pk0(Vault.new)")
        lines.append("@x = 1\nx = @y")
        out.append("\n".join(lines) + "\n")
    return out


def run(ctx):
    common.build_ti(ctx)
    common.build_godrv(ctx)
    proof_ok = common.prove(ctx)
    wd = common.make_workdir(ctx, "cfg")
    dis = {}
    if proof_ok:
        bcs = robust.builtin_classes(ctx, wd)
        scale = ctx.pick(1, 8)
        lops, _ = C03.gen_ops(ctx, scale)
        dis["lex"] = common.run_stream(ctx, "lex", lops[: 3000 * scale])
        dis["tok"] = common.run_stream(ctx, "tok", robust.tok_ops(ctx, 1500 * scale, bcs), cwd=wd)
        # the inheritance walks (method lookup, protected check) on generated graphs with cycles: the models terminate by
        # construction (structural recursion on fuel), the real walks must answer within the driver's deadline and agree
        from . import C16
        dis["lookup"] = common.run_stream(ctx, "lookup", [C16.gen_lookup(ctx.rng) for _ in range(2000 * scale)])
        dis["ancestor"] = common.run_stream(ctx, "ancestor", [C16.gen_ancestor(ctx.rng) for _ in range(2000 * scale)])
    regress = robust.replay_findings(ctx, [])
    n = ctx.pick(1800, 18000)
    texts, kinds = robust.gen_texts(ctx, n)
    gp = robust.gen_programs(ctx, ctx.pick(900, 9000))
    kinds["grammar-programs"] = len(gp)
    texts += gp
    texts += cyclic_programs(ctx, ctx.pick(60, 600))
    flagsets = [[], ["-i"], ["--suggest", "--row=2"], ["--hover", "--row=3"]]
    failures, stats = robust.sweep(ctx, texts, flagsets, {"hang"}, "ti-hang-sweep")
    ctx.cov["layers"]["ti-hang-sweep"]["input_kinds"] = kinds
    for t in texts[:3] + texts[-2:]:
        ctx.sample(t[:200])

    def search():
        more, _ = robust.gen_texts(ctx, 5000)
        more += robust.gen_programs(ctx, 3000)
        more += cyclic_programs(ctx, 1000)
        f2, _ = robust.sweep(ctx, more, flagsets, {"hang"}, "search")
        return f2

    common.conclude(ctx, proof_ok, dis, regress + failures, search)
    evidence(ctx)


def evidence(ctx):
    ctx.assumptions += ["a client loop that hands a token back (Unget) in every iteration, and loops that never touch the token layer, are bounded only by the reviewed loop table and the black-box sweep",
                        "the 500 ms watchdog is wall-clock: under load it fires spuriously, so a hang counts only when it persists on a solitary re-run"]
    common.write_evidence(ctx, LEVEL, RULE, trusted=common.BASE_TRUST + [
        "modelled: lexer.go, reader.go, parser/read.go incl. the end-of-input budget; the inheritance walks GetMethodT/getParentMethodT and isAncestorNode (streams lookup / ancestor over graphs with cycles) and black-box with cyclic programs",
        "not modelled: evaluator control flow (validated black-box); scheduler/GC timing"])


replay = C01.replay

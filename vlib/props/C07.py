"""C07 — definite misuse of configured builtin methods is reported on its line."""
import json
import os
from .. import common, callcheck, meta

LEVEL = "proof"
RULE = ("Lean (rejected_reported): for every declared parameter type and argument type, if every possible value of the argument (its variants when it is a union) is rejected by the parameter, "
        "checkArgType reports a mismatch, and for positional signatures a call with too many arguments, a missing required argument or an all-rejected argument is reported (bind_pos_ok_iff; binding loop model tied by the `bind` stream) (model of IsMatchType / isCoveredBy / isAcceptVariant / IsMatchUnionType / checkArgType, tied by the `match` stream through the verif hook). Union receivers: if for one class of the union every declaration (first and overloads) rejects the arguments the call is an error, for any number of classes and overloads "
        "(union_rejected_reported on Bind.bindUnion, tied to checkAndPropagateArgsForUnionWithReturnT by the `bindu` stream through a hook). "
        "End-to-end: generated configurations (2-5 classes with extends chains, overloads, required/default/rest/keyword parameters, union and class-typed parameters) next to the shipped test "
        "configuration, and generated programs (literals, locals, ternary unions as receivers and arguments, instance and class-method calls, nested in if/unless/times blocks); a class-level oracle "
        "marks each call CERTAINLY FAILING (no receiver class has the method, or for every declaration the count is out of range or some argument's classes are all rejected); every such row "
        "must carry a diagnostic. Non-trivial = rows the oracle decides.")

WITNESS_K28 = {"frame": "Builtin", "class": "Krest", "instance_methods": [{"name": "takes", "arguments": [{"type": "*String"}], "return_type": {"type": "Int"}}],
               "class_methods": [{"name": "new", "arguments": [], "return_type": {"type": "Krest"}}]}


def replay_k28(ctx):
    kf = next((f for f in ctx.findings if f.get("status") == "open" and f.get("predicate") == "rest-type-unchecked"), None)
    if not kf:
        return
    wd = common.make_workdir(ctx, "k28")
    json.dump(WITNESS_K28, open(os.path.join(wd, ".ti-config", "krest.json"), "w"))
    meta.write(wd, "k.rb", "k = Krest.new\nk.takes(1, 2)\n")
    rc, so, se = common.run_ti(ctx.ti, ["k.rb"], wd)
    if ":::2:::" not in so and kf["id"] not in ctx.known_hits:
        common.known_finding(ctx, kf, kf["what"])


def run(ctx):
    common.build_ti(ctx)
    common.build_godrv(ctx)
    proof_ok = common.prove(ctx)
    dis = {"match": common.run_stream(ctx, "match", callcheck.match_ops(ctx.rng, ctx.pick(20000, 200000))),
           "bind": common.run_stream(ctx, "bind", callcheck.bind_ops(ctx.rng, ctx.pick(12000, 120000)), cwd=common.make_workdir(ctx, "bindcfg")),
           # union receivers with overloaded declarations: checkAndPropagateArgsForUnionWithReturnT against Bind.bindUnion
           "bindu": common.run_stream(ctx, "bindu", callcheck.bindu_ops(ctx.rng, ctx.pick(8000, 80000)), cwd=common.make_workdir(ctx, "bindcfg"))}
    replay_k28(ctx)
    failures = callcheck.run_calls(ctx, ctx.pick(22, 220), 14, "a")["C07"]

    def search():
        return callcheck.run_calls(ctx, 40, 14, "s")["C07"]

    common.conclude(ctx, proof_ok, dis, failures, search)
    evidence(ctx)


def evidence(ctx):
    ctx.assumptions += ["the oracle leaves a call undecided unless it certainly fails or certainly fits; calls whose verdict depends on a rest parameter's element type are skipped (known finding K28)",
                        "shipped-configuration methods outside the oracle's vocabulary (blocks, special strategies, operators, namespaced types) are never judged",
                        "only the first certainly-failing row of a program is judged: after a diagnostic inside a block ti forgets the block's own assignments (recovery), so later receivers may be Unknown",
                        "calls are written with parentheses; a method without parameters followed by a space and a value is parsed by ti as two expressions"]
    common.write_evidence(ctx, LEVEL, RULE, trusted=common.BASE_TRUST + [
        "modelled: IsMatchType, isCoveredBy, isAcceptVariant, IsMatchUnionType, checkArgType (tag / object class / variants of T)",
        "modelled: the binding loop of checkAndPropagateArgs for configured methods (Model/Bind.lean: required / defaulted / rest / keyword parameters), tied by the `bind` stream through hooks",
        "not modelled: receiver lookup (C16's lookup stream), collectArgs, overload fallback, union receivers (end-to-end against the class-level oracle in vlib/calls.py)"])


def replay(ctx, path):
    r = json.load(open(path))
    common.build_ti(ctx)
    print(json.dumps({k: v for k, v in r.items() if k not in ("config", "program", "output")}, indent=1)[:2000])
    if "program" in r:
        so = callcheck.replay_failure(ctx, r)
        return 1 if (":::%d:::" % r["row"]) not in so else 0
    return 1

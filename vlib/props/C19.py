"""C19 — config file names and splitting do not matter."""
import json
import os
import shutil
from .. import common, meta, progs, cfggen
from . import C21

LEVEL = "proof"
RULE = ("Lean: writes to pairwise distinct keys of the global map commute — any permutation of the load order gives the same answer to every lookup; splitting is sequencing; the refuted case "
        "(same key written twice) is proved with a witness. The per-declaration parser is C21's model (config stream re-run here). End-to-end: (a) the shipped configuration with its files renamed "
        "into random orders, against corpus and generated programs; (b) generated class hierarchies (extends chains, class and instance methods) written unsplit, split across 2-3 files, and in "
        "random file orders, against programs calling every own and inherited method with accepted and rejected arguments. Outputs of ti and ti -i must be identical.")


def run_e2e(ctx, n_perm_progs, n_gen, tag):
    rng = ctx.rng
    base = os.path.join(common.REPO, "test", ".ti-config")
    files = sorted(os.listdir(base))
    failures = []
    jobs = []
    # (a) renamed shipped files
    dirs = []
    d0 = os.path.join(ctx.tmp, "c19%s_orig" % tag)
    os.makedirs(d0)
    shutil.copytree(base, os.path.join(d0, ".ti-config"))
    dirs.append(d0)
    for k in range(3):
        order = list(files)
        rng.shuffle(order)
        d = os.path.join(ctx.tmp, "c19%s_p%d" % (tag, k))
        os.makedirs(os.path.join(d, ".ti-config"))
        for i, f in enumerate(order):
            shutil.copy(os.path.join(base, f), os.path.join(d, ".ti-config", "%03d_%s" % (i, f)))
        dirs.append(d)
    corpus = rng.sample(common.corpus_files(), n_perm_progs)
    texts = [open(f, errors="replace").read() for f in corpus] + [progs.gen_program(rng, base, level=rng.choice([2, 3, 4])) for _ in range(n_perm_progs // 2)]
    for i, t in enumerate(texts):
        jobs.append(("rename", dirs, "a%d.rb" % i, t, None))
    # (b) generated hierarchies: unsplit vs split/reordered
    for g in range(n_gen):
        classes = cfggen.gen_classes(rng, rng.randint(2, 4), frames=(g % 2 == 1))
        prog = cfggen.program_for(rng, classes)
        variants = []
        unsplit = {"zz_%s.json" % c["class"].lower(): c for c in classes}
        variants.append(unsplit)
        for v in range(2):
            files_v = {}
            names = ["%02d_%s.json" % (j, x) for j, x in enumerate(rng.sample(["aa", "mm", "zz", "k1", "k2", "q", "b9", "c3", "d4", "e5", "f6", "g7"], 12))]
            for c in classes:
                parts = cfggen.split_class(rng, c, rng.randint(1, 3))
                for part in parts:
                    files_v[names.pop()] = part
            variants.append(files_v)
        ds = []
        for vi, fv in enumerate(variants):
            d = os.path.join(ctx.tmp, "c19%s_g%d_%d" % (tag, g, vi))
            os.makedirs(d)
            cfggen.write_config(base, d, fv)
            ds.append(d)
        jobs.append(("split", ds, "g.rb", prog, [classes, variants]))

    def one(job):
        kind, ds, name, text, info = job
        outs = []
        for d in ds:
            meta.write(d, name, text)
            outs.append(meta.outputs(ctx, d, name, meta.STD_FLAGS))
        return outs

    runs = 0
    nontriv = 0
    for (kind, ds, name, text, info), outs in zip(jobs, common.pmap(one, jobs)):
        runs += 2 * len(ds)
        if any(meta.unusable(o) for o in outs):
            continue
        if any(so.strip() for _, so, _ in outs[0]):
            nontriv += 1
        for j in range(1, len(outs)):
            if outs[j] != outs[0]:
                failures.append({"kind": "config-%s-changes-output" % kind, "program": text, "out_a": outs[0], "out_b": outs[j],
                                 "config": info[0] if info else "shipped configuration, files renamed",
                                 "files_b": info[1][j] if info else sorted(os.listdir(os.path.join(ds[j], ".ti-config"))),
                                 "key": [kind, text[:60]]})
                break
    lay = ctx.cov["layers"].setdefault("e2e-config-order-and-split", {"runs": 0, "distinct_nontrivial": 0})
    lay["runs"] += runs
    lay["distinct_nontrivial"] += nontriv
    if jobs:
        ctx.sample({"kind": jobs[-1][0], "program": jobs[-1][3][:200]})
    return failures


def run(ctx):
    common.build_ti(ctx)
    common.build_godrv(ctx)
    proof_ok = common.prove(ctx)
    wd = common.make_workdir(ctx, "cfg")
    dis = {}
    if proof_ok:
        dis["config"] = common.run_stream(ctx, "config", C21.gen_ops(ctx, ctx.pick(1500, 15000)), cwd=wd)
    failures = run_e2e(ctx, ctx.pick(30, 300), ctx.pick(25, 250), "a")

    def search():
        return run_e2e(ctx, 80, 80, "s")

    common.conclude(ctx, proof_ok, dis, failures, search)
    evidence(ctx)


def evidence(ctx):
    ctx.assumptions += ["generated configurations stay in the proven regime: no method declared twice (overloads) and no method name shared with an ancestor or the Builtin frame; "
                        "outside it the first-loaded declaration becomes the primary signature (known limitation, proved as `same_key_order_matters`)"]
    common.write_evidence(ctx, LEVEL, RULE, trusted=common.BASE_TRUST + [
        "modelled: TFrame as a Go map (association list with map semantics); parsing of declarations (C21)",
        "not modelled: defineBuiltin*Method's definition-time lookups (GetMethodT fallbacks) — end-to-end only"])


def replay(ctx, path):
    r = json.load(open(path))
    print(json.dumps(r, indent=1)[:3000])
    return 1

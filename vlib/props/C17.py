"""C17 — block parameters get declared types and block locals stay local."""
import json
import os
from .. import common, meta

LEVEL = "proof"
RULE = ("Lean: for EVERY sequence of writes inside a block a key absent from the entry snapshot is absent after the block, outer variables keep what the block assigned, shadowed variables get their "
        "previous value back, the i-th block variable is bound to the i-th parameter type and surplus variables to nil; the binding loop of Do.setBlockParameters is regenerated from the source "
        "(Gen/BlockFacts.lean: guard, what each branch binds, whether the loop goes on) and proved equal to the modelled loop. End-to-end: generated block calls (do/end and braces) over arrays, hashes, "
        "ranges, integers and strings with 0-3 parameters, shadowing, nesting and block locals; `dbtp` inside and after the block is compared with a reference (declared block_parameters resolved "
        "against homogeneous receivers; a block local must print after the block what it prints in a program that never assigned it). Non-trivial = at least one dbtp line.")

# (receiver literal, receiver type text, method, declared block parameter types as rendered inside the block)
RECV = [
    ("[1, 2]", "all?", ["Integer"]), ("[1, 2]", "count", ["Integer"]), ("['a', 'b']", "reject", ["String"]), ("[1, 2]", "each", ["Integer"]),
    ("['a']", "each", ["String"]), ("[1, 2]", "each_index", ["Integer"]), ("[1, 2]", "sort", ["Integer", "Integer"]), ("[1.5]", "each_with_index", ["Float", "Integer"]),
    ("3", "times", ["Integer"]), ("5", "downto(1)", ["Integer"]), ("(1..3)", "each", ["Integer"]), ("'abc'", "each_char", ["String"]), ("'abc'", "each_byte", ["Integer"]),
    ("{a: 1}", "each", ["untyped", "Integer"]),
]


def gen_case(rng, k):
    """returns (program, expectations): expectations = list of (row, expected type text or ('same-as', probe name))"""
    lines = []
    exp = []
    outer = "out%d" % k
    lines.append("%s = 'outer'" % outer)
    recv, meth, ptypes = rng.choice(RECV)
    rv = "r%d" % k
    lines.append("%s = %s" % (rv, recv))
    nparams = rng.choice([len(ptypes), len(ptypes), max(0, len(ptypes) - 1), len(ptypes) + 1, 3, 3, rng.randint(0, 3)])
    shadow = rng.random() < 0.4 and nparams > 0
    params = ["bp%d_%d" % (k, i) for i in range(nparams)]
    if shadow:
        params[rng.randrange(nparams)] = outer        # any position, a surplus one included
    brace = rng.random() < 0.3
    head = "%s.%s %s%s" % (rv, meth, "{" if brace else "do", (" |%s|" % ", ".join(params)) if params else "")
    lines.append(head)
    for i, p in enumerate(params):
        lines.append("  dbtp %s" % p)
        if i < len(ptypes):
            # `each` on arrays is declared Flatten: with several variables it destructures; only check the single-variable form
            if not (meth == "each" and recv.startswith("[") and nparams > 1):
                exp.append((len(lines), ptypes[i]))
        else:
            exp.append((len(lines), "NilClass"))
    local = "loc%d" % k
    lines.append("  %s = 1" % local)
    lines.append("  dbtp %s" % local)
    exp.append((len(lines), "Integer"))
    nested = rng.random() < 0.3
    if nested:
        lines.append("  [1].each do |nn%d|" % k)
        lines.append("    inner%d = 'x'" % k)
        lines.append("  end")
        lines.append("  dbtp inner%d" % k)
        exp.append((len(lines), ("unassigned", "inner%d" % k)))
    lines.append("}" if brace else "end")
    lines.append("dbtp %s" % local)
    exp.append((len(lines), ("unassigned", local)))
    lines.append("dbtp %s" % outer)
    exp.append((len(lines), "String"))
    return "\n".join(lines) + "\n", exp


def run_e2e(ctx, n, tag):
    rng = ctx.rng
    wd = common.make_workdir(ctx, "e2e" + tag)
    cases = [gen_case(rng, k) for k in range(n)]

    def one(iv):
        k, (text, exp) = iv
        name = "blk%s%d.rb" % (tag, k)
        meta.write(wd, name, text)
        rc, so, se = common.run_ti(ctx.ti, [name], wd)
        # reference for "never assigned" names: the same dbtp in a program of its own
        refs = {}
        for row, e in exp:
            if isinstance(e, tuple) and e[1] not in refs:
                rn = "ref%s%d_%s.rb" % (tag, k, e[1])
                meta.write(wd, rn, "dbtp %s\n" % e[1])
                rrc, rso, rse = common.run_ti(ctx.ti, [rn], wd)
                refs[e[1]] = [x.split(":::", 2)[2] for x in rso.split("\n") if x.count(":::") >= 2]
        return rc, so, se, refs

    failures = []
    nontriv = 0
    runs = 0
    for (text, exp), (rc, so, se, refs) in zip(cases, common.pmap(one, list(enumerate(cases)))):
        runs += 1 + len(refs)
        if rc != 0 or "timeout" in so.split("\n"):
            continue
        by_row = {}
        for line in so.split("\n"):
            f = line.split(":::", 2)
            if len(f) == 3:
                by_row.setdefault(int(f[1]), []).append(f[2])
        if by_row:
            nontriv += 1
        for row, e in exp:
            got = by_row.get(row, [])
            want = refs[e[1]] if isinstance(e, tuple) else [e]
            if got != want:
                failures.append({"kind": "block-scope", "row": row, "expected": want, "got": got, "program": text, "output": so[:1200],
                                 "key": ["block", str(e)[:30], text.split("\n")[2][:40]]})
                break
    lay = ctx.cov["layers"].setdefault("e2e-blocks", {"runs": 0, "distinct_nontrivial": 0})
    lay["runs"] += runs
    lay["distinct_nontrivial"] += nontriv
    if cases:
        ctx.sample({"program": cases[0][0], "expectations": [list(map(str, x)) for x in cases[0][1]]})
    return failures


def run(ctx):
    common.build_ti(ctx)
    proof_ok = common.prove(ctx)
    failures = run_e2e(ctx, ctx.pick(300, 3000), "a")

    def search():
        return run_e2e(ctx, 700, "s")

    common.conclude(ctx, proof_ok, {}, failures, search)
    evidence(ctx)


def evidence(ctx):
    ctx.assumptions += ["receivers are homogeneous literals so the reference for Unify/Item/Flatten parameters is the element type; Array#each with several block variables (destructuring Flatten) is exercised but its parameter types are not compared"]
    common.write_evidence(ctx, LEVEL, RULE, trusted=common.BASE_TRUST + [
        "modelled: DeepCopyTFrame / RestoreFrame / restore list / setBlockParameters on the Go-map model of TFrame",
        "regenerated: the shape of the binding loop in Do.setBlockParameters (tools/extract/blockfacts.go, syntactic)",
        "not modelled: appendParameterBeforeTypeCalculate's resolution of declared parameter types (end-to-end)"])


def replay(ctx, path):
    r = json.load(open(path))
    print(json.dumps(r, indent=1)[:3000])
    return 1

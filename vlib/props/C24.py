"""C24 — the LLM navigator's call graph matches the source."""
import json
import os
import re
from .. import common, meta

LEVEL = "proof"
RULE = ("Lean: for every schedule of evaluations in which each call site is evaluated for real exactly once in the check round (any number of other-round and look-ahead evaluations, any "
        "interleaving) the call-point log has exactly one entry per call site; the recording guard and the marking of the look-ahead copy are re-extracted from the source. End-to-end: generated "
        "programs with known call sites (top level, inside methods, in if/elsif/unless/postfix conditions, ternaries, arguments, blocks, while loops); for every user method `--llm-nav --target=<name>` "
        "must list one caller per call site with its row and enclosing method/class, `total callers` = number of call sites. Non-trivial = a method with at least two call sites.")


def gen_case(rng, k):
    """top-level methods h0..hn (+ predicate ok?), a driver method, a class with an instance method; returns (text, expected)
    expected: name -> list of (row, enclosing method or 'top level', class or 'none')"""
    lines = []
    nm = rng.randint(1, 3)
    names = ["h%d_%d" % (k, i) for i in range(nm)]
    pred = "ok%d?" % k
    for n in names:
        lines += ["def %s(x)" % n, "  x", "end", ""]
    lines += ["def %s(y)" % pred, "  true", "end", ""]
    exp = {n: [] for n in names}
    exp[pred] = []

    def call(n, arg="1"):
        return "%s(%s)" % (n, arg)

    def emit_body(ind, encl):
        out = []
        for _ in range(rng.randint(2, 6)):
            r = rng.random()
            n = rng.choice(names)
            row = len(lines) + len(out) + 1
            pad = "  " * ind
            if r < 0.3:
                out.append(pad + call(n, rng.choice(["1", "'s'", ":a"])))
                exp[n].append((row, encl))
            elif r < 0.5:
                kw = rng.choice(["if", "unless"])
                out.append(pad + "%s %s" % (kw, call(pred, "2")))
                exp[pred].append((row, encl))
                out.append(pad + "  " + call(n, "3"))
                exp[n].append((row + 1, encl))
                if kw == "if" and rng.random() < 0.4:
                    out.append(pad + "elsif %s" % call(pred, "4"))
                    exp[pred].append((row + 2, encl))
                    out.append(pad + "  " + call(n, "5"))
                    exp[n].append((row + 3, encl))
                out.append(pad + "end")
            elif r < 0.6:
                out.append(pad + "%s if %s" % (call(n, "6"), call(pred, "7")))
                exp[n].append((row, encl))
                exp[pred].append((row, encl))
            elif r < 0.7:
                out.append(pad + "[1, 2].each do |a|")
                out.append(pad + "  " + call(n, "a"))
                exp[n].append((row + 1, encl))
                out.append(pad + "end")
            elif r < 0.8:
                out.append(pad + "while %s" % call(pred, "8"))
                exp[pred].append((row, encl))
                out.append(pad + "  " + call(n, "8"))
                exp[n].append((row + 1, encl))
                out.append(pad + "end")
            elif r < 0.9:
                out.append(pad + "t = %s ? 1 : 2" % call(pred, "10"))
                exp[pred].append((row, encl))
            else:
                n2 = rng.choice(names)
                out.append(pad + call(n, call(n2, "11")))
                exp[n].append((row, encl))
                exp[n2].append((row, encl))
        return out

    drv = "drv%d" % k
    lines.append("def %s" % drv)
    lines += emit_body(1, (drv, "none"))
    lines += ["end", ""]
    lines += emit_body(0, ("top level", "none"))
    lines.append(drv)
    return "\n".join(lines) + "\n", exp


CALLER = re.compile(r"  - method: (.*)\n    - class: (.*)\n    - call point: [^:]+:(\d+)")


def parse_nav(so):
    total = re.search(r"total callers: (\d+)", so)
    callers = [(int(r), (m, c)) for m, c, r in CALLER.findall(so)]
    return (int(total.group(1)) if total else None), callers


def run_e2e(ctx, n, tag):
    rng = ctx.rng
    wd = common.make_workdir(ctx, "e2e" + tag)
    cases = [gen_case(rng, k) for k in range(n)]
    jobs = []
    for k, (text, exp) in enumerate(cases):
        name = "nav%s%d.rb" % (tag, k)
        meta.write(wd, name, text)
        for target in exp:
            jobs.append((name, target, text, exp[target]))

    def one(job):
        name, target, text, want = job
        rc, so, se = common.run_ti(ctx.ti, [name, "--llm-nav", "--target=%s" % target], wd)
        return rc, so, se

    failures = []
    nontriv = 0
    for (name, target, text, want), (rc, so, se) in zip(jobs, common.pmap(one, jobs)):
        if rc != 0 or "timeout" in so.split("\n"):
            continue
        if len(want) >= 2:
            nontriv += 1
        total, callers = parse_nav(so)
        if not want and total is None:
            continue            # a method nobody calls has no call points and is not listed
        if total != len(want) or sorted(callers) != sorted(want):
            failures.append({"kind": "call-graph-mismatch", "target": target, "program": text, "expected_callers": sorted(want), "total_printed": total,
                             "callers_printed": sorted(callers), "output": so[:1500], "key": ["nav", text[:60], target]})
    lay = ctx.cov["layers"].setdefault("e2e-llm-nav", {"runs": 0, "distinct_nontrivial": 0})
    lay["runs"] += len(jobs)
    lay["distinct_nontrivial"] += nontriv
    if cases:
        ctx.sample({"program": cases[0][0][:300], "expected": {k: v for k, v in list(cases[0][1].items())[:2]}})
    return failures


def run(ctx):
    common.build_ti(ctx)
    proof_ok = common.prove(ctx)
    failures = run_e2e(ctx, ctx.pick(250, 2500), "a")

    def search():
        return run_e2e(ctx, 600, "s")

    common.conclude(ctx, proof_ok, {}, failures, search)
    evidence(ctx)


def evidence(ctx):
    ctx.assumptions += ["generated call sites are calls of top-level methods from top-level code and from top-level methods (receiver-less); calls through `self.` and calls of top-level methods from inside class bodies resolve to a different key and are not generated (limitation of the key frame+class+method)"]
    common.write_evidence(ctx, LEVEL, RULE, trusted=common.BASE_TRUST + [
        "modelled: the call-point log as a function of the evaluation schedule", "regenerated facts: recording guard, single writer, look-ahead copy marked (Gen/MainFacts.lean)",
        "not modelled: which evaluations happen (the evaluator); checked end-to-end"])


def replay(ctx, path):
    r = json.load(open(path))
    print(json.dumps(r, indent=1)[:3000])
    return 1

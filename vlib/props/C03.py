"""C03 — tokenizing any text terminates and consumes the whole input."""
import re
from .. import common, lexgen

LEVEL = "proof"
RULE = ("lex/reader op streams: random rune strings over a weighted alphabet (NUL, Unicode spaces/digits, quotes, %, <, #, "
        "heredoc starts), rune-prefixes of corpus files, token mutations of corpus lines; an op is non-trivial when it has >= 2 runes; "
        "distinct = distinct rune strings")

KNOWN_TOKS = None


def read_known_toks():
    import os
    src = open(os.path.join(common.LEAN, "RubyTi", "Gen", "Lexer.lean")).read()
    m = re.search(r"def readCases .*?:= (\[.*\])\n", src)
    return set(int(x) for x in re.findall(r"\((-?\d+) : Int\)", m.group(1)))


def oracle(op, ans, known):
    """Property oracle on the implementation's own answer (independent of the model)."""
    if ans == "NOT-RUN":
        return None
    if ans in ("HANG", "TOO-MANY-TOKENS", "DRIVER-TIMEOUT") or ans.startswith("PANIC") or ans.startswith("DRIVER-DIED"):
        return "lexer did not finish: " + ans[:200]
    parts = ans.split(";")
    n_runes = len(op.split()) - 1
    if len(parts) - 1 > n_runes:
        return "more tokens (%d) than runes (%d)" % (len(parts) - 1, n_runes)
    if parts[-1] != "E 0":
        return "input not consumed at end of stream: " + parts[-1]
    for t in parts[:-1]:
        f = t.split(" ")
        tok, kind = int(f[1]), f[2]
        if tok not in known:
            return "token %d is not handled by parser.Read (read error)" % tok
        want = {257: "i", 261: "f", 259: "s", 258: "d"}.get(tok)
        if want and kind != want:
            return "token %d carries a %s value (type assertion in parser.Read fails)" % (tok, kind)
        if tok == 258 and f[5] == "":
            return "empty identifier"
    return None


def gen_ops(ctx, scale):
    rng = ctx.rng
    ins = lexgen.lex_inputs(rng, 4000 * scale, 600 * scale, 1500 * scale)
    # fixed regression corpus first (past failures / the witnesses of the fixed defects)
    fixed = ['"abc', "# c", "x <", 'a = :"x y', "x = `ls`\n", "a\0b", "1.", "1.x", "-", "- 1", "-x", "%", "&", "|", "1..", "\\", '"\\', "0x", "<<~A\n b\nA\n", "\0", ""]
    ops = ["lex " + lexgen.fmt_runes([ord(c) for c in s]) for s in fixed]
    ops += ["lex " + lexgen.fmt_runes(r) for r in ins]
    rops = []
    for _ in range(1500 * scale):
        runes = [rng.choice([0, 0, 97, 98, 46, 10, 0x3042]) for _ in range(rng.randint(0, 6))]
        seq = []
        did_read = False
        for _ in range(rng.randint(1, 14)):
            x = rng.random()
            if x < 0.6 or not did_read:
                seq.append("r"); did_read = True
            elif x < 0.9:
                seq.append("u")
            else:
                seq.append("a%d" % rng.choice([46, 97, 0, 10]))
        rops.append("reader %s | %s" % (lexgen.fmt_runes(runes), " ".join(seq)))
    return ops, rops


def run(ctx):
    common.build_godrv(ctx)
    proof_ok = common.prove(ctx)
    known = read_known_toks()
    scale = ctx.pick(1, 12)
    ops, rops = gen_ops(ctx, scale)
    failures = []
    dis = {}
    if proof_ok or True:
        # Go answers are needed for the oracle even when the Lean side is broken
        d = common.run_stream(ctx, "lex", ops) if proof_ok else []
        dis["lex"] = d
        dis["reader"] = common.run_stream(ctx, "reader", rops) if proof_ok else []
    answers = common.run_lines(ctx.godrv, ops) if not proof_ok else None
    if answers is None:
        # re-derive implementation answers for the oracle from a second pass only for disagreeing ops (cheap path):
        answers = common.run_lines(ctx.godrv, ops)
    distinct = set()
    for op, a in zip(ops, answers):
        distinct.add(op)
        why = oracle(op, a, known)
        if why:
            failures.append({"kind": "lexer", "op": op, "text": "".join(chr(int(x)) if 0 < int(x) < 0x110000 else "\\0" for x in op.split()[1:]),
                             "observed": a[:1000], "why": why, "key": op,
                             "replay_cmd": "echo '%s' | godrv (built from /repo with -tags verif)" % op[:200]})
    ctx.cov["streams"].setdefault("lex", {"ops": len(ops), "disagreements": 0, "wall_s": 0})["distinct"] = sum(1 for o in distinct if len(o.split()) > 2)
    for s in ops[:3] + ops[25:28] + rops[:2]:
        ctx.sample(s[:160])

    def search():
        rng2 = ctx.rng
        more = lexgen.lex_inputs(rng2, 20000, 3000, 8000)
        mops = ["lex " + lexgen.fmt_runes(r) for r in more]
        ans = common.run_lines(ctx.godrv, mops)
        ctx.cov["layers"]["search"] = {"runs": len(mops)}
        out = []
        for op, a in zip(mops, ans):
            why = oracle(op, a, known)
            if why:
                out.append({"kind": "lexer", "op": op, "observed": a[:1000], "why": why, "key": op})
                if len(out) >= 3:
                    break
        return out

    common.conclude(ctx, proof_ok, dis, failures, search)
    evidence(ctx)


def evidence(ctx):
    common.write_evidence(ctx, LEVEL, RULE, trusted=common.BASE_TRUST + [
        "model abstraction: the lexer model runs on the reader's pending-rune list; Model/Reader.lean proves Read/Unread/AppendHistory refine pop/push on it, and the `lex` stream compares the pending length after every token with the real reader's fields",
        "not modelled: LastComment/LastSpecialComment, numeric literal values (only INT vs FLOAT), Go's UTF-8 decoding in reader.New (the streams feed runes)",
    ])


def replay(ctx, path):
    import json
    r = json.load(open(path))
    common.build_godrv(ctx)
    if "op" in r:
        a = common.run_lines(ctx.godrv, [r["op"]])[0]
        why = oracle(r["op"], a, read_known_toks())
        print("impl:", a[:500])
        print("verdict:", why or "property holds on this input")
        return 1 if why else 0
    print("replay file names no concrete input:", r.get("no_longer_checks"))
    return 1

"""C13 — consistently renaming user identifiers changes nothing but the names."""
import json
import os
import re
from .. import common, meta, progs, robust

LEVEL = "proof"
RULE = ("Lean: the token kind parser.Read builds for an identifier is a function of a category tuple of the name (keyword, in configured class list, first byte upper, some lower-case rune, "
        "byte length >= 2, contains ':', starts with ':'), so a renaming that preserves the tuple preserves the kind; Ruby's coarser lexical category is refuted (Hoge vs HG). The classification model is "
        "tied by the tok stream; IsVariableIdentifier (what patterns and parameters bind) holds for every name of the local-variable category, `_`-initial ones included (namepred stream). End-to-end: programs with binding constructs (case/in patterns, block/method parameters, multiple assignment, rescue, for) and every renameable local, method and class of generated programs (and locals of corpus programs) is renamed to fresh names of length 1..8 with the same "
        "category; the output must be the original output with the same substitution applied. Non-trivial = the baseline output is non-empty.")

LOCAL = re.compile(r"\bv\d+\b")
METHOD = re.compile(r"\b[mf]_v\d+\b")
CLASS = re.compile(r"\bKv\d+\b")


def fresh(rng, kind, used):
    while True:
        n = rng.choice([1, 2, 3, 5, 8])
        if kind == "class":
            # one capital letter (the evaluator has a special case for one-character classes), else capital + lower-case runes
            name = rng.choice("QZXJWY") + "".join(rng.choice("abcdeiouz") for _ in range(n - 1))
        else:
            name = "".join(rng.choice("qzxjwky") for _ in range(n))
            if kind == "method" and n == 1:
                name += rng.choice("qz")
            if kind == "local" and rng.random() < 0.3:
                # Ruby's local-variable category also has `_`-initial names and digits/underscores inside
                name = "_" + name[:-1] + rng.choice(["", "7", "_q"]) if n > 1 else "_" + name
        if name not in used and name not in ("if", "do", "in", "or", "end", "and", "not", "def", "nil", "p", "puts", "self", "then", "when", "case", "else", "begin", "class", "true", "false", "while", "until", "yield", "next", "redo", "retry", "return", "super", "unless", "elsif", "ensure", "rescue", "module", "loop"):
            used.add(name)
            return name


def occurrence(kind, old):
    """the occurrences of an identifier: an instance/global variable spelled like a method (@total vs total) is another identifier"""
    return (r"(?<![@$])\b%s\b" if kind == "method" else r"\b%s\b") % re.escape(old)


def rename_cases(rng, text):
    """(kind, old, new, new_text)"""
    used = set(re.findall(r"[A-Za-z_][A-Za-z0-9_]*", text))
    out = []
    for kind, pat in (("local", LOCAL), ("method", METHOD), ("class", CLASS)):
        names = sorted(set(pat.findall(text)))
        if kind == "local":
            names = [n for n in names if ("m_" + n) not in text and ("f_" + n) not in text and ("K" + n) not in text]
        rng.shuffle(names)
        for old in names[:3]:
            new = fresh(rng, kind, used)
            out.append((kind, old, new, re.sub(occurrence(kind, old), new, text)))
    return out


BINDERS = [
    "v1 = [1, 's']\ncase v1\nin [v2, v3]\n  dbtp v2\n  dbtp v3\n  v3.upcase\n  v2.upcase\nend\n",
    "v1 = [1, 2, 3]\ncase v1\nin [v2, *v3]\n  dbtp v2\n  dbtp v3\nend\n",
    "v1 = 1\ncase v1\nin Integer => v2\n  dbtp v2\nin String\n  dbtp v1\nend\n",
    "[1, 2].each do |v4|\n  dbtp v4\n  v4.upcase\nend\n",
    "{a: 1}.each do |v4, v5|\n  dbtp v4\n  dbtp v5\nend\n",
    "v5, v6 = 1, 's'\ndbtp v5\ndbtp v6\nv5.upcase\n",
    "def m_v7(v8, v9 = 1, v10: 's')\n  dbtp v9\n  dbtp v10\n  v8\nend\ndbtp m_v7(1)\nm_v7(1, 2, v10: 'x')\nm_v7\n",
    "def m_v7(*v8, **v9)\n  dbtp v8\n  dbtp v9\nend\nm_v7(1, 2, a: 1)\n",
    "begin\n  v1 = 1\nrescue => v11\n  dbtp v11\nend\ndbtp v1\n",
    "for v12 in [1, 2] do\n  dbtp v12\nend\n",
    "v1 = 1\nv2 = v1 ? 's' : nil\nif v2.nil?\n  dbtp v2\nelse\n  dbtp v2\nend\nv3 = [v1, v2]\ndbtp v3\n",
    "class Kv1\n  attr_accessor :v2\n  def initialize(v3)\n    @v2 = v3\n  end\n  def m_v4(v5)\n    v5\n  end\nend\nv6 = Kv1.new(1)\ndbtp v6.v2\ndbtp v6.m_v4('s')\nv6.nope\n",
    "class Kv1\n  def m_v2\n    \"1\"\n  end\n  def self.m_v3\n    2\n  end\nend\ndbtp Kv1.new.m_v2\nKv1.new.m_v2 + 1\ndbtp Kv1.m_v3\nKv1.new.m_v3\nKv1.m_v2\n",
    "class Kv1\n  def initialize(v2)\n    @v2 = v2\n  end\n  def m_v3\n    @v2\n  end\nend\nclass Kv4 < Kv1\n  def m_v5\n    m_v3\n  end\nend\ndbtp Kv4.new(1).m_v5\ndbtp Kv4.new('s').m_v3\nv6 = [Kv1.new(1), Kv4.new(2)]\ndbtp v6\nKv4.new\n",
    "module Kv1\n  class Kv2\n    def m_v3\n      :a\n    end\n  end\nend\nv4 = Kv1::Kv2.new\ndbtp v4\ndbtp v4.m_v3\ndbtp Kv1::Kv2.new.m_v3\nKv1::Kv2.nope\n",
    "class Kv1\n  def initialize\n    @m_v2 = 1\n  end\n  def m_v2\n    \"s\"\n  end\n  def m_v3\n    @m_v2\n  end\nend\nv4 = Kv1.new\ndbtp v4.m_v2\ndbtp v4.m_v3\nv4.m_v2.upcase\nv4.m_v3.upcase\n",
    "v1 = ->(v2) { v2 }\ndbtp v1\nv3 = proc { |v4| v4 }\ndbtp v3\n",
    "v1 = 5\nv1 += 1\ndbtp v1\nv2 = \"a#{v1}b\"\ndbtp v2\nv2.nope\n",
]


def run_e2e(ctx, n, tag):
    rng = ctx.rng
    wd = common.make_workdir(ctx, "e2e" + tag)
    cfgdir = os.path.join(common.REPO, "test", ".ti-config")
    programs = [progs.gen_program(rng, cfgdir, level=rng.choice([2, 3, 4, 4]), rich=False) for _ in range(n)]
    # constructs that BIND names (patterns, parameters, multiple assignment, rescue, for): each several times, renamings differ
    programs += [b for b in BINDERS for _ in range(max(1, n // 60))]
    jobs = []
    for pi, text in enumerate(programs):
        for ci, (kind, old, new, nt) in enumerate(rename_cases(rng, text)):
            jobs.append((pi, ci, text, kind, old, new, nt))

    def base_run(iv):
        pi, text = iv
        meta.write(wd, "b%d.rb" % pi, text)
        return meta.outputs(ctx, wd, "b%d.rb" % pi, meta.STD_FLAGS)

    bases = dict(enumerate(common.pmap(base_run, list(enumerate(programs)))))

    def one(job):
        pi, ci, text, kind, old, new, nt = job
        name = "r%d_%d.rb" % (pi, ci)
        meta.write(wd, name, nt)
        o = meta.outputs(ctx, wd, name, meta.STD_FLAGS)
        os.unlink(os.path.join(wd, name))
        return o

    failures = []
    nontriv = set()
    for (pi, ci, text, kind, old, new, nt), o in zip(jobs, common.pmap(one, jobs)):
        b = bases[pi]
        if meta.unusable(b) or meta.unusable(o):
            continue
        if any(so.strip() for _, so, _ in b):
            nontriv.add(pi)
        want = [(rc, re.sub(occurrence(kind, old), new, so), cr) for rc, so, cr in b]
        if want != o:
            failures.append({"kind": "rename-changes-output", "renamed": kind, "old": old, "new": new, "program": text,
                             "expected": [w[1] for w in want], "got": [x[1] for x in o], "key": ["rename", kind, text[:60]]})
    lay = ctx.cov["layers"].setdefault("e2e-renaming", {"runs": 0, "distinct_nontrivial": 0, "renamings": 0})
    lay["runs"] += 2 * (len(jobs) + len(programs))
    lay["distinct_nontrivial"] += len(nontriv)
    lay["renamings"] += len(jobs)
    if jobs:
        ctx.sample({"renamed": jobs[0][3], "old": jobs[0][4], "new": jobs[0][5], "program": jobs[0][2][:160]})
    return failures


def namepred_ops(ctx, n, bcs):
    rng = ctx.rng
    alpha = [ord(c) for c in "abqzxQZHG_@$:?!=09"] + [0xe9, 0x3a9, 0x3b1, 0x4e2d]
    names = [[ord(c) for c in b] for b in bcs.split(",") if b]
    ops = []
    for _ in range(n):
        if names and rng.random() < 0.1:
            nm = rng.choice(names)
        else:
            nm = [rng.choice(alpha) for _ in range(rng.choice([1, 1, 2, 3, 4, 6]))]
        ops.append("namepred %s|%s" % (bcs, " ".join(map(str, nm))))
    return ops


def run(ctx):
    common.build_ti(ctx)
    common.build_godrv(ctx)
    proof_ok = common.prove(ctx)
    wd = common.make_workdir(ctx, "cfg")
    dis = {}
    if proof_ok:
        bcs = robust.builtin_classes(ctx, wd)
        dis["tok"] = common.run_stream(ctx, "tok", robust.tok_ops(ctx, ctx.pick(1200, 12000), bcs), cwd=wd)
        dis["namepred"] = common.run_stream(ctx, "namepred", namepred_ops(ctx, ctx.pick(4000, 40000), bcs), cwd=wd)
    failures = run_e2e(ctx, ctx.pick(110, 1100), "a")

    def search():
        return run_e2e(ctx, 250, "s")

    common.conclude(ctx, proof_ok, dis, failures, search)
    evidence(ctx)


def evidence(ctx):
    ctx.assumptions += ["fresh class names contain a lower-case rune: all-capital class names (HG) are lexed as constants (known limitation, `ruby_category_refuted`)",
                        "fresh names avoid Ruby keywords, configured class names and the evaluator's special method names"]
    common.write_evidence(ctx, LEVEL, RULE, trusted=common.BASE_TRUST + [
        "modelled: Token.classify (parser.Read's identifier classification)", "not modelled: the evaluators' use of names as map keys (end-to-end only; C19's map model covers the map itself)"])


def replay(ctx, path):
    r = json.load(open(path))
    print(json.dumps(r, indent=1)[:3000])
    return 1

"""C18 — preloaded files act like a prefix whose diagnostics are hidden."""
import json
import os
import shutil
from .. import common, meta, progs

LEVEL = "proof"
RULE = ("Lean (output assembly): every printed line names the target file — diagnostics come only from the target parser's Errors, hints only from articles recorded under the target's name — for ANY "
        "behaviour of the evaluations of preloaded files; the facts about main.go this rests on are re-extracted each run. End-to-end: generated and eligible corpus programs are split at top-level "
        "statement boundaries into 1-3 preload files plus a target (.ti-loader.json); ti's output for the target (plain and -i) must equal the concatenated program's output restricted to the target's "
        "lines with rows rebased, and no line may name a preloaded file; plus pairs of independent, identically laid-out files (the same receiver, method, class and variable names on the same rows, singleton definitions included). Non-trivial = the concatenated run prints something in the target's part.")


def top_level_cuts(text):
    lines = text.rstrip("\n").split("\n")
    cuts = [i for i, l in enumerate(lines) if i > 0 and l and not l.startswith((" ", "end", "else", "elsif", "}", "rescue", "when", "in ", "ensure"))]
    return lines, cuts


def mirrored(rng, k):
    """two independent files laid out identically (same names on the same rows: singleton definitions, methods, classes, variables)
    that differ in the names they define; anything keyed by (name, row) without the file would mix them up"""
    shapes = [rng.choice(["single", "single", "var", "def", "class"]) for _ in range(rng.randint(1, 3))]
    files = []
    for side in ("p", "t"):
        lines = []
        for i, sh in enumerate(shapes):
            if sh == "single":
                lines += ["mo%d = Object.new" % i, "def mo%d.%sm%d_%d" % (i, side, k, i), "  %s" % rng.choice(["1", "'s'", ":a"]), "end"]
            elif sh == "var":
                lines += ["mv%d = %s" % (i, rng.choice(["1", "'s'", "1.5", "[1]"]))]
            elif sh == "def":
                lines += ["def %sf%d_%d(a)" % (side, k, i), "  a", "end"]
            else:
                lines += ["class Mk%d_%d" % (k, i), "  def %sc%d_%d" % (side, k, i), "    2", "  end", "end"]
        files.append(lines)
    pre, tgt = files
    # the target uses its own definitions and (wrongly, for reassigned receivers) the preloaded ones
    for i, sh in enumerate(shapes):
        if sh == "single":
            tgt += ["dbtp mo%d.tm%d_%d" % (i, k, i), "mo%d.pm%d_%d.nope" % (i, k, i)]
        elif sh == "var":
            tgt += ["dbtp mv%d" % i]
        elif sh == "def":
            tgt += ["dbtp tf%d_%d(1)" % (k, i), "dbtp pf%d_%d('s')" % (k, i)]
        else:
            tgt += ["mk = Mk%d_%d.new" % (k, i), "dbtp mk.tc%d_%d" % (k, i), "dbtp mk.pc%d_%d" % (k, i), "mk.zz_nope"]
    return "\n".join(pre) + "\n", "\n".join(tgt) + "\n"


def run_e2e(ctx, n, tag):
    rng = ctx.rng
    cfg = os.path.join(common.REPO, "test", ".ti-config")
    jobs = []
    for k in range(max(8, n // 4)):
        pre, tgt = mirrored(rng, k)
        d = os.path.join(ctx.tmp, "c18%s_m%d" % (tag, k))
        os.makedirs(d)
        shutil.copytree(cfg, os.path.join(d, ".ti-config"))
        jobs.append((d, pre + tgt, [pre], tgt, pre.count("\n")))
    for k in range(n):
        text = progs.gen_program(rng, cfg, level=rng.choice([2, 3, 4]), nstmts=rng.randint(5, 12))
        lines, cuts = top_level_cuts(text)
        if not cuts:
            continue
        npre = min(len(cuts), rng.choice([1, 1, 2, 3]))
        cs = sorted(rng.sample(cuts, npre))
        parts = []
        prev = 0
        for c in cs:
            parts.append("\n".join(lines[prev:c]) + "\n")
            prev = c
        target = "\n".join(lines[prev:]) + "\n"
        d = os.path.join(ctx.tmp, "c18%s_%d" % (tag, k))
        os.makedirs(d)
        shutil.copytree(cfg, os.path.join(d, ".ti-config"))
        jobs.append((d, text, parts, target, prev))

    def one(job):
        d, text, parts, target, off = job
        meta.write(d, "whole.rb", text)
        whole = meta.outputs(ctx, d, "whole.rb", meta.STD_FLAGS)
        names = []
        for i, p in enumerate(parts):
            meta.write(d, "pre%d.rb" % i, p)
            names.append("pre%d.rb" % i)
        meta.write(d, "m.rb", target)
        open(os.path.join(d, ".ti-loader.json"), "w").write(json.dumps({"preload": names}))
        part = meta.outputs(ctx, d, "m.rb", meta.STD_FLAGS)
        return whole, part

    failures = []
    nontriv = 0
    for (d, text, parts, target, off), (whole, part) in zip(jobs, common.pmap(one, jobs)):
        shutil.rmtree(d, ignore_errors=True)
        if meta.unusable(whole) or meta.unusable(part):
            continue
        bad = None
        for (rc, sw, _), (rc2, sp, _), fl in zip(whole, part, meta.STD_FLAGS):
            want = [(p, r - off, x) for p, r, x in meta.parse(sw) if r is not None and r > off]
            got = meta.parse(sp)
            if want:
                nontriv += 1
            if "pre0.rb" in sp or "pre1.rb" in sp or "pre2.rb" in sp:
                bad = ("a line names a preloaded file", want, got, fl)
            elif want != got:
                # K36: the first diagnostic of every row agrees and only LATER diagnostics of already reported rows differ
                def firsts(rows):
                    seen, out = set(), []
                    for (p, r, x) in rows:
                        if p == "" and r in seen:
                            continue
                        if p == "":
                            seen.add(r)
                        out.append((p, r, x))
                    return out
                kf = next((f for f in ctx.findings if f.get("status") == "open" and f.get("predicate") == "second-diagnostic-on-a-reported-row"), None)
                if kf and firsts(want) == firsts(got) and len(want) == len(got):
                    if kf["id"] not in ctx.known_hits:
                        common.known_finding(ctx, kf, kf["what"])
                    continue
                bad = ("target output differs from the concatenation's", want, got, fl)
        if bad:
            failures.append({"kind": "preload-not-a-prefix", "why": bad[0], "flags": bad[3], "preloads": parts, "target": target,
                             "expected": bad[1][:30], "got": bad[2][:30], "key": ["preload", text[:60]]})
    lay = ctx.cov["layers"].setdefault("e2e-preload-split", {"runs": 0, "distinct_nontrivial": 0})
    lay["runs"] += 4 * len(jobs)
    lay["distinct_nontrivial"] += nontriv
    if jobs:
        ctx.sample({"preloads": jobs[0][2], "target": jobs[0][3][:200]})
    return failures


def run(ctx):
    common.build_ti(ctx)
    proof_ok = common.prove(ctx)
    failures = run_e2e(ctx, ctx.pick(150, 1500), "a")

    def search():
        return run_e2e(ctx, 300, "s")

    common.conclude(ctx, proof_ok, {}, failures, search)
    evidence(ctx)


def evidence(ctx):
    ctx.assumptions += ["equality with the concatenated program assumes the statement evaluator is neutral at a top-level statement boundary (parser-local state such as LastCallT, the parsing-expression flag); that is exercised end-to-end, not proved"]
    common.write_evidence(ctx, LEVEL, RULE, trusted=common.BASE_TRUST + [
        "modelled: main.go's output assembly per round (separate Errors per parser, global article list, file filter)",
        "regenerated syntactic facts about main.go (Gen/MainFacts.lean)", "not modelled: the statement evaluator (parameter of the model)"])


def replay(ctx, path):
    r = json.load(open(path))
    print(json.dumps(r, indent=1)[:3000])
    return 1

"""C06 — layout changes only shift reported rows."""
import json
import os
import re
from .. import common, meta, progs, robust
from . import C03

LEVEL = "proof"
RULE = ("Lean (lexer/row half): a comment-only line lexes exactly like a blank line; newline tokens add 1 to Row; a string literal adds its line breaks once "
        "(also under Skip, never again after Unget); rows monotone. Streams lex+tok tie the model (rows are part of every tok answer). End-to-end (evaluator half): "
        "for generated programs and eligible corpus programs, insert a blank / comment-only line at EVERY line boundary, widen a string literal, add or drop the "
        "final newline; outputs of ti and ti -i must be equal after shifting rows >= the edit by the number of added lines. Non-trivial = the baseline output is non-empty.")

STRLIT = re.compile(r"'([^'\\\n#]+)'")


def eligible_corpus(text):
    """corpus programs whose lines are statement boundaries: no heredoc, no =begin, no multi-line literal, no line continuation"""
    if "<<" in text or "=begin" in text or "\\\n" in text or "%w" in text or "%i" in text:
        return False
    for l in text.split("\n"):
        if l.count("'") % 2 or l.count('"') % 2:
            return False
        s = l.rstrip()
        if s.endswith((",", "(", "[", "{", "|", "&&", "||", "+", "-", "*", "=", ".", "\\")) or s.lstrip().startswith((".", "&.")):
            return False
    return True


def variants(rng, text, all_boundaries):
    """(description, new_text, at_row, k) — edits that must only shift rows"""
    lines = text.split("\n")
    if lines and lines[-1] == "":
        lines = lines[:-1]
    n = len(lines)
    bounds = list(range(0, n + 1)) if all_boundaries else sorted(rng.sample(range(0, n + 1), min(n + 1, 4)))
    out = []
    for b in bounds:
        ins = rng.choice(["", "# note", "   ", "#", "  # x = 1 + 'a'", "#{"]) if rng.random() < 0.8 else "\n# two\n"
        k = ins.count("\n") + 1
        new = lines[:b] + ins.split("\n") + lines[b:]
        out.append(("insert %r before line %d" % (ins, b + 1), "\n".join(new) + "\n", b + 1, k))
    # widen one string literal
    ms = list(STRLIT.finditer(text))
    if ms:
        m = rng.choice(ms)
        row = text[:m.start()].count("\n") + 1
        k = rng.randint(1, 2)
        new = text[:m.start()] + "'" + m.group(1) + "\n" * k + "z'" + text[m.end():]
        out.append(("widen string literal on line %d by %d" % (row, k), new, row + 1, k))
        # the same literal continued with a backslash at the end of the line (double-quoted): one more line, same statement
        new2 = text[:m.start()] + '"' + m.group(1).replace('"', "") + "\\\n" * k + 'z"' + text[m.end():]
        out.append(("widen string literal on line %d by %d (backslash continuation)" % (row, k), new2, row + 1, k))
    # final newline
    out.append(("drop final newline", "\n".join(lines), 10 ** 9, 0))
    out.append(("extra final newline", "\n".join(lines) + "\n\n", 10 ** 9, 0))
    return out


def run_e2e(ctx, nprog, all_boundaries):
    rng = ctx.rng
    wd = common.make_workdir(ctx, "e2e")
    cfgdir = os.path.join(common.REPO, "test", ".ti-config")
    programs = [progs.gen_program(rng, cfgdir, level=rng.choice([1, 2, 3, 4]), rich=False) for _ in range(nprog)]
    corpus = [t for t in (open(f, errors="replace").read() for f in common.corpus_files()) if eligible_corpus(t)]
    programs += rng.sample(corpus, min(len(corpus), max(2, nprog // 3)))
    jobs = []
    for pi, text in enumerate(programs):
        for vi, (desc, new, at, k) in enumerate(variants(rng, text, all_boundaries)):
            jobs.append((pi, vi, text, desc, new, at, k))
    def base_run(iv):
        pi, text = iv
        name = "b%d.rb" % pi
        meta.write(wd, name, text if text.endswith("\n") else text + "\n")
        return meta.outputs(ctx, wd, name, meta.STD_FLAGS)

    base_cache = dict(enumerate(common.pmap(base_run, list(enumerate(programs)))))

    def base_of(pi, text):
        return base_cache[pi]

    def one(job):
        pi, vi, text, desc, new, at, k = job
        b = base_of(pi, text)
        name = "v%d_%d.rb" % (pi, vi)
        meta.write(wd, name, new)
        o = meta.outputs(ctx, wd, name, meta.STD_FLAGS)
        os.unlink(os.path.join(wd, name))
        return b, o

    results = common.pmap(one, jobs)
    failures = []
    nontriv = set()
    skipped = 0
    for (pi, vi, text, desc, new, at, k), (b, o) in zip(jobs, results):
        if meta.unusable(b) or meta.unusable(o):
            skipped += 1
            continue
        if any(so.strip() for _, so, _ in b):
            nontriv.add(pi)
        for (rcb, sob, _), (rco, soo, _), fl in zip(b, o, meta.STD_FLAGS):
            want = meta.shift_rows(meta.parse(sob), at, k)
            got = meta.parse(soo)
            if desc.startswith("widen"):
                # the statement holding the widened literal now spans rows at-1 .. at-1+k: a record of that statement may sit on any of them
                lo, hi = at - 1, at - 1 + k
                want = sorted((p_, (lo if (r is not None and lo <= r <= hi) else r), x) for p_, r, x in want)
                got = sorted((p_, (lo if (r is not None and lo <= r <= hi) else r), x) for p_, r, x in got)
            if want != got:
                failures.append({"kind": "layout-edit-changes-output", "edit": desc, "flags": fl, "program": text, "edited": new,
                                 "expected": want[:40], "got": got[:40], "key": ["layout", desc.split(" ")[0], text[:80]]})
                break
    ctx.cov["layers"]["e2e-layout-edits"] = {"runs": (len(jobs) + len(base_cache)) * 2, "distinct_nontrivial": len(nontriv), "programs": len(programs),
                                            "edits": len(jobs), "skipped_crash_or_timeout": skipped}
    if jobs:
        ctx.sample({"edit": jobs[0][3], "program": jobs[0][2][:200]})
    return failures


def run(ctx):
    common.build_ti(ctx)
    common.build_godrv(ctx)
    proof_ok = common.prove(ctx)
    wd = common.make_workdir(ctx, "cfg")
    dis = {}
    if proof_ok:
        bcs = robust.builtin_classes(ctx, wd)
        lops, _ = C03.gen_ops(ctx, 1)
        dis["lex"] = common.run_stream(ctx, "lex", lops[:2500])
        dis["tok"] = common.run_stream(ctx, "tok", robust.tok_ops(ctx, ctx.pick(1500, 12000), bcs), cwd=wd)
    failures = run_e2e(ctx, ctx.pick(36, 400), True)
    failures = filter_known(ctx, failures)

    def search():
        return filter_known(ctx, run_e2e(ctx, 150, False))

    common.conclude(ctx, proof_ok, dis, failures, search)
    evidence(ctx)


def filter_known(ctx, failures):
    """A finding names the diagnostics that are known to be mis-attributed: it applies only when EVERY record that differs
    between expected and observed output matches its message pattern."""
    out = []
    for f in failures:
        exp = [tuple(x) for x in f["expected"]]
        got = [tuple(x) for x in f["got"]]
        diff = [x for x in exp if x not in got] + [x for x in got if x not in exp]
        kf = None
        m = re.match(r"insert .* before line (\d+)$", f["edit"], re.S)
        prev_line = ""
        if m:
            pl = f["program"].split("\n")
            n = int(m.group(1))
            prev_line = pl[n - 2] if 2 <= n <= len(pl) + 1 else ""
        for k in ctx.findings:
            if k.get("status") != "open":
                continue
            if "diff_message_pattern" in k and diff and all(re.search(k["diff_message_pattern"], x[2]) for x in diff):
                kf = k
                break
            if "prev_line_pattern" in k and m and re.search(k["prev_line_pattern"], prev_line):
                kf = k
                break
        if kf:
            if kf["id"] not in ctx.known_hits:
                common.known_finding(ctx, kf, kf.get("what", ""))
            continue
        out.append(f)
    return out


def evidence(ctx):
    ctx.assumptions += ["edits are applied at line boundaries of programs whose every line is a complete statement (generator output; corpus files without heredocs, =begin, multi-line literals, continuations)"]
    common.write_evidence(ctx, LEVEL, RULE, trusted=common.BASE_TRUST + [
        "modelled: lexer.go, parser/read.go row bookkeeping", "not modelled: how evaluators treat an extra newline token (end-to-end only)"])


def replay(ctx, path):
    r = json.load(open(path))
    print(json.dumps(r, indent=1)[:3000])
    return 1

"""C08 — no false alarms on calls the configuration certainly accepts."""
import json
import os
from .. import common, callcheck, meta

LEVEL = "proof"
RULE = ("Lean (fits_accepted): for every declared parameter type and argument type, if every possible value of the argument (each variant of a union argument) is admitted by the parameter, "
        "checkArgType reports nothing, and a call that certainly fits a positional signature is accepted (fitting_call_accepted; binding loop model tied by the `bind` stream) (model of IsMatchType / isCoveredBy / isAcceptVariant / IsMatchUnionType / checkArgType, tied by the `match` stream through the verif hook). Union receivers: when every class of the receiver has a declaration (first or overload) that accepts the arguments, the call is accepted, "
        "for any number of classes and overloads (union_fitting_call_accepted on Bind.bindUnion, `bindu` stream). "
        "End-to-end: generated configurations (2-5 classes with extends chains, overloads, required/default/rest/keyword parameters, union and class-typed parameters) next to the shipped test "
        "configuration, and generated programs (literals, locals, ternary unions as receivers and arguments, instance and class-method calls, nested in if/unless/times blocks); a class-level oracle "
        "marks each call CERTAINLY FITTING (every receiver class has a declaration whose count is accepted and whose parameters accept every possible class of every argument); no such row "
        "before the first certainly-failing row may carry a diagnostic. Non-trivial = rows the oracle decides.")

WITNESS_K33 = {"frame": "Builtin", "class": "Kov", "instance_methods": [
    {"name": "m", "arguments": [{"type": "Int"}, {"type": "Array", "key": "gamma:"}], "return_type": {"type": "Int"}},
    {"name": "m", "arguments": [{"type": "String"}, {"type": "Float", "key": "gamma:"}], "return_type": {"type": "Int"}}],
    "class_methods": [{"name": "new", "arguments": [], "return_type": {"type": "Kov"}}]}


def replay_k33(ctx):
    kf = next((f for f in ctx.findings if f.get("status") == "open" and f.get("predicate") == "overloads-sharing-keyword-name"), None)
    if not kf:
        return
    wd = common.make_workdir(ctx, "k33")
    json.dump(WITNESS_K33, open(os.path.join(wd, ".ti-config", "kov.json"), "w"))
    meta.write(wd, "k.rb", "k = Kov.new\nk.m(1, gamma: [1])\n")
    rc, so, se = common.run_ti(ctx.ti, ["k.rb"], wd)
    if ":::2:::" in so and kf["id"] not in ctx.known_hits:
        common.known_finding(ctx, kf, kf["what"])


def run(ctx):
    common.build_ti(ctx)
    common.build_godrv(ctx)
    proof_ok = common.prove(ctx)
    dis = {"match": common.run_stream(ctx, "match", callcheck.match_ops(ctx.rng, ctx.pick(20000, 200000))),
           "bind": common.run_stream(ctx, "bind", callcheck.bind_ops(ctx.rng, ctx.pick(12000, 120000)), cwd=common.make_workdir(ctx, "bindcfg")),
           # union receivers with overloaded declarations: checkAndPropagateArgsForUnionWithReturnT against Bind.bindUnion
           "bindu": common.run_stream(ctx, "bindu", callcheck.bindu_ops(ctx.rng, ctx.pick(8000, 80000)), cwd=common.make_workdir(ctx, "bindcfg"))}
    replay_k33(ctx)
    failures = callcheck.run_calls(ctx, ctx.pick(22, 220), 14, "a")["C08"]

    def search():
        return callcheck.run_calls(ctx, 40, 14, "s")["C08"]

    common.conclude(ctx, proof_ok, dis, failures, search)
    evidence(ctx)


def evidence(ctx):
    ctx.assumptions += ["the oracle leaves a call undecided unless it certainly fails or certainly fits; calls whose verdict depends on a rest parameter's element type are skipped (known finding K28)",
                        "calls of methods whose overloads share a keyword parameter name are not judged (known finding K33)",
                        "shipped-configuration methods outside the oracle's vocabulary (blocks, special strategies, operators, namespaced types) are never judged",
                        "calls are written with parentheses; a method without parameters followed by a space and a value is parsed by ti as two expressions"]
    common.write_evidence(ctx, LEVEL, RULE, trusted=common.BASE_TRUST + [
        "modelled: IsMatchType, isCoveredBy, isAcceptVariant, IsMatchUnionType, checkArgType (tag / object class / variants of T)",
        "modelled: the binding loop of checkAndPropagateArgs for configured methods (Model/Bind.lean: required / defaulted / rest / keyword parameters), tied by the `bind` stream through hooks",
        "not modelled: receiver lookup (C16's lookup stream), collectArgs, overload fallback, union receivers (end-to-end against the class-level oracle in vlib/calls.py)"])


def replay(ctx, path):
    r = json.load(open(path))
    common.build_ti(ctx)
    print(json.dumps({k: v for k, v in r.items() if k not in ("config", "program", "output")}, indent=1)[:2000])
    if "program" in r:
        so = callcheck.replay_failure(ctx, r)
        return 1 if (":::%d:::" % r["row"]) in so else 0
    return 1

"""C26 — c2json signatures accept exactly the argument counts the C binding accepts."""
import json
import os
import shutil
import subprocess
from .. import common

LEVEL = "proof"
RULE = ("Lean: tiAccepts (infer d) k = cAccepts d k for every abstract definition (MRB_ARGS spec and/or mrb_get_args format) and every k. Correspondence at the binary level: "
        "generated C sources through the real ti-c2json; the emitted argument list (required/optional/rest/block classification) is compared with the model's `infer`. End-to-end: the "
        "generated configuration is loaded by ti and each method is called with 0..6 arguments; a call must draw an arity diagnostic exactly when the C definition rejects that count. "
        "The tool is run twice per source (byte-identical output). Non-trivial = a definition with at least one macro or format character.")

FMTV = "ifszSAaHbnCo"
VALUE = {"i": "1", "f": "1.5", "s": "'s'", "z": "'s'", "S": "'s'", "A": "[1]", "a": "[1]", "H": "{}", "b": "true", "n": ":a", "C": "1", "o": "1"}


def gen_def(rng):
    r = rng.random()
    spec = {"req": 0, "opt": 0, "rest": 0, "post": 0, "block": 0, "none": 0, "any": 0}
    fmt = None
    if r < 0.08:
        spec["none"] = 1
    elif r < 0.14:
        spec["any"] = 1
    else:
        spec["req"] = rng.randint(0, 3)
        spec["opt"] = rng.randint(0, 2) if rng.random() < 0.6 else 0
        spec["rest"] = int(rng.random() < 0.3)
        spec["post"] = rng.randint(1, 2) if rng.random() < 0.15 else 0
        spec["block"] = int(rng.random() < 0.2)
        if rng.random() < 0.5:
            # a format string consistent with the spec
            f = "".join(rng.choice(FMTV) + rng.choice(["", "", "!", "?"]) for _ in range(spec["req"]))
            if spec["opt"] or (rng.random() < 0.1):
                f += "|" + "".join(rng.choice(FMTV) for _ in range(spec["opt"]))
            if spec["rest"]:
                f += "*"
            if spec["block"]:
                f += "&"
            spec["post"] = 0
            fmt = f if f else None
    return spec, fmt


def c_accepts(spec, fmt, k):
    if spec["none"]:
        return k == 0
    if spec["any"]:
        return True
    if fmt is not None:
        req = 0
        for c in fmt:
            if c == "|":
                break
            if c in FMTV:
                req += 1
        vals = sum(1 for c in fmt if c in FMTV)
        return req <= k and ("*" in fmt or k <= vals)
    return spec["req"] + spec["post"] <= k and (bool(spec["rest"]) or k <= spec["req"] + spec["opt"] + spec["post"])


def c_source(defs, rng):
    out = ["#include <mruby.h>", ""]
    regs = []
    for i, (spec, fmt) in enumerate(defs):
        fn = "cee_m%d" % i
        body = ["  mrb_value a, b, c, d;"]
        if fmt is not None:
            body.append('  mrb_get_args(mrb, "%s", &a, &b, &c, &d);' % fmt)
        body.append("  return mrb_nil_value();")
        out += ["static mrb_value", "%s(mrb_state *mrb, mrb_value self)" % fn, "{"] + body + ["}", ""]
        if spec["none"]:
            macros = ["MRB_ARGS_NONE()"]
        elif spec["any"]:
            macros = ["MRB_ARGS_ANY()"]
        else:
            macros = []
            if spec["req"] or not (spec["opt"] or spec["rest"] or spec["post"] or spec["block"]):
                macros.append("MRB_ARGS_REQ(%d)" % spec["req"])
            if spec["opt"]:
                macros.append("MRB_ARGS_OPT(%d)" % spec["opt"])
            if spec["rest"]:
                macros.append("MRB_ARGS_REST()")
            if spec["post"]:
                macros.append("MRB_ARGS_POST(%d)" % spec["post"])
            if spec["block"]:
                macros.append("MRB_ARGS_BLOCK()")
        sep = rng.choice(["|", " | ", " |\n      "])
        style = rng.random()
        if style < 0.5:
            regs.append('  mrb_define_class_method(mrb, c, "m%d", %s, %s);' % (i, fn, sep.join(macros)))
        else:
            regs.append('  mrb_define_class_method_id(mrb, c, MRB_SYM(m%d), %s, %s);' % (i, fn, sep.join(macros)))
    out += ["void", "mrb_cee_gem_init(mrb_state *mrb)", "{", '  struct RClass *c = mrb_define_class(mrb, "Cee", mrb->object_class);'] + regs + ["}", ""]
    return "\n".join(out)


def classify(args):
    s = ""
    for a in args:
        t = (a.get("type") or [""])[0]
        if a.get("key") == "*args":
            s += "S"
        elif "Block" in t:
            s += "B"
        elif t.startswith("?"):
            s += "O"
        else:
            s += "R"
    return s


def run_batch(ctx, tool, ndocs, per, proof_ok, dis, tag):
    rng = ctx.rng
    failures = []
    base = os.path.join(common.REPO, "test", ".ti-config")
    jobs = []
    nops = 0
    for d in range(ndocs):
        defs = [gen_def(rng) for _ in range(per)]
        wd = os.path.join(ctx.tmp, "c2j_%s_%d" % (tag, d))
        os.makedirs(wd)
        src = c_source(defs, rng)
        open(os.path.join(wd, "cee.c"), "w").write(src)
        outs = [subprocess.run([tool, "-class", "Cee", "cee.c"], cwd=wd, stdout=subprocess.PIPE, stderr=subprocess.PIPE, timeout=60).stdout.decode() for _ in range(2)]
        if outs[0] != outs[1]:
            failures.append({"kind": "c2json-nondeterministic", "source": src, "key": ["nondet"]})
            continue
        try:
            cfg = json.loads(outs[0])
            methods = {m["name"]: m for m in (cfg.get("class_methods") or [])}
        except Exception:
            failures.append({"kind": "c2json-output-unreadable", "source": src, "stdout": outs[0][:500], "key": ["unreadable"]})
            continue
        ops = ["c2jargs %d %d %d %d %d %d %d | %s" % (s["req"], s["opt"], s["rest"], s["post"], s["block"], s["none"], s["any"], f if f is not None else "-") for s, f in defs]
        model = common.run_lines(common.lean_driver(), ops) if proof_ok else None
        nops += len(ops)
        for i, ((spec, fmt), op) in enumerate(zip(defs, ops)):
            m = methods.get("m%d" % i)
            if m is None:
                failures.append({"kind": "method-not-extracted", "definition": [spec, fmt], "source": src, "key": ["missing", op]})
                continue
            impl = classify(m.get("arguments") or [])
            if model is not None and impl != model[i].split(" ")[0]:
                dis.setdefault("c2jargs", []).append((d * per + i, op, impl, model[i]))
        # end to end: load and call
        shutil.copytree(base, os.path.join(wd, ".ti-config"))
        open(os.path.join(wd, ".ti-config", "cee.json"), "w").write(outs[0])
        lines = []
        exp = []
        for i, (spec, fmt) in enumerate(defs):
            vals_for = [VALUE[c] for c in (fmt or "") if c in FMTV]
            for k in range(7):
                vals = [vals_for[j] if j < len(vals_for) else "1" for j in range(k)]
                lines.append("Cee.m%d(%s)" % (i, ", ".join(vals)))
                exp.append((i, k, c_accepts(spec, fmt, k)))
        open(os.path.join(wd, "p.rb"), "w").write("\n".join(lines) + "\n")
        jobs.append((wd, defs, exp, src, outs[0]))
        if d == 0:
            ctx.sample({"op": ops[0], "emitted": classify(methods["m0"].get("arguments") or []) if "m0" in methods else None})

    def one(job):
        return common.run_ti(ctx.ti, ["p.rb"], job[0])

    for (wd, defs, exp, src, cfg), (rc, out, se) in zip(jobs, common.pmap(one, jobs)):
        bad_rows = {}
        for line in out.split("\n"):
            parts = line.split(":::")
            if len(parts) >= 3:
                bad_rows.setdefault(int(parts[1]), []).append(parts[2])
        for row, (i, k, ok) in enumerate(exp, start=1):
            msgs = bad_rows.get(row, [])
            rejected = bool(msgs)          # any diagnostic on the call's row means ti does not accept the call
            if rejected == ok:
                spec_i, fmt_i = defs[i]
                preds = {"post-after-opt": fmt_i is None and spec_i["post"] > 0 and spec_i["opt"] > 0,
                         "rest-and-block": bool(spec_i["rest"] and spec_i["block"]) and ok and any("expected Block" in m for m in msgs)}
                kf = next((f for f in ctx.findings if f.get("status") == "open" and preds.get(f.get("predicate"))), None)
                if kf:
                    if kf["id"] not in ctx.known_hits:
                        common.known_finding(ctx, kf, kf["what"])
                    break
                failures.append({"kind": "arity-mismatch", "definition": defs[i], "k": k, "c_accepts": ok, "ti_says": msgs, "source": src,
                                 "config_method": [m for m in json.loads(cfg).get("class_methods", []) if m["name"] == "m%d" % i],
                                 "key": ["arity", json.dumps(defs[i])]})
                break
    st = ctx.cov["streams"].setdefault("c2jargs", {"ops": 0, "disagreements": 0, "wall_s": 0})
    st["ops"] += nops
    st["disagreements"] = len(dis.get("c2jargs", []))
    lay = ctx.cov["layers"].setdefault("e2e-arity", {"runs": 0, "distinct_nontrivial": 0})
    lay["runs"] += len(jobs)
    lay["distinct_nontrivial"] += len(jobs) * per
    return failures


def run(ctx):
    common.build_ti(ctx)
    proof_ok = common.prove(ctx)
    tool = common.build_tool(ctx, "./cmd/c2json", "ti-c2json")
    dis = {}
    failures = run_batch(ctx, tool, ctx.pick(30, 300), 20, proof_ok, dis, "a")

    def search():
        return run_batch(ctx, tool, 120, 20, False, {}, "s")

    common.conclude(ctx, proof_ok, dis, failures, search)
    evidence(ctx)


def evidence(ctx):
    ctx.assumptions += ["when a definition has both a spec and a format string they describe the same arity (generated consistently)",
                        "the GET_*_ARG / argc heuristics path is outside the property's statement (no spec, no format) and is not generated"]
    common.write_evidence(ctx, LEVEL, RULE, trusted=common.BASE_TRUST + [
        "modelled: inferArguments on the abstract definition; ti's arity rule as a specification",
        "exercised, not modelled: the regular expressions of extractDefineMethod / extractMethodBody, JSON serialisation"])


def replay(ctx, path):
    r = json.load(open(path))
    print(json.dumps(r, indent=1)[:3000])
    return 1

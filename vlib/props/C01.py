"""C01 — the analyzer never crashes, whatever source it is given."""
import os
from .. import common, robust, lexgen
from . import C03

LEVEL = "proof"
RULE = ("Lean: token layer never errs / identifiers non-empty / TypeToString total / predicates nil-safe (regenerated tables). "
        "Streams lex+tok: generated rune strings and client call sequences on the real lexer/parser vs the model. "
        "Black-box: ti and ti -i on line-prefixes, rune-prefixes, token mutations of the 585 corpus programs and random rune strings; "
        "non-trivial = more than 10 characters; distinct = distinct texts. Crashes are keyed by (function, panic message class).")


def run(ctx):
    common.build_ti(ctx)
    common.build_godrv(ctx)
    proof_ok = common.prove(ctx)
    wd = common.make_workdir(ctx, "cfg")
    dis = {}
    if proof_ok:
        bcs = robust.builtin_classes(ctx, wd)
        scale = ctx.pick(1, 8)
        lops, _ = C03.gen_ops(ctx, scale)
        dis["lex"] = common.run_stream(ctx, "lex", lops[: 3000 * scale])
        dis["tok"] = common.run_stream(ctx, "tok", robust.tok_ops(ctx, 1500 * scale, bcs), cwd=wd)
    regress = robust.replay_findings(ctx, [])
    n = ctx.pick(1800, 18000)
    texts, kinds = robust.gen_texts(ctx, n)
    gp = robust.gen_programs(ctx, ctx.pick(900, 9000))
    kinds["grammar-programs"] = len(gp)
    texts += gp
    failures, stats = robust.sweep(ctx, texts, [[], ["-i"]], {"panic", "exit", "lines"}, "ti-and-ti-i")
    ctx.cov["layers"]["ti-and-ti-i"]["input_kinds"] = kinds
    for t in texts[:4]:
        ctx.sample(t[:200])

    def search():
        more, _ = robust.gen_texts(ctx, 5000)
        more += robust.gen_programs(ctx, 3000)
        f2, _ = robust.sweep(ctx, more, [[], ["-i"]], {"panic", "exit", "lines"}, "search")
        return f2

    common.conclude(ctx, proof_ok, dis, regress + failures, search)
    evidence(ctx)


def evidence(ctx):
    ctx.assumptions += ["nil/bounds/assertion panics inside the token-driven evaluators are not excluded by a theorem; they are searched for black-box and keyed by site",
                        "stack overflow and out-of-memory are not modelled"]
    common.write_evidence(ctx, LEVEL, RULE, trusted=common.BASE_TRUST + [
        "modelled: lexer.go, reader.go, parser/read.go (token layer), TypeToString case table, nil guards of *T predicates",
        "not modelled: eval/*.go, eval/method_evaluator/*.go, cmd/out.go (validated black-box only)"])


def replay(ctx, path):
    import json
    r = json.load(open(path))
    common.build_ti(ctx)
    if "input" not in r:
        print("replay names no concrete input:", r.get("no_longer_checks"))
        return 1
    wd = common.make_workdir(ctx, "replay")
    from .. import blackbox
    blackbox.write_input(wd, "input.rb", r["input"])
    rc, so, se = common.run_ti(ctx.ti, ["input.rb"] + r.get("flags", []), wd)
    c = blackbox.classify(rc, so, se, "input.rb")
    bad = blackbox.bad_lines(so, "input.rb") if c == "ok" else []
    print("outcome:", c, so[-300:], se[-600:])
    return 1 if (c != "ok" or bad) else 0

#!/usr/bin/env python3
"""Regenerates the as-built sections (1.4, 3, 4, 8) of /verif/DESIGN.md from the registry, the Lean sources, the seeded directory,
the known-findings file and /repo's git log; the hand-written sections are kept from parts/*.md next to this script."""
import json, re, subprocess, sys, os
sys.path.insert(0, '/verif')
from vlib import registry, common
HERE = os.path.dirname(os.path.abspath(__file__))
def part(n): return open(os.path.join(HERE, 'parts', n)).read()
props = {json.loads(l)['id']: json.loads(l) for l in open('/verif/properties.jsonl')}
log = subprocess.run(['git', '-C', '/repo', 'log', '--reverse', '--format=%h %s'], capture_output=True, text=True).stdout.strip().split('\n')
fixl = [f for f in log if re.match(r'^[0-9a-f]+ fix:', f)]
hookl = [f for f in log if 'verif hooks' in f]
kf = []
for l in open('/verif/known_findings.jsonl'):
    l = l.strip()
    if l and not l.startswith('#'):
        try: kf.append(json.loads(l))
        except Exception: pass
opens = [k for k in kf if k.get('status') == 'open']
fixed = [k for k in kf if k.get('status') == 'fixed']
s14 = part('s14_head.md') % (len(fixl), "\n".join("* `%s` %s" % (f.split(' ', 1)[0], f.split(' ', 1)[1][5:]) for f in fixl), len(hookl),
    "\n".join("* `%s` %s" % tuple(f.split(' ', 1)) for f in hookl), len(opens),
    "\n".join("* **%s** (%s, `%s`): %s *Not repaired:* %s" % (k['id'], k['property'], k.get('predicate') or k.get('site') or k.get('kind'), k['what'][:300], (k.get('why_not_fixed') or 'see the entry')[:300]) for k in opens), len(fixed))
models = []
for f in sorted(os.listdir('/verif/lean/RubyTi/Model')):
    src = open('/verif/lean/RubyTi/Model/' + f).read()
    m = re.search(r'/-!\s*\n# (.*?)\n', src)
    models.append("| `Model/%s` | %s | %d |" % (f[:-5], (m.group(1) if m else '').replace('|', '\\|')[:190], len(src.split('\n'))))
gens = sorted(os.listdir('/verif/lean/RubyTi/Gen'))
def nlines(d): return sum(len(open(os.path.join(dp, f)).read().split('\n')) for dp, _, fs in os.walk(d) for f in fs if f.endswith('.lean') and '/Gen' not in dp)
tot = nlines('/verif/lean/RubyTi') + len(open('/verif/lean/Driver.lean').read().split('\n'))
mod = nlines('/verif/lean/RubyTi/Model')
prf = nlines('/verif/lean/RubyTi/Proofs') + nlines('/verif/lean/RubyTi/Props')
per, nth = {}, 0
for pid in sorted(props):
    try: names, bad = common.prop_theorems(pid)
    except Exception: names = []
    per[pid] = [n.split('.')[-1] for n in names]; nth += len(names)
s3 = part('s3_head.md') % (", ".join(g[:-5] for g in gens), "\n".join(models), tot, mod, prf, nth)
s4 = part('s4_head.md')
for pid in sorted(props):
    c = registry.CHECKS.get(pid)
    s4 += "### %s — %s\n" % (pid, props[pid]['title'])
    if not c:
        s4 += "not claimed.\n\n"; continue
    s4 += "* **Theorems:** %s.\n* **Claim:** %s\n* **Limits / findings:** %s\n* **Deciding method:** %s.\n\n" % (", ".join("`%s`" % n for n in per[pid]) or "(see file)", c['text'], c['note'], c['technique'])
rows = []
for d in sorted(os.listdir('/verif/seeded')):
    m = json.load(open('/verif/seeded/%s/meta.json' % d))
    res = m.get('verif_result', {})
    rows.append("| `%s` | %s | %s | %s |" % (d, ", ".join(m.get('files_changed', []))[:60], (m.get('summary', '') or '')[:230].replace('|', '/').replace('\n', ' '), res.get('caught_by', '?')))
s8 = part('s8_head.md') % "\n".join(rows)
out = part('head.md') + part('s0_13.md') + s14 + part('s15_2.md') + s3 + s4 + part('s5_7.md') + s8 + part('s9.md')
open('/verif/DESIGN.md', 'w').write(out)
print("DESIGN.md written:", len(out.split('\n')), "lines;", tot, "Lean lines,", nth, "theorems")

package main

import (
	"go/ast"
	"go/token"
	"strings"
)

// C17: the shape of the loop in Do.setBlockParameters (eval/block.go) that binds the block variables.
// The loop is translated into the four switches that the Lean model `Scope.bindParamsG` interprets:
//   - what the surplus branch (`len(blockParameters) <= idx`) binds, and whether the loop goes on after it
//   - what the other branch binds, and whether the loop goes on after it
func genBlockFacts() {
	f := parseFile("eval/block.go")
	fn := findFunc(f, "Do", "setBlockParameters")
	if fn == nil {
		refuse("Do.setBlockParameters not found")
	}
	var loop *ast.RangeStmt
	for _, st := range fn.Body.List {
		if r, ok := st.(*ast.RangeStmt); ok {
			if id, ok := r.X.(*ast.Ident); ok && id.Name == "blockVariables" {
				loop = r
			}
		}
	}
	if loop == nil {
		refuse("setBlockParameters: no `range blockVariables` loop")
	}
	idx, _ := loop.Key.(*ast.Ident)
	val, _ := loop.Value.(*ast.Ident)
	if idx == nil || val == nil || len(loop.Body.List) < 2 {
		refuse("setBlockParameters: unexpected loop header/body")
	}
	guard, ok := loop.Body.List[0].(*ast.IfStmt)
	if !ok || guard.Else != nil || guard.Init != nil {
		refuse("setBlockParameters: first loop statement is not a plain if")
	}
	cond := strings.ReplaceAll(exprString(guard.Cond), " ", "")
	guardOK := cond == "len(blockParameters)<="+idx.Name || cond == idx.Name+">=len(blockParameters)"
	// what a statement list binds through base.SetValueT(frame, class, method, <var>.ToString(), <value>, static)
	binds := func(list []ast.Stmt, want string) bool {
		for _, s := range list {
			es, ok := s.(*ast.ExprStmt)
			if !ok {
				continue
			}
			c, ok := es.X.(*ast.CallExpr)
			if !ok || exprString(c.Fun) != "base.SetValueT" || len(c.Args) != 6 {
				continue
			}
			if exprString(c.Args[3]) == val.Name+".ToString()" && strings.ReplaceAll(exprString(c.Args[4]), " ", "") == want {
				return true
			}
		}
		return false
	}
	// does control reach the next iteration after this statement list?
	var goesOn func(list []ast.Stmt) bool
	goesOn = func(list []ast.Stmt) bool {
		on := true
		for _, s := range list {
			ast.Inspect(s, func(n ast.Node) bool {
				switch x := n.(type) {
				case *ast.FuncLit:
					return false
				case *ast.ReturnStmt:
					on = false
				case *ast.BranchStmt:
					if x.Tok == token.BREAK || x.Tok == token.GOTO {
						on = false
					}
				}
				return true
			})
		}
		return on
	}
	rest := loop.Body.List[1:]
	b := "namespace RubyTi.Gen\n\n"
	b += "/-- setBlockParameters: the loop's first statement is `if len(blockParameters) <= idx` -/\ndef blockSurplusGuard : Bool := " + leanBool(guardOK) + "\n\n"
	b += "/-- the surplus branch binds the variable to base.MakeNil() -/\ndef blockSurplusBindsNil : Bool := " + leanBool(binds(guard.Body.List, "base.MakeNil()")) + "\n\n"
	b += "/-- the loop goes on to the next variable after the surplus branch (no break / return) -/\ndef blockSurplusGoesOn : Bool := " + leanBool(goesOn(guard.Body.List)) + "\n\n"
	b += "/-- the other branch binds the variable to &blockParameters[idx] -/\ndef blockBoundBindsIdx : Bool := " + leanBool(binds(rest, "&blockParameters["+idx.Name+"]")) + "\n\n"
	b += "/-- the loop goes on to the next variable after the other branch -/\ndef blockBoundGoesOn : Bool := " + leanBool(goesOn(rest)) + "\n\nend RubyTi.Gen\n"
	writeGen("BlockFacts", b)
}

package main

import (
	"fmt"
	"go/ast"
	"go/token"
	"strconv"
	"strings"
)

func leanChars(s string) string {
	var parts []string
	for _, r := range s {
		switch r {
		case '\'':
			parts = append(parts, "'\\''")
		case '\\':
			parts = append(parts, "'\\\\'")
		default:
			if r < 32 || r == 127 {
				refuse("control character in a string that must become a Lean char list: %q", s)
			}
			parts = append(parts, "'"+string(r)+"'")
		}
	}
	return "[" + strings.Join(parts, ", ") + "]"
}

// translate the initialiser of a builtin type variable: *base.MakeX() | *base.MakeUnion([]base.T{A, B})
func transInit(e ast.Expr) string {
	st, ok := e.(*ast.StarExpr)
	if !ok {
		refuse("builtin var initialiser is not *base.MakeX(...)")
	}
	call, ok := st.X.(*ast.CallExpr)
	if !ok {
		refuse("builtin var initialiser is not a call")
	}
	sel, ok := call.Fun.(*ast.SelectorExpr)
	if !ok || recvTypeName(sel.X) != "base" || !strings.HasPrefix(sel.Sel.Name, "Make") {
		refuse("builtin var initialiser is not base.Make*")
	}
	name := "T.m" + sel.Sel.Name[1:]
	if len(call.Args) == 0 {
		return name
	}
	if sel.Sel.Name == "MakeUnion" && len(call.Args) == 1 {
		cl, ok := call.Args[0].(*ast.CompositeLit)
		if !ok {
			refuse("MakeUnion argument is not a composite literal")
		}
		var items []string
		for _, el := range cl.Elts {
			id, ok := el.(*ast.Ident)
			if !ok {
				refuse("MakeUnion element is not an identifier")
			}
			items = append(items, "Builtin."+id.Name)
		}
		return "T.makeUnion [" + strings.Join(items, ", ") + "]"
	}
	refuse("unsupported builtin var initialiser %s", sel.Sel.Name)
	return ""
}

func genConfig() {
	f := parseFile("builtin/defined_type.go")
	var b strings.Builder
	b.WriteString("import RubyTi.Model.T\n")
	b.WriteString("namespace RubyTi.Gen\nopen RubyTi\n")
	b.WriteString("/-! the `var (...)` block of builtin/defined_type.go and the switch of ConvertToBuiltinT -/\n")
	b.WriteString("namespace Builtin\n")
	var varNames []string
	for _, d := range f.Decls {
		gd, ok := d.(*ast.GenDecl)
		if !ok || gd.Tok != token.VAR {
			continue
		}
		for _, sp := range gd.Specs {
			vs := sp.(*ast.ValueSpec)
			if len(vs.Names) != 1 || len(vs.Values) != 1 {
				refuse("defined_type.go: var spec shape")
			}
			fmt.Fprintf(&b, "def %s : T := %s\n", vs.Names[0].Name, transInit(vs.Values[0]))
			varNames = append(varNames, vs.Names[0].Name)
		}
	}
	b.WriteString("end Builtin\n")
	fd := findFunc(f, "", "ConvertToBuiltinT")
	var sw *ast.SwitchStmt
	for _, st := range fd.Body.List {
		if s, ok := st.(*ast.SwitchStmt); ok {
			sw = s
		}
	}
	if sw == nil {
		refuse("ConvertToBuiltinT: no switch")
	}
	var rows []string
	hasDefault := false
	for _, c := range sw.Body.List {
		cc := c.(*ast.CaseClause)
		if cc.List == nil {
			hasDefault = true
			continue
		}
		if len(cc.Body) != 1 {
			refuse("ConvertToBuiltinT: case body shape")
		}
		rs, ok := cc.Body[0].(*ast.ReturnStmt)
		if !ok || len(rs.Results) != 1 {
			refuse("ConvertToBuiltinT: case does not return")
		}
		id, ok := rs.Results[0].(*ast.Ident)
		if !ok {
			refuse("ConvertToBuiltinT: case returns a non-identifier")
		}
		for _, l := range cc.List {
			bl, ok := l.(*ast.BasicLit)
			if !ok || bl.Kind != token.STRING {
				refuse("ConvertToBuiltinT: non-string label")
			}
			s, _ := strconv.Unquote(bl.Value)
			rows = append(rows, fmt.Sprintf("(%s, Builtin.%s)", leanChars(s), id.Name))
		}
	}
	if !hasDefault {
		refuse("ConvertToBuiltinT: no default")
	}
	b.WriteString("def builtinNames : List (Str × T) := [\n  " + strings.Join(rows, ",\n  ") + "]\n")
	var vn []string
	for _, n := range varNames {
		vn = append(vn, fmt.Sprintf("(%s, Builtin.%s)", leanStr(n), n))
	}
	b.WriteString("def builtinVars : List (String × T) := [" + strings.Join(vn, ", ") + "]\n")
	b.WriteString("end RubyTi.Gen\n")
	writeGen("Config", b.String())
}

package main

import (
	"go/ast"
	"strings"
)

// C10: facts about IfUnless.Evaluation in eval/ifunless.go
//  - the three state maps are saved on entry and restored by a deferred function (nested conditionals)
//  - the restore closures returned for an `elsif` condition are deferred too
func genNarrowFacts() {
	f := parseFile("eval/ifunless.go")
	ev := findFunc(f, "IfUnless", "Evaluation")
	if ev == nil {
		refuse("IfUnless.Evaluation not found")
	}
	saves, restores, elsifDefers := false, false, false
	isStateSel := func(e ast.Expr) bool {
		s, ok := e.(*ast.SelectorExpr)
		return ok && (s.Sel.Name == "originalTs" || s.Sel.Name == "narrowTs" || s.Sel.Name == "ifNarrowTs")
	}
	// which local variable holds which state map (`outerNarrowTs := i.narrowTs`), and that each map gets ITS OWN saved value back
	savedIn := map[string]string{}
	for _, st := range ev.Body.List {
		switch x := st.(type) {
		case *ast.AssignStmt:
			if len(x.Rhs) == 3 && len(x.Lhs) == 3 && isStateSel(x.Rhs[0]) && isStateSel(x.Rhs[1]) && isStateSel(x.Rhs[2]) {
				saves = true
				for k := 0; k < 3; k++ {
					if id, ok := x.Lhs[k].(*ast.Ident); ok {
						savedIn[x.Rhs[k].(*ast.SelectorExpr).Sel.Name] = id.Name
					}
				}
			}
		case *ast.DeferStmt:
			if fl, ok := x.Call.Fun.(*ast.FuncLit); ok && saves {
				for _, s := range fl.Body.List {
					if as, ok := s.(*ast.AssignStmt); ok && len(as.Lhs) == 3 && len(as.Rhs) == 3 && isStateSel(as.Lhs[0]) && isStateSel(as.Lhs[1]) && isStateSel(as.Lhs[2]) {
						restores = len(savedIn) == 3
						for k := 0; k < 3; k++ {
							id, ok := as.Rhs[k].(*ast.Ident)
							if !ok || savedIn[as.Lhs[k].(*ast.SelectorExpr).Sel.Name] != id.Name {
								restores = false
							}
						}
					}
				}
			}
		}
	}
	// inside the `elsif` branch: a range over the result of getBackupContext whose body defers the closure
	ast.Inspect(ev.Body, func(n ast.Node) bool {
		is, ok := n.(*ast.IfStmt)
		if !ok || !strings.Contains(exprString(is.Cond), `"elsif"`) {
			return true
		}
		var resultName string
		ast.Inspect(is.Body, func(m ast.Node) bool {
			switch y := m.(type) {
			case *ast.AssignStmt:
				if len(y.Rhs) == 1 {
					if c, ok := y.Rhs[0].(*ast.CallExpr); ok && strings.HasSuffix(exprString(c.Fun), "getBackupContext") {
						if id, ok := y.Lhs[0].(*ast.Ident); ok && id.Name != "_" {
							resultName = id.Name
						}
					}
				}
			case *ast.RangeStmt:
				if id, ok := y.X.(*ast.Ident); ok && id.Name == resultName && resultName != "" {
					for _, s := range y.Body.List {
						if _, ok := s.(*ast.DeferStmt); ok {
							elsifDefers = true
						}
					}
				}
			}
			return true
		})
		return true
	})
	// the restore closures of the condition (`zaoriks`, one per narrowing step) are deferred ONE BY ONE, i.e. they run last-in first-out
	lifo := false
	var condRestores string
	for _, st := range ev.Body.List {
		if as, ok := st.(*ast.AssignStmt); ok && len(as.Rhs) == 1 && len(as.Lhs) >= 1 {
			if c, ok := as.Rhs[0].(*ast.CallExpr); ok && strings.HasSuffix(exprString(c.Fun), "getBackupContext") {
				if id, ok := as.Lhs[0].(*ast.Ident); ok {
					condRestores = id.Name
				}
			}
		}
		if r, ok := st.(*ast.RangeStmt); ok && condRestores != "" {
			if id, ok := r.X.(*ast.Ident); ok && id.Name == condRestores && len(r.Body.List) == 1 {
				if d, ok := r.Body.List[0].(*ast.DeferStmt); ok {
					if v, ok := r.Value.(*ast.Ident); ok && exprString(d.Call.Fun) == v.Name {
						lifo = true
					}
				}
			}
		}
	}
	b := "namespace RubyTi.Gen\n\n/-- IfUnless.Evaluation saves originalTs/narrowTs/ifNarrowTs on entry and restores them in a deferred function -/\n"
	b += "def ifUnlessSavesState : Bool := " + leanBool(saves && restores) + "\n\n"
	b += "/-- the restore closures of an elsif condition are deferred -/\ndef elsifDefersRestores : Bool := " + leanBool(elsifDefers) + "\n\n"
	b += "/-- the restore closures of the condition are deferred one by one: they run in reverse order of the narrowing steps -/\ndef conditionRestoresLIFO : Bool := " + leanBool(lifo) + "\n\nend RubyTi.Gen\n"
	writeGen("NarrowFacts", b)
}

func leanBool(b bool) string {
	if b {
		return "true"
	}
	return "false"
}

module extract

go 1.24.5

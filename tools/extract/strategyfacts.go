package main

import (
	"go/ast"
	"go/token"
	"strings"
)

// C13: `recv.name` denotes the METHOD name; an instance variable spelled like it (@name) is another identifier and is
// consulted only when no method of that name exists (instanceMethodStrategy.getRequiredValues).
func genStrategyFacts() {
	f := parseFile("eval/method_evaluator/instance_method_strategy.go")
	fn := findFunc(f, "instanceMethodStrategy", "getRequiredValues")
	if fn == nil {
		refuse("instanceMethodStrategy.getRequiredValues not found")
	}
	var methodPos, ivarPos token.Pos
	ast.Inspect(fn.Body, func(n ast.Node) bool {
		if c, ok := n.(*ast.CallExpr); ok {
			switch exprString(c.Fun) {
			case "base.GetMethodT":
				if methodPos == token.NoPos {
					methodPos = c.Pos()
				}
			case "base.GetInstanceValueT":
				if ivarPos == token.NoPos {
					ivarPos = c.Pos()
				}
			}
		}
		return true
	})
	// C07: a call on a union receiver is checked per class; an error that survives the other declarations (overloads) of that
	// class's method is returned: after the `range ….Overloads` retry there is a plain `if err != nil { return nil, err }`
	tp := parseFile("eval/method_evaluator/type_process.go")
	un := findFunc(tp, "", "checkAndPropagateArgsForUnionWithReturnT")
	if un == nil {
		refuse("checkAndPropagateArgsForUnionWithReturnT not found")
	}
	survives := false
	ast.Inspect(un.Body, func(n ast.Node) bool {
		rs, ok := n.(*ast.RangeStmt)
		if !ok || exprString(rs.X) != "classNames" {
			return true
		}
		sawRetry := false
		for _, st := range rs.Body.List {
			is, ok := st.(*ast.IfStmt)
			if !ok {
				continue
			}
			retry := false
			ast.Inspect(is.Body, func(m ast.Node) bool {
				if r, ok := m.(*ast.RangeStmt); ok && strings.HasSuffix(exprString(r.X), ".Overloads") {
					retry = true
				}
				return true
			})
			if retry {
				sawRetry = true
				continue
			}
			if sawRetry && strings.ReplaceAll(exprString(is.Cond), " ", "") == "err!=nil" && len(is.Body.List) == 1 {
				if r, ok := is.Body.List[0].(*ast.ReturnStmt); ok && len(r.Results) == 2 && exprString(r.Results[1]) == "err" {
					survives = true
				}
			}
		}
		return false
	})
	b := "namespace RubyTi.Gen\n\n/-- checkAndPropagateArgsForUnionWithReturnT: an argument error that none of a class's declarations lifts is returned -/\n"
	b += "def unionReceiverErrorSurvivesOverloads : Bool := " + leanBool(survives) + "\n\n/-- instanceMethodStrategy.getRequiredValues looks the name up as a method before it looks it up as an instance variable -/\n"
	b += "def instanceLookupMethodFirst : Bool := " + leanBool(methodPos != token.NoPos && ivarPos != token.NoPos && methodPos < ivarPos) + "\n\nend RubyTi.Gen\n"
	writeGen("StrategyFacts", b)
}

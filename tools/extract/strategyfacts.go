package main

import (
	"go/ast"
	"go/token"
)

// C13: `recv.name` denotes the METHOD name; an instance variable spelled like it (@name) is another identifier and is
// consulted only when no method of that name exists (instanceMethodStrategy.getRequiredValues).
func genStrategyFacts() {
	f := parseFile("eval/method_evaluator/instance_method_strategy.go")
	fn := findFunc(f, "instanceMethodStrategy", "getRequiredValues")
	if fn == nil {
		refuse("instanceMethodStrategy.getRequiredValues not found")
	}
	var methodPos, ivarPos token.Pos
	ast.Inspect(fn.Body, func(n ast.Node) bool {
		if c, ok := n.(*ast.CallExpr); ok {
			switch exprString(c.Fun) {
			case "base.GetMethodT":
				if methodPos == token.NoPos {
					methodPos = c.Pos()
				}
			case "base.GetInstanceValueT":
				if ivarPos == token.NoPos {
					ivarPos = c.Pos()
				}
			}
		}
		return true
	})
	b := "namespace RubyTi.Gen\n\n/-- instanceMethodStrategy.getRequiredValues looks the name up as a method before it looks it up as an instance variable -/\n"
	b += "def instanceLookupMethodFirst : Bool := " + leanBool(methodPos != token.NoPos && ivarPos != token.NoPos && methodPos < ivarPos) + "\n\nend RubyTi.Gen\n"
	writeGen("StrategyFacts", b)
}

package main

// genMore: further tables (sort keys, map ranges, loops, nil guards); filled in as the models grow.
func genMore() {}

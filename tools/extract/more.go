package main

import (
	"fmt"
	"go/ast"
	"go/token"
	"os"
	"path/filepath"
	"sort"
	"strings"
)

// genMore: nil guards of *T methods, condition-less loops, map ranges.
func genMore() {
	genNilGuards()
	genLoops()
	genConfig()
	genSig()
	genMapRanges()
	genMainFacts()
	genLoaderFacts()
	genNarrowFacts()
	genBlockFacts()
	genClassFacts()
	genStrategyFacts()
}

type methInfo struct {
	name      string
	direct    int // 1 guarded (nil test before any field use), 0 unguarded (field use first), 2 only delegates / no use
	delegates []string
}

func isRecv(e ast.Expr, recv string) bool {
	id, ok := e.(*ast.Ident)
	return ok && id.Name == recv
}

func genNilGuards() {
	dir := filepath.Join(repo, "base")
	ents, err := os.ReadDir(dir)
	if err != nil {
		refuse("read base/: %v", err)
	}
	var infos []*methInfo
	methods := map[string]bool{}
	var files []*ast.File
	for _, e := range ents {
		if !strings.HasSuffix(e.Name(), ".go") || strings.HasSuffix(e.Name(), "_test.go") || strings.Contains(e.Name(), "verif") {
			continue
		}
		f := parseFile("base/" + e.Name())
		files = append(files, f)
		for _, d := range f.Decls {
			if fd, ok := d.(*ast.FuncDecl); ok && fd.Recv != nil && len(fd.Recv.List) == 1 {
				if _, isPtr := fd.Recv.List[0].Type.(*ast.StarExpr); isPtr && recvTypeName(fd.Recv.List[0].Type) == "T" {
					methods[fd.Name.Name] = true
				}
			}
		}
	}
	for _, f := range files {
		for _, d := range f.Decls {
			fd, ok := d.(*ast.FuncDecl)
			if !ok || fd.Recv == nil || len(fd.Recv.List) != 1 || fd.Body == nil {
				continue
			}
			if _, isPtr := fd.Recv.List[0].Type.(*ast.StarExpr); !isPtr || recvTypeName(fd.Recv.List[0].Type) != "T" {
				continue
			}
			if len(fd.Recv.List[0].Names) != 1 {
				continue
			}
			recv := fd.Recv.List[0].Names[0].Name
			mi := &methInfo{name: fd.Name.Name, direct: 2}
			decided := false
			callFuns := map[*ast.SelectorExpr]bool{}
			ast.Inspect(fd.Body, func(n ast.Node) bool {
				if decided {
					return false
				}
				switch x := n.(type) {
				case *ast.CallExpr:
					if se, ok := x.Fun.(*ast.SelectorExpr); ok && isRecv(se.X, recv) && methods[se.Sel.Name] {
						callFuns[se] = true
					}
				case *ast.BinaryExpr:
					if (x.Op == token.EQL || x.Op == token.NEQ) && isRecv(x.X, recv) {
						if id, ok := x.Y.(*ast.Ident); ok && id.Name == "nil" {
							mi.direct = 1
							decided = true
							return false
						}
					}
				case *ast.SelectorExpr:
					if isRecv(x.X, recv) {
						if callFuns[x] {
							mi.delegates = append(mi.delegates, x.Sel.Name)
						} else {
							mi.direct = 0
							decided = true
							return false
						}
					}
				case *ast.StarExpr:
					if isRecv(x.X, recv) {
						mi.direct = 0
						decided = true
						return false
					}
				}
				return true
			})
			infos = append(infos, mi)
		}
	}
	byName := map[string]*methInfo{}
	for _, m := range infos {
		byName[m.name] = m
	}
	// fixpoint: a method that reaches a nil test or the end only through guarded delegates is guarded
	guarded := map[string]bool{}
	for _, m := range infos {
		guarded[m.name] = m.direct != 0
	}
	for changed := true; changed; {
		changed = false
		for _, m := range infos {
			if !guarded[m.name] {
				continue
			}
			for _, d := range m.delegates {
				if !guarded[d] {
					guarded[m.name] = false
					changed = true
					break
				}
			}
		}
	}
	sort.Slice(infos, func(i, j int) bool { return infos[i].name < infos[j].name })
	var b strings.Builder
	b.WriteString("namespace RubyTi.Gen\n")
	b.WriteString("/-- methods with receiver `t *T` in base/: (name, is an Is…/Has… predicate, guarded) where guarded := a `t == nil`/`t != nil` test\n(or only calls of guarded methods) comes before the first field access through `t`. -/\n")
	b.WriteString("def nilGuards : List (String × Bool × Bool) := [")
	for i, m := range infos {
		if i > 0 {
			b.WriteString(", ")
		}
		fmt.Fprintf(&b, "(%s, %v, %v)", leanStr(m.name), isPredicateName(m.name), guarded[m.name])
	}
	b.WriteString("]\nend RubyTi.Gen\n")
	writeGen("NilGuards", b.String())
}

// condition-less `for` loops in eval/, eval/method_evaluator/, parser/: does the body ask the
// parser for a token (Read/ReadWithCheck/ReadAhead/ReadTwice/Skip/SkipNewline/SkipToTargetToken
// or a call of an Eval*/evaluat* function, which reads) ?
func genLoops() {
	var rows []string
	total := 0
	for _, dir := range []string{"eval", "eval/method_evaluator", "parser"} {
		ents, err := os.ReadDir(filepath.Join(repo, dir))
		if err != nil {
			refuse("read %s: %v", dir, err)
		}
		for _, e := range ents {
			if !strings.HasSuffix(e.Name(), ".go") || strings.HasSuffix(e.Name(), "_test.go") || strings.Contains(e.Name(), "verif") {
				continue
			}
			f := parseFile(dir + "/" + e.Name())
			for _, d := range f.Decls {
				fd, ok := d.(*ast.FuncDecl)
				if !ok || fd.Body == nil {
					continue
				}
				ord := 0
				ast.Inspect(fd.Body, func(n ast.Node) bool {
					fs, ok := n.(*ast.ForStmt)
					if !ok || fs.Cond != nil {
						return true
					}
					ord++
					total++
					reads := false
					ast.Inspect(fs.Body, func(m ast.Node) bool {
						if ce, ok := m.(*ast.CallExpr); ok {
							name := ""
							switch fn := ce.Fun.(type) {
							case *ast.SelectorExpr:
								name = fn.Sel.Name
							case *ast.Ident:
								name = fn.Name
							}
							switch {
							case name == "Read", name == "ReadWithCheck", name == "ReadAhead", name == "ReadTwice",
								name == "Skip", name == "SkipNewline", name == "SkipToTargetToken", name == "getToken":
								reads = true
							}
						}
						return !reads
					})
					rows = append(rows, fmt.Sprintf("(%s, %s, %d, %v)", leanStr(dir+"/"+e.Name()), leanStr(fd.Name.Name), ord, reads))
					return true
				})
			}
		}
	}
	sort.Strings(rows)
	var b strings.Builder
	b.WriteString("namespace RubyTi.Gen\n")
	b.WriteString("/-- every condition-less `for` in eval/, eval/method_evaluator/, parser/: (file, func, ordinal, body requests a token) -/\n")
	b.WriteString("def loops : List (String × String × Nat × Bool) := [\n  " + strings.Join(rows, ",\n  ") + "]\n")
	b.WriteString("end RubyTi.Gen\n")
	writeGen("Loops", b.String())
}

func isPredicateName(n string) bool {
	for _, p := range []string{"Is", "Has"} {
		if strings.HasPrefix(n, p) && len(n) > len(p) && n[len(p)] >= 'A' && n[len(p)] <= 'Z' {
			return true
		}
	}
	return false
}

package main

import (
	"bytes"
	"fmt"
	"go/ast"
	"go/printer"
	"go/token"
	"os"
	"path/filepath"
	"strings"
)

func exprString(e ast.Expr) string {
	var buf bytes.Buffer
	printer.Fprint(&buf, fset, e)
	return buf.String()
}

func goFilesUnder(dir string) []string {
	var out []string
	filepath.Walk(filepath.Join(repo, dir), func(p string, info os.FileInfo, err error) error {
		if err == nil && !info.IsDir() && strings.HasSuffix(p, ".go") && !strings.HasSuffix(p, "_test.go") && !strings.Contains(p, "verif") {
			rel, _ := filepath.Rel(repo, p)
			out = append(out, rel)
		}
		return nil
	})
	return out
}

// facts about main.go's round loop that C18 / C22 / C24 rest on
func genMainFacts() {
	f := parseFile("main.go")
	el := findFunc(f, "", "evaluationLoop")
	// 1. `if isLoad { return }` comes before the first call of a cmd.Print* function or setDefineInfos/appendSignature
	loadReturnPos, firstOutputPos := token.NoPos, token.NoPos
	ast.Inspect(el.Body, func(n ast.Node) bool {
		switch x := n.(type) {
		case *ast.IfStmt:
			if id, ok := x.Cond.(*ast.Ident); ok && id.Name == "isLoad" && len(x.Body.List) == 1 {
				if _, ok := x.Body.List[0].(*ast.ReturnStmt); ok && loadReturnPos == token.NoPos {
					loadReturnPos = x.Pos()
				}
			}
		case *ast.CallExpr:
			name := ""
			switch fn := x.Fun.(type) {
			case *ast.SelectorExpr:
				if recvTypeName(fn.X) == "cmd" && strings.HasPrefix(fn.Sel.Name, "Print") {
					name = fn.Sel.Name
				}
			case *ast.Ident:
				if fn.Name == "setDefineInfos" || fn.Name == "appendSignature" {
					name = fn.Name
				}
			}
			if name != "" && firstOutputPos == token.NoPos {
				firstOutputPos = x.Pos()
			}
		}
		return true
	})
	loadBeforeOutput := loadReturnPos != token.NoPos && firstOutputPos != token.NoPos && loadReturnPos < firstOutputPos
	// 2. setDefineInfos skips articles of other files
	sd := findFunc(f, "", "setDefineInfos")
	filtered := false
	ast.Inspect(sd.Body, func(n ast.Node) bool {
		if is, ok := n.(*ast.IfStmt); ok {
			if be, ok := is.Cond.(*ast.BinaryExpr); ok && be.Op == token.NEQ {
				l, lok := be.X.(*ast.SelectorExpr)
				r, rok := be.Y.(*ast.SelectorExpr)
				if lok && rok && l.Sel.Name == "FileName" && r.Sel.Name == "FileName" && len(is.Body.List) == 1 {
					if bs, ok := is.Body.List[0].(*ast.BranchStmt); ok && bs.Tok == token.CONTINUE {
						filtered = true
					}
				}
			}
		}
		return true
	})
	// 3. preload() passes isLoad = true, main's target call passes false
	pre := findFunc(f, "", "preload")
	preTrue := false
	ast.Inspect(pre.Body, func(n ast.Node) bool {
		if ce, ok := n.(*ast.CallExpr); ok {
			if id, ok := ce.Fun.(*ast.Ident); ok && id.Name == "evaluationLoop" && len(ce.Args) == 4 {
				if a, ok := ce.Args[3].(*ast.Ident); ok && a.Name == "true" {
					preTrue = true
				}
			}
		}
		return true
	})
	mainFn := findFunc(f, "", "main")
	targetFalse := false
	preloadBeforeTarget := false
	var prePos, tgtPos, cleanPos token.Pos
	ast.Inspect(mainFn.Body, func(n ast.Node) bool {
		if ce, ok := n.(*ast.CallExpr); ok {
			if id, ok := ce.Fun.(*ast.Ident); ok {
				if id.Name == "evaluationLoop" && len(ce.Args) == 4 {
					if a, ok := ce.Args[3].(*ast.Ident); ok && a.Name == "false" {
						targetFalse = true
						tgtPos = ce.Pos()
					}
				}
				if id.Name == "preload" {
					prePos = ce.Pos()
				}
				if id.Name == "cleanSimpleIdentifires" {
					cleanPos = ce.Pos()
				}
			}
		}
		return true
	})
	preloadBeforeTarget = prePos != token.NoPos && tgtPos != token.NoPos && prePos < tgtPos
	// the per-round clean-up of the frame runs before the preloaded files, not between them and the target
	cleanBeforePreload := cleanPos != token.NoPos && prePos != token.NoPos && cleanPos < prePos
	// 4. call points: recorded only in the check round and not on the look-ahead copy; the copy is marked in beforeEval
	cf := parseFile("eval/method_evaluator/core.go")
	nm := findFunc(cf, "", "NewMethodEvaluator")
	guard := false
	ast.Inspect(nm.Body, func(n ast.Node) bool {
		is, ok := n.(*ast.IfStmt)
		if !ok {
			return true
		}
		src := exprString(is.Cond)
		appends := false
		ast.Inspect(is.Body, func(m ast.Node) bool {
			if se, ok := m.(*ast.SelectorExpr); ok && se.Sel.Name == "MethodCallPoint" {
				appends = true
			}
			return true
		})
		if appends && strings.Contains(src, "IsCheckRound()") && strings.Contains(src, "!p.IsLookAhead") {
			guard = true
		}
		return true
	})
	// no other writer of MethodCallPoint in eval/
	writers := 0
	for _, rel := range goFilesUnder("eval") {
		ff := parseFile(rel)
		ast.Inspect(ff, func(n ast.Node) bool {
			if as, ok := n.(*ast.AssignStmt); ok {
				for _, l := range as.Lhs {
					if strings.Contains(exprString(l), "MethodCallPoint[") {
						writers++
					}
				}
			}
			return true
		})
	}
	iff := parseFile("eval/ifunless.go")
	be := findFunc(iff, "IfUnless", "beforeEval")
	marked := false
	valueParam := false
	for _, fld := range be.Type.Params.List {
		if exprString(fld.Type) == "parser.Parser" {
			valueParam = true // by value: the mark cannot leak to the caller's parser
		}
	}
	ast.Inspect(be.Body, func(n ast.Node) bool {
		if as, ok := n.(*ast.AssignStmt); ok && len(as.Lhs) == 1 && exprString(as.Lhs[0]) == "p.IsLookAhead" && exprString(as.Rhs[0]) == "true" {
			marked = true
		}
		return true
	})
	var b strings.Builder
	b.WriteString("namespace RubyTi.Gen\n")
	b.WriteString("/-- syntactic facts about main.go (re-extracted on every run) -/\n")
	fmt.Fprintf(&b, "def callPointGuarded : Bool := %v\n", guard)
	fmt.Fprintf(&b, "def callPointWriters : Nat := %d\n", writers)
	fmt.Fprintf(&b, "def lookAheadMarkedOnCopy : Bool := %v\n", marked && valueParam)
	fmt.Fprintf(&b, "def mainLoadReturnsBeforeOutput : Bool := %v\n", loadBeforeOutput)
	fmt.Fprintf(&b, "def mainHintsFilteredByFile : Bool := %v\n", filtered)
	fmt.Fprintf(&b, "def mainPreloadIsLoad : Bool := %v\n", preTrue)
	fmt.Fprintf(&b, "def mainTargetIsNotLoad : Bool := %v\n", targetFalse)
	fmt.Fprintf(&b, "def mainPreloadBeforeTarget : Bool := %v\n", preloadBeforeTarget)
	fmt.Fprintf(&b, "def mainCleanBeforePreload : Bool := %v\n", cleanBeforePreload)
	b.WriteString("end RubyTi.Gen\n")
	writeGen("MainFacts", b.String())
}

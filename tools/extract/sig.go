package main

import (
	"fmt"
	"go/ast"
	"go/importer"
	"go/token"
	"go/types"
	"os"
	"path/filepath"
	"sort"
	"strings"
)

// field order of the comparators in base/signature.go
func compareFields(fn ast.Node) []string {
	var fields []string
	seen := map[string]bool{}
	ast.Inspect(fn, func(n ast.Node) bool {
		switch x := n.(type) {
		case *ast.SelectorExpr:
			if id, ok := x.X.(*ast.Ident); ok && (id.Name == "a" || id.Name == "b") {
				if !seen[x.Sel.Name] {
					seen[x.Sel.Name] = true
					fields = append(fields, x.Sel.Name)
				}
			}
		case *ast.CallExpr:
			if id, ok := x.Fun.(*ast.Ident); ok && id.Name == "compareSigTie" {
				if !seen["<tie>"] {
					seen["<tie>"] = true
					fields = append(fields, "<tie>")
				}
			}
		}
		return true
	})
	return fields
}

func genSig() {
	f := parseFile("base/signature.go")
	var b strings.Builder
	b.WriteString("namespace RubyTi.Gen\n")
	tie := []string{}
	for _, d := range f.Decls {
		if fd, ok := d.(*ast.FuncDecl); ok && fd.Name.Name == "compareSigTie" {
			tie = compareFields(fd.Body)
		}
	}
	var rows []string
	for _, name := range []string{"GetSortedTSignatures", "GetSortedTSignaturesByClass"} {
		fd := findFunc(f, "", name)
		var lit *ast.FuncLit
		ast.Inspect(fd, func(n ast.Node) bool {
			if fl, ok := n.(*ast.FuncLit); ok && lit == nil {
				lit = fl
			}
			return true
		})
		if lit == nil {
			refuse("%s: no comparator closure", name)
		}
		var fields []string
		for _, x := range compareFields(lit) {
			if x == "<tie>" {
				fields = append(fields, tie...)
			} else {
				fields = append(fields, x)
			}
		}
		rows = append(rows, fmt.Sprintf("(%s, %s)", leanStr(name), strList(fields)))
	}
	b.WriteString("/-- field order of the comparator closures in base/signature.go (tie-break helper inlined) -/\n")
	b.WriteString("def sortKeys : List (String × List String) := [" + strings.Join(rows, ", ") + "]\n")
	b.WriteString("end RubyTi.Gen\n")
	writeGen("Sig", b.String())
}

// every `range` over a map-typed expression in the main module (type-checked from source)
func genMapRanges() {
	old, _ := os.Getwd()
	os.Chdir(repo)
	defer os.Chdir(old)
	imp := importer.ForCompiler(fset, "source", nil)
	var rows []string
	var carried []string
	var dirs []string
	filepath.Walk(repo, func(p string, info os.FileInfo, err error) error {
		if err != nil {
			return nil
		}
		if info.IsDir() {
			base := filepath.Base(p)
			if base == ".git" || base == "test" || base == "example" || base == "skills" || base == "docs" || base == "image" || base == "shell" {
				return filepath.SkipDir
			}
			dirs = append(dirs, p)
		}
		return nil
	})
	sort.Strings(dirs)
	for _, dir := range dirs {
		ents, _ := os.ReadDir(dir)
		var files []*ast.File
		var names []string
		for _, e := range ents {
			if !strings.HasSuffix(e.Name(), ".go") || strings.HasSuffix(e.Name(), "_test.go") || strings.Contains(e.Name(), "verif") {
				continue
			}
			rel, _ := filepath.Rel(repo, filepath.Join(dir, e.Name()))
			files = append(files, parseFile(rel))
			names = append(names, rel)
		}
		if len(files) == 0 {
			continue
		}
		info := &types.Info{Types: map[ast.Expr]types.TypeAndValue{}}
		conf := types.Config{Importer: imp, Error: func(error) {}}
		rel, _ := filepath.Rel(repo, dir)
		path := "ti"
		if rel != "." {
			path = "ti/" + filepath.ToSlash(rel)
		}
		conf.Check(path, fset, files, info)
		for i, f := range files {
			for _, d := range f.Decls {
				fd, ok := d.(*ast.FuncDecl)
				if !ok || fd.Body == nil {
					continue
				}
				ord := 0
				ast.Inspect(fd.Body, func(n ast.Node) bool {
					rs, ok := n.(*ast.RangeStmt)
					if !ok {
						return true
					}
					tv, ok := info.Types[rs.X]
					if !ok || tv.Type == nil {
						return true
					}
					if _, isMap := tv.Type.Underlying().(*types.Map); isMap {
						ord++
						rows = append(rows, fmt.Sprintf("(%s, %s, %d)", leanStr(names[i]), leanStr(fd.Name.Name), ord))
						var cs []string
						for _, c := range carriedVars(rs) {
							cs = append(cs, leanStr(c))
						}
						carried = append(carried, fmt.Sprintf("(%s, %s, %d, [%s])", leanStr(names[i]), leanStr(fd.Name.Name), ord, strings.Join(cs, ", ")))
					}
					return true
				})
			}
		}
	}
	sort.Strings(rows)
	sort.Strings(carried)
	if len(rows) == 0 {
		refuse("no map range found: type checking from source failed")
	}
	var b strings.Builder
	b.WriteString("namespace RubyTi.Gen\n")
	b.WriteString("/-- every `range` over a map-typed value in the module: (file, function, ordinal) -/\n")
	b.WriteString("def mapRanges : List (String × String × Nat) := [\n  " + strings.Join(rows, ",\n  ") + "]\n")
	b.WriteString("/-- per map range: the plain variables declared OUTSIDE the loop body that the body assigns (what one iteration hands to the next) -/\n")
	b.WriteString("def mapRangeCarried : List (String × String × Nat × List String) := [\n  " + strings.Join(carried, ",\n  ") + "]\n")
	b.WriteString("end RubyTi.Gen\n")
	writeGen("MapRanges", b.String())
}

// carriedVars: identifiers assigned (=, op=, ++/--) in the body of a range loop that are not declared inside that body.
// Writes through an index or a field (m[k] = v, x.f = v) are not listed: per-key updates are what the reviewed loops do.
func carriedVars(rs *ast.RangeStmt) []string {
	declared := map[string]bool{}
	assigned := map[string]bool{}
	if id, ok := rs.Key.(*ast.Ident); ok {
		declared[id.Name] = true
	}
	if id, ok := rs.Value.(*ast.Ident); ok {
		declared[id.Name] = true
	}
	ast.Inspect(rs.Body, func(n ast.Node) bool {
		switch x := n.(type) {
		case *ast.AssignStmt:
			for _, l := range x.Lhs {
				if id, ok := l.(*ast.Ident); ok && id.Name != "_" {
					if x.Tok == token.DEFINE {
						declared[id.Name] = true
					} else {
						assigned[id.Name] = true
					}
				}
			}
		case *ast.IncDecStmt:
			if id, ok := x.X.(*ast.Ident); ok {
				assigned[id.Name] = true
			}
		case *ast.RangeStmt:
			if id, ok := x.Key.(*ast.Ident); ok && x.Tok == token.DEFINE {
				declared[id.Name] = true
			}
			if id, ok := x.Value.(*ast.Ident); ok && x.Tok == token.DEFINE {
				declared[id.Name] = true
			}
		case *ast.ValueSpec:
			for _, id := range x.Names {
				declared[id.Name] = true
			}
		}
		return true
	})
	var out []string
	for name := range assigned {
		if !declared[name] {
			out = append(out, name)
		}
	}
	sort.Strings(out)
	return out
}

var _ = token.NoPos

package main

import (
	"fmt"
	"go/ast"
	"go/token"
	"sort"
	"strings"
)

// package-level variable names of a package directory
func packageVars(dir string) map[string]bool {
	out := map[string]bool{}
	for _, rel := range goFilesUnder(dir) {
		if strings.Count(rel, "/") != strings.Count(dir, "/")+1 {
			continue
		}
		f := parseFile(rel)
		for _, d := range f.Decls {
			gd, ok := d.(*ast.GenDecl)
			if !ok || gd.Tok != token.VAR {
				continue
			}
			for _, s := range gd.Specs {
				for _, n := range s.(*ast.ValueSpec).Names {
					out[n.Name] = true
				}
			}
		}
	}
	return out
}

// C19: which global state the config loader READS while it loads file after file. A read of state that
// earlier files wrote is what can make the result depend on the file order; the list is reviewed in
// Props/C19.lean (`loader_reads_reviewed`).
func genLoaderFacts() {
	f := parseFile("builtin/json_loader.go")
	fn := findFunc(f, "", "loadBuiltinFromJSON")
	if fn == nil {
		refuse("loadBuiltinFromJSON not found")
	}
	baseVars := packageVars("base")
	writeCtx := map[ast.Node]bool{}
	var markLhs func(e ast.Expr)
	markLhs = func(e ast.Expr) {
		switch x := e.(type) {
		case *ast.SelectorExpr:
			writeCtx[x] = true
		case *ast.IndexExpr:
			markLhs(x.X)
		}
	}
	ast.Inspect(fn.Body, func(n ast.Node) bool {
		switch x := n.(type) {
		case *ast.AssignStmt:
			for _, l := range x.Lhs {
				markLhs(l)
			}
		case *ast.CallExpr:
			if id, ok := x.Fun.(*ast.Ident); ok && id.Name == "append" && len(x.Args) > 0 {
				markLhs(x.Args[0])
			}
		}
		return true
	})
	reads := map[string]int{}
	ast.Inspect(fn.Body, func(n ast.Node) bool {
		se, ok := n.(*ast.SelectorExpr)
		if !ok {
			return true
		}
		if id, ok := se.X.(*ast.Ident); ok && id.Name == "base" && baseVars[se.Sel.Name] && !writeCtx[se] {
			reads[se.Sel.Name]++
		}
		return true
	})
	var names []string
	for k := range reads {
		names = append(names, k)
	}
	sort.Strings(names)
	var b strings.Builder
	b.WriteString("namespace RubyTi.Gen\n\n/-- package-level variables of `base` READ (not merely written/appended to) inside builtin.loadBuiltinFromJSON, with the number of reading occurrences -/\n")
	b.WriteString("def loaderReads : List (String × Nat) := [")
	for i, k := range names {
		if i > 0 {
			b.WriteString(", ")
		}
		fmt.Fprintf(&b, "(%s, %d)", leanStr(k), reads[k])
	}
	b.WriteString("]\n\nend RubyTi.Gen\n")
	writeGen("LoaderFacts", b.String())
}

package main

import (
	"go/ast"
	"strings"
)

// C20: where `class X < P` chooses the frame of its superclass (eval/class.go, Class.Evaluation) and where include/extend
// edges are redirected to frame Builtin (base/t_frame.go, getParentMethodTGuarded): the flat list of configured short names is
// consulted only for names the program has not defined itself.
func genClassFacts() {
	f := parseFile("eval/class.go")
	ev := findFunc(f, "Class", "Evaluation")
	if ev == nil {
		refuse("Class.Evaluation not found")
	}
	ownFromLookup, guarded, lexicalElse := false, false, false
	ast.Inspect(ev.Body, func(n ast.Node) bool {
		switch x := n.(type) {
		case *ast.AssignStmt:
			// _, isOwnClass := base.LookupDefinedClassFrame(ctx.GetFrame(), parentClass)
			if len(x.Lhs) == 2 && len(x.Rhs) == 1 {
				if id, ok := x.Lhs[1].(*ast.Ident); ok && id.Name == "isOwnClass" {
					if c, ok := x.Rhs[0].(*ast.CallExpr); ok && exprString(c.Fun) == "base.LookupDefinedClassFrame" {
						ownFromLookup = true
					}
				}
			}
		case *ast.IfStmt:
			// if !isOwnClass && slices.Contains(base.BuiltinClasses, parentClass) && ... { parentFrame = "Builtin" } else if ... { parentFrame = base.FindDefinedClassFrame(...) }
			setsBuiltin := false
			for _, s := range x.Body.List {
				if as, ok := s.(*ast.AssignStmt); ok && len(as.Lhs) == 1 && exprString(as.Lhs[0]) == "parentFrame" && exprString(as.Rhs[0]) == `"Builtin"` {
					setsBuiltin = true
				}
			}
			if setsBuiltin {
				cond := strings.ReplaceAll(exprString(x.Cond), " ", "")
				if strings.Contains(cond, "!isOwnClass&&") && strings.Contains(cond, "slices.Contains(base.BuiltinClasses,parentClass)") {
					guarded = true
				}
				if el, ok := x.Else.(*ast.IfStmt); ok {
					for _, s := range el.Body.List {
						if as, ok := s.(*ast.AssignStmt); ok && len(as.Lhs) == 1 && exprString(as.Lhs[0]) == "parentFrame" && strings.HasPrefix(exprString(as.Rhs[0]), "base.FindDefinedClassFrame(") {
							lexicalElse = true
						}
					}
				}
			}
		}
		return true
	})
	// include / extend: `<x>Frame == "" && !DefinedClassTable[DefinedClass{frame: "", class: parentNode.Class}] && slices.Contains(BuiltinClasses, parentNode.Class)`
	tf := parseFile("base/t_frame.go")
	gp := findFunc(tf, "", "getParentMethodTGuarded")
	if gp == nil {
		refuse("getParentMethodTGuarded not found")
	}
	redirects, guardedRedirects := 0, 0
	ast.Inspect(gp.Body, func(n ast.Node) bool {
		is, ok := n.(*ast.IfStmt)
		if !ok {
			return true
		}
		for _, s := range is.Body.List {
			if as, ok := s.(*ast.AssignStmt); ok && len(as.Rhs) == 1 && exprString(as.Rhs[0]) == `"Builtin"` {
				redirects++
				lhs := exprString(as.Lhs[0])
				cond := strings.ReplaceAll(exprString(is.Cond), " ", "")
				if strings.HasPrefix(cond, lhs+`==""&&`) && strings.Contains(cond, `!DefinedClassTable[DefinedClass{frame:"",class:parentNode.Class}]`) &&
					strings.Contains(cond, "slices.Contains(BuiltinClasses,parentNode.Class)") {
					guardedRedirects++
				}
			}
		}
		return true
	})
	// the inherited `new` a class gets is a COPY: in the case clause that retargets it (SetFrame / SetObjectClass), the variable is
	// first reassigned to its own DeepCopy()
	copiedFirst := false
	ast.Inspect(ev.Body, func(n ast.Node) bool {
		cc, ok := n.(*ast.CaseClause)
		if !ok {
			return true
		}
		retargets := false
		for _, st := range cc.Body {
			if es, ok := st.(*ast.ExprStmt); ok {
				if c, ok := es.X.(*ast.CallExpr); ok && exprString(c.Fun) == "newMethodT.SetObjectClass" {
					retargets = true
				}
			}
		}
		if retargets && len(cc.Body) > 0 {
			if as, ok := cc.Body[0].(*ast.AssignStmt); ok && len(as.Lhs) == 1 && exprString(as.Lhs[0]) == "newMethodT" && exprString(as.Rhs[0]) == "newMethodT.DeepCopy()" {
				copiedFirst = true
			}
		}
		return true
	})
	b := "namespace RubyTi.Gen\n\n"
	b += "/-- eval/class.go: the `new` a class inherits is deep-copied BEFORE it is retargeted to the subclass (the ancestor's entry, possibly a configured one, is not written) -/\n"
	b += "def classNewCopiedBeforeRetarget : Bool := " + leanBool(copiedFirst) + "\n\n"
	b += "/-- eval/class.go: `isOwnClass` comes from base.LookupDefinedClassFrame, the redirect of a superclass to frame Builtin is guarded by `!isOwnClass`, and the other branch looks the name up lexically -/\n"
	b += "def superclassOwnClassGuard : Bool := " + leanBool(ownFromLookup && guarded && lexicalElse) + "\n\n"
	b += "/-- base/t_frame.go getParentMethodTGuarded: the redirects of include/extend edges to frame Builtin, and how many of them test the edge's own frame and exclude names the program defines at top level -/\n"
	b += "def parentRedirects : Nat := " + itoa(redirects) + "\n"
	b += "def parentRedirectsGuarded : Nat := " + itoa(guardedRedirects) + "\n\nend RubyTi.Gen\n"
	writeGen("ClassFacts", b)
}

func itoa(n int) string {
	s := ""
	if n == 0 {
		return "0"
	}
	for n > 0 {
		s = string(rune('0'+n%10)) + s
		n /= 10
	}
	return s
}
